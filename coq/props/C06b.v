(* C06b -- C06, the provenance clause: the list of context snapshots a task is rendered with holds
   the initial context and exactly snapshots published on transitions along which control reached the
   task; a snapshot published on a transition that does not lead to the task is never in its list.
   Property theorems only; proofs are in proofs/ProvenanceProofs.v.  Together with
   C06_offer_context_is_the_fold (the offered context is the in-order merge of the snapshots in the
   list) and C06_delta_is_the_publish (a snapshot holds exactly the published names) this is the
   clause in the property's words.

   The engine keeps no record of which transition created which snapshot (ctxs.out holds the last
   one only), so the invariant carries a ghost list G, one entry per snapshot: None (the initial
   context) or Some (record index, edge).  [Provenance g G c]: every index i in the list of a staged
   entry or record of task x is 0, or was created by an edge INTO x of an earlier record (G says so),
   or is inherited: it is in the list of an earlier record of x itself (the record made from the
   entry, a retry, a rerun) or of a task with an edge into x. *)
From Coq Require Import String List Bool ZArith.
From Orq Require Import GenStatuses GenEvents Base State Machines Conductor Api JustifiedProofs ProvenanceProofs.
Import ListNotations.
Open Scope string_scope.

Theorem C06b_provenance_unfold : forall g G c,
  Provenance g G c <->
  (c_graph c = g /\ length G = length (contexts (c_ws c)) /\ ptr_ok (c_ws c) /\
   (forall s, In s (staged (c_ws c)) ->
      in_ok g G (sequence (c_ws c)) (length (sequence (c_ws c))) (s_id s) (s_in s)) /\
   (forall n r, nth_error (sequence (c_ws c)) n = Some r -> in_ok g G (sequence (c_ws c)) n (r_id r) (r_in r))).
Proof. exact provenance_unfold. Qed.
Print Assumptions C06b_provenance_unfold.

Theorem C06b_in_ok_unfold : forall g G sq bound dst L,
  in_ok g G sq bound dst L <->
  (forall i, In i L -> i = 0 \/
     exists j r', nth_error sq j = Some r' /\ j < bound /\
       ((In i (r_in r') /\ task_step g (r_id r') dst) \/
        (exists e, nth_error G i = Some (Some (j, e)) /\ In e (g_edges g) /\ e_src e = r_id r' /\ e_dst e = dst))).
Proof. exact in_ok_unfold. Qed.
Print Assumptions C06b_in_ok_unfold.

Theorem C06b_task_step_unfold : forall g a b,
  task_step g a b <-> (a = b \/ exists e, In e (g_edges g) /\ e_src e = a /\ e_dst e = b).
Proof. exact task_step_unfold. Qed.
Print Assumptions C06b_task_step_unfold.

(* [F] NO hypothesis: every evaluator, every definition/graph, every API operation -- status
   requests, polls, events of every kind (late, duplicate, malformed, injected), rendering, reruns,
   persists, calls that raise: a ghost list for the state before extends (as a prefix) to one for the
   state after, and records keep their task and their list (R2, unfolded below) *)
Theorem C06b_api_provenance : forall g ev op, Hoare.preserves (R2 g) (api_exec ev op).
Proof. exact api_provenance. Qed.
Print Assumptions C06b_api_provenance.

Theorem C06b_R2_unfold : forall g c c',
  R2 g c c' <->
  (seq_in_keeps (sequence (c_ws c)) (sequence (c_ws c')) /\
   forall G, Provenance g G c -> exists G', C18Proofs.prefix G G' /\ Provenance g G' c').
Proof. exact R2_unfold. Qed.
Print Assumptions C06b_R2_unfold.

Theorem C06b_history_provenance : forall g ev ops c G, Provenance g G c ->
  exists G', C18Proofs.prefix G G' /\ Provenance g G' (run_ops ev ops c).
Proof. exact history_provenance. Qed.
Print Assumptions C06b_history_provenance.

(* [F] from a fresh conductor: every reachable state has a ghost list *)
Theorem C06b_reachable_provenance : forall ev sp g inputs parent ops,
  exists G, Provenance g G (run_ops ev ops (fresh_state sp g inputs parent)).
Proof. exact reachable_provenance. Qed.
Print Assumptions C06b_reachable_provenance.

(* [F] the property's words.  A snapshot i <> 0 created by edge e (G says so) occurs only in lists
   of tasks reachable, along edges of the graph, from the target of e ... *)
Theorem C06b_delta_reaches_only_downstream : forall g G c i j e, Provenance g G c -> i <> 0 ->
  nth_error G i = Some (Some (j, e)) ->
  (forall n r, nth_error (sequence (c_ws c)) n = Some r -> In i (r_in r) -> reach g (e_dst e) (r_id r)) /\
  (forall s, In s (staged (c_ws c)) -> In i (s_in s) -> reach g (e_dst e) (s_id s)).
Proof. exact delta_reaches_only_downstream. Qed.
Print Assumptions C06b_delta_reaches_only_downstream.

(* ... so a task that is not downstream of that transition never has it in its list: what was
   published only there is not visible to it through that publish *)
Theorem C06b_delta_invisible_off_path : forall g G c i j e y, Provenance g G c -> i <> 0 ->
  nth_error G i = Some (Some (j, e)) -> ~ reach g (e_dst e) y ->
  (forall n r, nth_error (sequence (c_ws c)) n = Some r -> r_id r = y -> ~ In i (r_in r)) /\
  (forall s, In s (staged (c_ws c)) -> s_id s = y -> ~ In i (s_in s)).
Proof. exact delta_invisible_off_path. Qed.
Print Assumptions C06b_delta_invisible_off_path.

(* [F] and every index other than 0 in any list was created by some transition of the graph *)
Theorem C06b_every_delta_has_a_creator : forall g G c i, Provenance g G c -> i <> 0 ->
  ((exists n r, nth_error (sequence (c_ws c)) n = Some r /\ In i (r_in r)) \/
   (exists s, In s (staged (c_ws c)) /\ In i (s_in s))) ->
  exists j e, nth_error G i = Some (Some (j, e)) /\ In e (g_edges g).
Proof. exact every_delta_has_a_creator. Qed.
Print Assumptions C06b_every_delta_has_a_creator.

(* [F] the exact recurrence (pt_cont = the part of process_transition acting on a decision,
   C01b_transition_two_steps): out = list of the completed record ++ [index of the snapshot just
   published, if any]; no entry for the target yet => the new entry's list is out; an entry already
   there (a later arrival) => its list is extended by out minus its first 0.  Arrival order, whole
   lists, no deduplication: known finding D11 is a consequence (example below). *)
Theorem C06b_in_list_recurrence : forall ev t route idx ts ctx e c c' res,
  pt_cont ev t route idx ts ctx e (Some true) c = (c', Val res) ->
  (exists cf new_ctx x errs, finalize_context ev ts e ctx c = (cf, Val (new_ctx, x :: errs))) \/
  (exists cf new_ctx r c3 nr,
     finalize_context ev ts e ctx c = (cf, Val (new_ctx, [])) /\ nth_error (sequence (c_ws cf)) idx = Some r /\
     let out := app (r_in r) (match new_ctx with [] => [] | _ => [length (contexts (c_ws cf))] end) in
     match get_staged_task (c_ws c3) (e_dst e) nr with
     | None => exists s', get_staged_task (c_ws c') (e_dst e) nr = Some s' /\
                          s_in s' = match out with [] => [0] | _ => out end
     | Some s => exists out' s', nat_remove_first 0 out = Some out' /\
                                 get_staged_task (c_ws c') (e_dst e) nr = Some s' /\ s_in s' = app (s_in s) out'
     end).
Proof. exact in_list_recurrence. Qed.
Print Assumptions C06b_in_list_recurrence.

(* [F] the workflow output: the context it is rendered on reads the snapshots listed in r_in of the
   records flagged terminal, in sequence order (first record: whole list; further records: list
   minus first 0), merged left to right; the state is unchanged.  Those are lists of records, so the
   provenance statements above apply to the output as well. *)
Theorem C06b_terminal_context_reads : forall c,
  get_workflow_terminal_context c =
  (c, match get_terminal_tasks (c_ws c) with
      | [] => Val []
      | (_, first) :: others =>
          match get_task_context_from (contexts (c_ws c)) (r_in first) [] with
          | Val c0 => term_fold (contexts (c_ws c)) others c0
          | Exc e => Exc e
          end
      end).
Proof. exact terminal_context_reads. Qed.
Print Assumptions C06b_terminal_context_reads.

Theorem C06b_terminal_tasks_are_records : forall w j r, In (j, r) (get_terminal_tasks w) ->
  nth_error (sequence w) j = Some r /\ r_term r = true.
Proof. exact terminal_tasks_are_records. Qed.
Print Assumptions C06b_terminal_tasks_are_records.

(* ---- non-vacuity (definition pv_spec / pv_graph and operation lists in the proofs file;
   replayed on the engine with identical lists and values) ---- *)

(* the fork: snapshot 2 (y, published on t0 -> a) is in a's list and not in its sibling b's *)
Example C06b_pv_fork :
  pv_obs (run_ops pv_ev pv_fork_ops (fresh_state pv_spec pv_graph [] []))
  = ([("s", [0]); ("t0", [0; 1])], [("a", [0; 1; 2]); ("b", [0; 1])],
     [[]; [("x", JInt 1)]; [("y", JStr "y")]]).
Proof. exact pv_fork. Qed.

(* the join receives both branches, in arrival order, without deduplication *)
Example C06b_pv_join :
  pv_obs (run_ops pv_ev pv_ops (fresh_state pv_spec pv_graph [] []))
  = ([("s", [0]); ("t0", [0; 1]); ("a", [0; 1; 2]); ("b", [0; 1])], [("c", [0; 1; 2; 3; 1])],
     [[]; [("x", JInt 1)]; [("y", JStr "y")]; [("x", JInt 2)]]).
Proof. exact pv_join. Qed.

(* known finding D11 falls out: the join task is offered x = 1, the older value branch b merely
   inherited, although branch a published x = 2 later (membership is right, the order is arrival order) *)
Example C06b_pv_join_D11 :
  match get_next_tasks pv_ev (run_ops pv_ev pv_ops (fresh_state pv_spec pv_graph [] [])) with
  | (_, Val l) => map (fun o => (o_id o, dget "x" (o_ctx o), dget "y" (o_ctx o))) l
  | _ => []
  end = [("c", Some (JInt 1), Some (JStr "y"))].
Proof. exact pv_join_D11. Qed.

Example C06b_pv_nothing_downstream_of_c : forall y, reach pv_graph "c" y -> y = "c".
Proof. exact pv_nothing_downstream_of_c. Qed.
