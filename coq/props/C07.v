(* C07 -- A join runs once, and only when its barrier is satisfied.  Property theorems only. *)
From Coq Require Import String List Bool ZArith.
From Orq Require Import GenStatuses GenTables Base State Machines Conductor Api C07Proofs OffersProofs.
Import ListNotations.
Open Scope string_scope.

(* [F] what "satisfied" means: the number of DISTINCT inbound tasks whose execution record on the same
   route has a satisfied transition into the join reaches the requirement ... *)
Theorem C07_barrier_satisfied_iff : forall g w t route,
  get_inbound_criteria_status g w t route = InbSatisfied <->
  (inbound_requirement g t (length (inbound_evaluation g w t route)) <= Z.of_nat (satisfied_sources g w t route))%Z.
Proof. exact barrier_satisfied_iff. Qed.
Print Assumptions C07_barrier_satisfied_iff.

(* ... which is the number of distinct inbound tasks for join: all, and the given count for join: n *)
Theorem C07_requirement_all : forall g t n, g_barrier g t = JStr "*" -> inbound_requirement g t n = Z.of_nat n.
Proof. exact requirement_all. Qed.
Print Assumptions C07_requirement_all.
Theorem C07_requirement_count : forall g t n k, g_barrier g t = JInt k -> (0 < k)%Z -> inbound_requirement g t n = k.
Proof. exact requirement_count. Qed.
Print Assumptions C07_requirement_count.

(* [F] each inbound task counts once, however many (parallel) transitions it has into the join, and it
   counts only through its own record on that route with that very transition recorded as satisfied *)
Theorem C07_sources_distinct : forall g w t route, NoDup (map fst (inbound_evaluation g w t route)).
Proof. exact inbound_sources_distinct. Qed.
Print Assumptions C07_sources_distinct.
Theorem C07_source_satisfied_by_record : forall g w t route src,
  In (src, Some true) (inbound_evaluation g w t route) ->
  exists r e, ws_task_entry w src route = Some r /\ In e (g_prev_transitions g t) /\ e_src e = src /\
              aget trid_eqb (t, e_key e) (r_next r) = Some true.
Proof. exact inbound_source_satisfied. Qed.
Print Assumptions C07_source_satisfied_by_record.

(* [F] join: all needs every inbound task *)
Theorem C07_all_needs_every_source : forall g w t route, g_barrier g t = JStr "*" ->
  get_inbound_criteria_status g w t route = InbSatisfied ->
  forall src v, In (src, v) (inbound_evaluation g w t route) -> v = Some true.
Proof. exact barrier_all_needs_every_source. Qed.
Print Assumptions C07_all_needs_every_source.

(* [F] a join is offered only when its staged entry is flagged ready *)
Theorem C07_only_ready_entries_offered : forall ev c c' l, c_init c = true -> get_next_tasks ev c = (c', Val l) ->
  forall o, In o l -> exists s, In s (staged (c_ws c)) /\ s_ready s = true /\ s_completed s = false /\
                                o_id o = s_id s /\ o_route o = s_route s.
Proof. exact offers_are_staged. Qed.
Print Assumptions C07_only_ready_entries_offered.

(* [F] if a task event would complete the workflow (not by cancelation) while a staged join is not ready
   and can no longer be satisfied, the workflow is failed and those joins are handed over to be logged as
   unreachable-join errors *)
Theorem C07_unreachable_join_fails : forall t route st c c' unr n,
  tbl_step wf_table (wstatus (c_ws c)) (wf_task_event_name (c_graph c) (c_ws c) t route st) = Some n ->
  In n COMPLETED_STATUSES -> n <> S_CANCELED ->
  get_unreachable_barriers (c_graph c) (ws_set_status (c_ws c) n) <> [] ->
  wf_task_event_M t route st c = (c', Val unr) ->
  wstatus (c_ws c') = S_FAILED /\ unr = get_unreachable_barriers (c_graph c) (ws_set_status (c_ws c) n).
Proof. exact completion_with_unreachable_join_fails. Qed.
Print Assumptions C07_unreachable_join_fails.

Theorem C07_unreachable_means : forall g w s,
  In s (get_unreachable_barriers g w) <->
  In s (staged w) /\ g_is_barrier_node g (s_id s) = true /\ s_ready s = false /\
  get_inbound_criteria_status g w (s_id s) (s_route s) = InbNotSatisfied.
Proof. exact unreachable_barriers_spec. Qed.
Print Assumptions C07_unreachable_means.

(* NOT PROVED: that the ready flag always equals the barrier status computed when the last arrival was
   staged, and "once per satisfaction" (REFUTED for join: n below the inbound count by known finding D1). *)
