(* C07b -- C07, clause "the ready flag of a staged join entry equals the barrier status computed at
   the last arrival".  Property theorems only; proofs are in proofs/JoinReadyProofs.v.
   (pt_cont is the part of process_transition that acts on a decision: C01b_transition_two_steps.) *)
From Coq Require Import String List Bool.
From Orq Require Import GenStatuses GenEvents Base State Machines Conductor Api RetryProofs JustifiedProofs JoinReadyProofs.
Import ListNotations.
Open Scope string_scope.

(* [F] every evaluator, every state: when a satisfied transition into a task (join or not) returns,
   either its publish failed (nothing staged), or the target's staged entry exists in a state c2 --
   reached after this arrival was merged into the entry (new context indices, the reference to the
   completed record) -- and the call ended by setting that entry's ready flag to
       get_inbound_criteria_status (graph c2) (state c2) target route = satisfied
   computed on c2 itself, i.e. on all arrivals recorded so far, this one included *)
Theorem C07b_ready_flag_is_barrier_status : forall ev t route idx ts ctx e c c' res,
  pt_cont ev t route idx ts ctx e (Some true) c = (c', Val res) ->
  (exists cf new_ctx x errs, finalize_context ev ts e ctx c = (cf, Val (new_ctx, x :: errs))) \/
  (exists c2 nr, get_staged_task (c_ws c2) (e_dst e) nr <> None /\
     c' = set_ws c2 (ws_set_staged (c_ws c2)
                       (staged_update (fun s => s_set_ready s (ready_of c2 (e_dst e) route))
                                      (e_dst e) nr (staged (c_ws c2))))).
Proof. exact ready_flag_is_barrier_status. Qed.
Print Assumptions C07b_ready_flag_is_barrier_status.

Theorem C07b_ready_of_unfold : forall c nt route,
  ready_of c nt route = inbound_eqb (get_inbound_criteria_status (c_graph c) (c_ws c) nt route) InbSatisfied.
Proof. exact ready_of_unfold. Qed.
Print Assumptions C07b_ready_of_unfold.

(* [F] read back: in that final state the entry get_staged_task finds for the target carries exactly
   that barrier status as its ready flag *)
Theorem C07b_ready_flag_read_back : forall c2 nt nr route,
  get_staged_task (c_ws c2) nt nr <> None ->
  exists s', get_staged_task
               (c_ws (set_ws c2 (ws_set_staged (c_ws c2)
                        (staged_update (fun s => s_set_ready s (ready_of c2 nt route)) nt nr (staged (c_ws c2))))))
               nt nr = Some s' /\
             s_ready s' = ready_of c2 nt route.
Proof. exact ready_flag_read_back. Qed.
Print Assumptions C07b_ready_flag_read_back.

(* [F] no other operation rewrites the flag.  Rrd c c': the staged list of c' is the staged list of
   c with entries deleted and entries rewritten that keep (task, route, ready), followed by appended
   entries that are all ready.  It holds -- also for calls that raise -- of
     * every API operation other than update_task_state: status requests, polls (item bookkeeping),
       rendering, persist; lazy creation appends the roots, ready; a rerun appends the rerun task, ready;
     * inside update_task_state, of everything before the transitions (unstaging, item statuses, the
       retry staging -- the retried task is appended, ready --, the completed flag), of the evaluation
       and recording of a decision, and of the tail when no engine command runs.
   So the only writes of s_ready on an existing entry, and the only entries created not ready, are
   those of the theorem above. *)
Theorem C07b_ready_kept_outside_events : forall ev op,
  match op with OpEvent _ _ _ => False | _ => True end -> Hoare.preserves Rrd (api_exec ev op).
Proof. exact ready_kept_outside_events. Qed.
Print Assumptions C07b_ready_kept_outside_events.

Theorem C07b_ready_kept_by_prefix : forall ev t route evt, Hoare.preserves Rrd (uts_prefix ev t route evt).
Proof. exact ready_kept_by_prefix. Qed.
Print Assumptions C07b_ready_kept_by_prefix.

Theorem C07b_ready_kept_by_decision : forall ev t route idx ctx e, Hoare.preserves Rrd (pt_step1 ev t route idx ctx e).
Proof. exact ready_kept_by_decision. Qed.
Print Assumptions C07b_ready_kept_by_decision.

Theorem C07b_Rrd_unfold : forall c c',
  Rrd c c' <-> exists l1 new, staged (c_ws c') = app l1 new /\ subkr (staged (c_ws c)) l1 /\
                              Forall (fun s => s_ready s = true) new.
Proof. exact Rrd_unfold. Qed.
Print Assumptions C07b_Rrd_unfold.

(* non-vacuity: the relation rejects flipping the flag of an existing entry *)
Example C07b_Rrd_rejects_flip : forall s, s_ready s = false -> ~ subkr [s] [s_set_ready s true].
Proof. exact Rrd_rejects_flip. Qed.
