(* C07c -- the "ready" flag of a staged entry and the route it is computed on.
   process_transition (conducting.py, update_task_state, the task-transition loop) stages the next task under the
   NEXT route (_evaluate_route) but computes its "ready" flag from get_inbound_criteria_status(next_task, route) with the
   route of the SOURCE task ("Must use the original route to identify the inbound task transitions").  Question: can
   the flag be wrong because the two routes differ -- an entry that should be ready not offered, a workflow stuck?
   ANSWER: no.  [C07c_ready_flag_on_a_new_route]: whenever the transition loop stages an entry on a route other than the
   source's, the next task is a split task outside every cycle, and the flag it computes is TRUE -- which is what a
   split task needs (it has no join: one followed inbound transition starts it).  When the routes are the same there is
   nothing to compare.  Using the source's route is in fact necessary: the records of the inbound tasks live on the
   source's route, on the next (just created) route there is none, and the same computation on the next route would
   give "not satisfied" (Example [on_the_next_route_nothing_is_satisfied]).
   Hypotheses: the call returns; the pointer of (task, route) is the record index the loop was given, the edge is an
   outgoing edge of the task (both hold at every call of the loop inside update_task_state: [C07c_loop_hypotheses]);
   split tasks have no barrier in the graph ([split_no_barrier], a boolean check: the composer sets a barrier for join
   tasks only and a split task is by definition not a join -- checked on the composed graphs of the examples).
   The retrying-record-at-succeeded gap of C02b_succeeded_partial is therefore NOT caused by the route: a re-staged
   retrying entry can lose its ready flag only through a later transition into the same (task, route) of a JOIN task
   whose other inbound tasks were started again in a cycle (the criteria are then evaluated on their newest records).
   Proofs: proofs/RouteReadyProofs.v. *)
From Coq Require Import String List Bool ZArith Arith.
From Orq Require Import GenStatuses GenTables Base State Machines Conductor Api Driver ProviderSys ProviderSysItems Composer.
From Orq Require Import RouteReadyProofs.
Import ListNotations.
Open Scope string_scope.

(* [F] one iteration of the transition loop: nothing staged, or the entry of (next task, nr) is staged afterwards; if nr is
   not the source's route the next task is a split task outside every cycle and the entry is ready; a ready entry is
   what the iteration returns (queued if an engine command, else recorded as ready) *)
Theorem C07c_ready_flag_on_a_new_route : forall ev t route idx ts ctx e c c' res,
  process_transition ev t route idx ts ctx e c = (c', Val res) ->
  split_no_barrier (c_spec c) (c_graph c) = true ->
  ws_task_idx (c_ws c) t route = Some idx -> In e (g_edges (c_graph c)) -> e_src e = t ->
  staged (c_ws c') = staged (c_ws c) \/
  exists nr s, get_staged_task (c_ws c') (e_dst e) nr = Some s /\
    (nr <> route -> spec_is_split_task (c_spec c) (e_dst e) = true /\ g_in_cycle (c_graph c) (e_dst e) = false /\
                    s_ready s = true) /\
    (s_ready s = true -> res = (if is_engine_command (e_dst e) then (Some (e_dst e, nr), None) else (None, Some (e_dst e, nr)))).
Proof. exact split_route_ready. Qed.
Print Assumptions C07c_ready_flag_on_a_new_route.

(* [F] the hypotheses at every iteration: the loop runs over g_next_transitions, whose elements are edges of the graph
   leaving the task; an iteration moves neither the pointer of (task, route), nor the graph, nor the definition *)
Theorem C07c_loop_hypotheses : forall ev t route idx ts ctx e c c' res,
  (forall g e0, In e0 (g_next_transitions g t) -> In e0 (g_edges g) /\ e_src e0 = t) /\
  (process_transition ev t route idx ts ctx e c = (c', Val res) ->
   ws_task_idx (c_ws c') t route = ws_task_idx (c_ws c) t route /\ c_graph c' = c_graph c /\ c_spec c' = c_spec c).
Proof.
  intros. split; [intros g e0; apply next_transition_is_edge|apply transition_keeps_hyps].
Qed.
Print Assumptions C07c_loop_hypotheses.

(* [F] the fact underneath: for a task without barrier, one inbound transition recorded as followed by its source's record
   on the route satisfies the inbound criteria on that route *)
Theorem C07c_one_followed_transition_is_enough : forall g w nt route e r,
  g_barrier g nt = JNull -> In e (g_edges g) -> e_dst e = nt ->
  ws_task_entry w (e_src e) route = Some r -> aget trid_eqb (nt, e_key e) (r_next r) = Some true ->
  get_inbound_criteria_status g w nt route = InbSatisfied.
Proof. exact split_inbound_satisfied. Qed.
Print Assumptions C07c_one_followed_transition_is_enough.

(* ------------------------------------------------------------------ non-vacuity *)
Module C07cExamples.

Definition ev_lit (s : string) (ctx : dict) : evalres := EvOk (JStr s).
Definition mk_task (next : list transition_spec) : task_spec :=
  {| ts_action := JStr "core.noop"; ts_input := JDict []; ts_with := None; ts_delay := JNull; ts_join := JNull; ts_next := next |}.
Definition tr (d : list string) := {| tr_when := JNull; tr_publish := []; tr_do := d |}.
Definition nd (n : string) := {| n_id := n; n_barrier := JNull; n_splits := None; n_retry := JNull |}.
Definition ed (s d : string) := {| e_src := s; e_dst := d; e_key := 0; e_ref := 0; e_criteria := [] |}.

(* a: { next: [ {do: [b, c]} ] }   b: { next: [ {do: [d]} ] }   c: { next: [ {do: [d]} ] }   d: {}      (d is a split task) *)
Definition spec_split : wf_spec := {| wf_input := []; wf_vars := []; wf_output := [];
  wf_tasks := [("a", mk_task [tr ["b"; "c"]]); ("b", mk_task [tr ["d"]]); ("c", mk_task [tr ["d"]]); ("d", mk_task [])] |}.
Definition graph_split : graph :=
  {| g_nodes := [{| n_id := "a"; n_barrier := JNull; n_splits := None; n_retry := JNull |};
                 {| n_id := "b"; n_barrier := JNull; n_splits := None; n_retry := JNull |};
                 {| n_id := "c"; n_barrier := JNull; n_splits := None; n_retry := JNull |};
                 {| n_id := "d"; n_barrier := JNull; n_splits := Some ["d"]; n_retry := JNull |}];
     g_edges := [ed "a" "b"; ed "a" "c"; ed "b" "d"; ed "c" "d"] |}.

Example graph_split_is_composed : compose spec_split [] 100 = Val graph_split /\ split_no_barrier spec_split graph_split = true.
Proof. split; vm_compute; reflexivity. Qed.

Definition view (s : isys) :=
  (si_inflight s, si_fault s,
   map (fun r => (r_id r, r_route r, r_status r)) (sequence (c_ws (si_c s))),
   map (fun x => (s_id x, s_route x, s_ready x)) (staged (c_ws (si_c s))), routes (c_ws (si_c s))).
Definition run ops := view (isys_run ev_lit ops (isys_init spec_split graph_split [] [])).
Definition Pl t st := IReport t 0 None st JNull.

(* b (route 0) transitions into the split task d: the entry is staged under the new route 1, and it is ready *)
Example split_entry_staged_on_a_new_route_and_ready :
  run [IBoot; IPoll; Pl "a" S_SUCCEEDED; IPoll; Pl "b" S_SUCCEEDED]
  = ([("c", 0, None)], false,
     [("a", 0, Some S_SUCCEEDED); ("b", 0, Some S_SUCCEEDED); ("c", 0, Some S_RUNNING)],
     [("d", 1, true)], [[]; [("b", 0)]]).
Proof. vm_compute; reflexivity. Qed.

(* ... and both executions of d (routes 1 and 2) are offered and start *)
Example both_routes_offered :
  run [IBoot; IPoll; Pl "a" S_SUCCEEDED; IPoll; Pl "b" S_SUCCEEDED; Pl "c" S_SUCCEEDED; IPoll]
  = ([("d", 1, None); ("d", 2, None)], false,
     [("a", 0, Some S_SUCCEEDED); ("b", 0, Some S_SUCCEEDED); ("c", 0, Some S_SUCCEEDED);
      ("d", 1, Some S_RUNNING); ("d", 2, Some S_RUNNING)], [], [[]; [("b", 0)]; [("c", 0)]]).
Proof. vm_compute; reflexivity. Qed.

(* the same criteria evaluated on the NEXT route find no record of an inbound task: with the next route the entry would
   never be ready *)
Example on_the_next_route_nothing_is_satisfied :
  let s := isys_run ev_lit [IBoot; IPoll; Pl "a" S_SUCCEEDED; IPoll; Pl "b" S_SUCCEEDED] (isys_init spec_split graph_split [] []) in
  get_inbound_criteria_status graph_split (c_ws (si_c s)) "d" 0 = InbSatisfied /\
  get_inbound_criteria_status graph_split (c_ws (si_c s)) "d" 1 <> InbSatisfied.
Proof. split; vm_compute; [reflexivity|discriminate]. Qed.

End C07cExamples.
