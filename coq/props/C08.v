(* C08 -- The outcome does not depend on the order completions are reported.
   What is PROVED here is only what holds for every order at once; confluence itself (two reports of
   distinct in-flight actions commute up to renumbering of sequence/contexts/routes) needs an
   order-free semantics this development does not have and is TESTED by the monitor c08. *)
From Coq Require Import String List Bool.
From Orq Require Import GenStatuses Base State Machines Conductor Api StatusReach C04Proofs C18Proofs.
Import ListNotations.

(* [P] whatever the order of the reports, the workflow status only moves along entries of the
   generated workflow table (or to failed through the unreachable-join check) *)
Theorem C08_status_moves_along_table : forall ev ops c,
  forallb (fun op => negb (is_rerun op)) ops = true ->
  wf_reach (wstatus (c_ws c)) (wstatus (c_ws (run_ops ev ops c))).
Proof. exact run_ops_reach. Qed.
Print Assumptions C08_status_moves_along_table.

(* [P] a report never rewrites what an earlier report recorded: snapshots published earlier and the
   identity, inbound contexts and predecessors of every existing record are the same after any
   further reports in any order *)
Theorem C08_report_keeps_history : forall ev ops c,
  forallb (fun op => negb (is_persist op)) ops = true -> R18 c (run_ops ev ops c).
Proof. exact history_append_only. Qed.
Print Assumptions C08_report_keeps_history.
