(* C09 -- Pause and resume are transparent.  Property theorems only (proofs/C09C10Proofs.v). *)
From Coq Require Import String List Bool.
From Coq Require Import String.
From Orq Require Import GenStatuses GenTables Base State Machines Conductor Api F_tables C09C10Proofs.
Open Scope string_scope.
Import ListNotations.

(* [F] while pausing or paused, asking for next tasks offers nothing -- neither tasks nor with-items
   actions -- and leaves the conductor state untouched *)
Theorem C09_no_offer_while_paused : forall ev c, c_init c = true ->
  In (wstatus (c_ws c)) [S_PAUSING; S_PAUSED] -> get_next_tasks ev c = (c, Val []).
Proof. intros ev c Hi Hs. apply no_offers_when_held; [exact Hi|]. simpl in *; tauto. Qed.
Print Assumptions C09_no_offer_while_paused.

(* [F] a pause / resume (any status) request changes nothing but the workflow status and task
   statuses: the staged work ("precisely the work that was held back"), the published contexts,
   routes, the pointer map, the output and every other field of every execution record are
   exactly as before -- also when the request is rejected *)
Theorem C09_request_frame : forall ev st c c' r, c_init c = true ->
  request_workflow_status ev st c = (c', r) -> Rctl c c'.
Proof. exact control_request_frame. Qed.
Print Assumptions C09_request_frame.

(* [F] while the workflow is pausing, the workflow-machine step of ANY task event (whatever task,
   whatever reported status, remediated or not, other tasks active or not) leaves it pausing, paused,
   failed or cancel-class: a reported completion never takes it back to an offering status.  Rests on
   the fact F_wf_pausing_task_closed swept over the whole pausing row of the generated table. *)
Theorem C09_task_event_while_pausing : forall t route st c c' r,
  wstatus (c_ws c) = S_PAUSING -> wf_task_event_M t route st c = (c', r) ->
  In (wstatus (c_ws c')) [S_PAUSING; S_PAUSED; S_FAILED; S_CANCELING; S_CANCELED].
Proof. exact task_event_while_pausing. Qed.
Print Assumptions C09_task_event_while_pausing.

(* [F] the pause and resume requests themselves, at table level: accepted from running / resuming /
   pausing (pausing while something is active, paused at once otherwise); resume leads to resuming /
   running, and a paused workflow with nothing left completes *)
Theorem C09_pause_request_rows : forall s, In s [S_RUNNING; S_RESUMING; S_PAUSING] ->
  tbl_step GenTables.wf_table s "workflow_pausing_workflow_active" = Some S_PAUSING /\
  tbl_step GenTables.wf_table s "workflow_pausing_workflow_dormant" = Some S_PAUSED /\
  tbl_step GenTables.wf_table s "workflow_paused_workflow_active" = Some S_PAUSING /\
  tbl_step GenTables.wf_table s "workflow_paused_workflow_dormant" = Some S_PAUSED.
Proof. exact F_tables.F_wf_pause_request. Qed.
Print Assumptions C09_pause_request_rows.

Theorem C09_resume_request_rows :
  tbl_step GenTables.wf_table S_PAUSED "workflow_resuming" = Some S_RESUMING /\
  tbl_step GenTables.wf_table S_PAUSED "workflow_running" = Some S_RUNNING /\
  tbl_step GenTables.wf_table S_PAUSED "workflow_resuming_workflow_completed" = Some S_SUCCEEDED /\
  tbl_step GenTables.wf_table S_PAUSED "workflow_running_workflow_completed" = Some S_SUCCEEDED /\
  tbl_step GenTables.wf_table S_PAUSING "workflow_resuming" = Some S_RESUMING /\
  tbl_step GenTables.wf_table S_PAUSING "workflow_running" = Some S_RUNNING.
Proof. exact F_tables.F_wf_resume_request. Qed.
Print Assumptions C09_resume_request_rows.

(* Outcome transparency (final status / executed tasks / errors / output equal to those of the
   unpaused twin run) is a relation between two executions over an order-free semantics that this
   development does not have; it is TESTED by the twin-run monitor (harness/monitors.py, c09) on every
   run and is not proved. *)
