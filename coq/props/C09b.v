(* C09b -- C09, "requesting pause at any moment and resuming after the workflow has come to rest never
   changes the outcome; resume continues with precisely the work that was held back": the step-level
   facts that are PROVED.  Property theorems only; proofs are in proofs/PauseProofs.v.

   NOT proved: that a whole update_task_state call commutes with the pause request (a report
   processed while pausing stages, publishes, decides and records exactly as it would unpaused).  It
   needs a two-run simulation of the call; its ingredients are below (what the request touches, the two
   machines on running vs pausing, the retry gate, what resume polls).  It is FALSE for an evaluator
   that reads the workflow status out of __state (first witness; on the engine too) -- so, like C19b,
   it can only hold for evaluators that do not look at __state.  The outcome-level statement stays
   tested by the twin simulation. *)
From Coq Require Import String List Bool ZArith.
From Orq Require Import GenStatuses GenEvents GenTables Base State Machines Conductor Api F_tables C09C10Proofs InertProofs PauseProofs.
Import ListNotations.
Open Scope string_scope.

(* [F] (1) a pause-class request -- accepted or rejected, every state -- changes NOTHING but the
   workflow status and record statuses: after forgetting those (strip) the conductor state is EQUAL to
   the state before: definition, graph, contexts, routes, every other field of every record, staged
   entries with their item tables, pointer map, reruns, error log, log, output *)
Theorem C09b_pause_request_changes_statuses_only : forall st c c' r, pause_class st ->
  request_status_core st c = (c', r) -> strip c' = strip c.
Proof. exact pause_request_changes_statuses_only. Qed.
Print Assumptions C09b_pause_request_changes_statuses_only.

Theorem C09b_pause_api_changes_statuses_only : forall ev st c c' r, pause_class st -> c_init c = true ->
  request_workflow_status ev st c = (c', r) -> strip c' = strip c.
Proof. exact pause_api_changes_statuses_only. Qed.
Print Assumptions C09b_pause_api_changes_statuses_only.

Theorem C09b_strip_unfold : forall c,
  strip c = set_ws c {| contexts := contexts (c_ws c); routes := routes (c_ws c);
                        sequence := map (fun r => r_set_status r None) (sequence (c_ws c));
                        staged := staged (c_ws c); wstatus := S_UNSET; tasks := tasks (c_ws c);
                        reruns := reruns (c_ws c) |}.
Proof. exact strip_unfold. Qed.
Print Assumptions C09b_strip_unfold.

(* [F] any status request (resume included): the same, except that the error log may gain the
   unreachable-join entries written when the request completes the workflow *)
Theorem C09b_status_request_changes_statuses_and_log_only : forall st c c' r,
  request_status_core st c = (c', r) -> strip_log c' = strip_log c.
Proof. exact status_request_changes_statuses_and_log_only. Qed.
Print Assumptions C09b_status_request_changes_statuses_and_log_only.

(* [F] (2) when no active task carries an item table, the pause request changes the workflow status
   and nothing else: the records in flight keep their statuses *)
Theorem C09b_pause_of_plain_tasks_changes_workflow_status_only : forall st c c' r, pause_class st ->
  no_item_tables c -> request_status_core st c = (c', r) ->
  c' = set_ws c (ws_set_status (c_ws c) (wstatus (c_ws c'))).
Proof. exact pause_of_plain_tasks_changes_workflow_status_only. Qed.
Print Assumptions C09b_pause_of_plain_tasks_changes_workflow_status_only.

(* [F] (3) the task-machine step of a provider report commutes with the pause: whether the record is
   still running or was pushed to pausing (a with-items task), the report completes the task in exactly
   the same cases and with the same status; the workflow status is not read by the task machine *)
Theorem C09b_task_machine_commutes_with_pause : forall w w' r r' evt t,
  provider_event evt = true -> staged w' = staged w ->
  r_id r' = r_id r -> r_route r' = r_route r -> rstatus r = S_RUNNING -> rstatus r' = S_PAUSING ->
  status_in t COMPLETED_STATUSES = true ->
  (task_process_event w r evt = Val (Some t) <-> task_process_event w' r' evt = Val (Some t)).
Proof. exact task_machine_commutes_with_pause. Qed.
Print Assumptions C09b_task_machine_commutes_with_pause.

(* [F] ... and a report never takes a pausing task back to running (what differs is held back) *)
Theorem C09b_task_report_never_resumes : forall e t, starts_with "action_" e = true ->
  tbl_step task_table S_PAUSING e = Some t -> t <> S_RUNNING.
Proof. exact F_task_report_never_resumes. Qed.
Print Assumptions C09b_task_report_never_resumes.

(* [F] (4) the workflow-machine step of a task event, pausing vs running, over the whole table: it fails
   the pausing workflow exactly when it fails the running one, cancels exactly when it cancels, turns a
   would-be success into paused, and otherwise stays in the pause / cancel classes *)
Theorem C09b_wf_pausing_mirrors_running : forall e x, starts_with "task_" e = true ->
  tbl_step wf_table S_RUNNING e = Some x ->
  match tbl_step wf_table S_PAUSING e with
  | Some y => (x = S_FAILED <-> y = S_FAILED) /\ (x = S_CANCELED <-> y = S_CANCELED) /\
              (x = S_SUCCEEDED -> y = S_PAUSED) /\ In y [S_PAUSING; S_PAUSED; S_FAILED; S_CANCELING; S_CANCELED]
  | None => x = S_RUNNING
  end.
Proof. exact F_wf_pausing_mirrors_running. Qed.
Print Assumptions C09b_wf_pausing_mirrors_running.

(* [F] the retry decision of a completion is gated on an ACTIVE workflow status: pausing is one (so a
   report processed while pausing decides its retry as it would running), paused is not (no report
   arrives then under the provider protocol: paused is reached when the last action reports) *)
Theorem C09b_pausing_is_active :
  status_in S_PAUSING ACTIVE_STATUSES = true /\ status_in S_RUNNING ACTIVE_STATUSES = true /\
  status_in S_PAUSED ACTIVE_STATUSES = false.
Proof. exact pausing_is_active. Qed.
Print Assumptions C09b_pausing_is_active.

(* [F] (5) the staged entries are not touched by any status request, so the poll after a resume works
   from exactly the entries the paused state held (with C01_offers_are_staged / C09_no_offer_while_paused) *)
Theorem C09b_resume_polls_the_held_entries : forall st c c' r, request_status_core st c = (c', r) ->
  staged (c_ws c') = staged (c_ws c) /\ staged_filtered (c_ws c') = staged_filtered (c_ws c).
Proof. exact resume_polls_the_held_entries. Qed.
Print Assumptions C09b_resume_polls_the_held_entries.

(* [R] transparency is FALSE for a condition that reads the workflow status from __state
   (t1 --when <% $__state.status = "running" %>--> t2; replayed on the engine: the paused-and-resumed
   run ends succeeded without ever running t2, the unpaused run stages t2) *)
Theorem C09b_pause_not_transparent_for_status_reading_condition :
  p_obs (run_ops p_ev p_plain (p_init "isrunning")) = (S_RUNNING, ["t2"], [Some S_SUCCEEDED]) /\
  p_obs (run_ops p_ev p_paused (p_init "isrunning")) = (S_SUCCEEDED, [], [Some S_SUCCEEDED]).
Proof. exact pause_not_transparent_for_status_reading_condition. Qed.
Print Assumptions C09b_pause_not_transparent_for_status_reading_condition.

(* non-vacuity: the same workflow with a condition that does not read __state *)
Example C09b_pause_transparent_on_blind_example :
  strip (run_ops p_ev p_paused (p_init "ok")) = strip (run_ops p_ev p_plain (p_init "ok")) /\
  p_obs (run_ops p_ev p_paused (p_init "ok")) = (S_RESUMING, ["t2"], [Some S_SUCCEEDED]) /\
  p_obs (run_ops p_ev p_plain (p_init "ok")) = (S_RUNNING, ["t2"], [Some S_SUCCEEDED]).
Proof. exact pause_transparent_on_blind_example. Qed.

Example C09b_pause_holds_back_on_blind_example :
  let c := run_ops p_ev (p_start ++ [OpRequest S_PAUSING; p_report]) (p_init "ok") in
  p_obs c = (S_PAUSED, ["t2"], [Some S_SUCCEEDED]) /\ get_next_tasks p_ev c = (c, Val []).
Proof. exact pause_holds_back_on_blind_example. Qed.
