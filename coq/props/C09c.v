(* C09c -- C09, "requesting pause at any moment and resuming after the workflow has come to rest never
   changes the outcome": the WHOLE-CALL commutation of a provider report with the pause request, and its
   corollary over histories (pause ... reports ... rest ... resume ... poll).  Property theorems only;
   proofs are in proofs/PauseCommuteProofs.v (a two-run simulation of update_task_state).

   PROVED (the "_partial" fragment), for every evaluator that does not read __state ([state_blind]):
   a report handled under the pausing status leaves the SAME state as the report handled under the
   running status, up to the workflow status -- transitions evaluated alike, publishes, staging, the
   retry decision and its re-entry, error log, result/exception -- for
     * tasks whose active records carry no item table when the pause is requested ([no_item_tables]):
       then the pause request changes the workflow status only (C09b), and
     * tasks none of whose transitions targets an engine command ([no_cmd]: noop / fail / continue / retry
       as a transition target).
   EXCLUDED, each with its reason:
     (E1) an evaluator that reads __state: FALSE (C09b, first witness; engine replay).
     (E2) the report at which the unpaused run COMPLETES the workflow: the paused run comes to rest as
          paused instead; the two states then agree only up to workflow status, terminal flags and error
          log ([Fin], second alternative).  This is not an artefact: after the resume the terminal flag
          of the last task stays unset and the rendered output differs (witness (B) below, replayed on
          the engine: output r = 7 unpaused, r = null paused-and-resumed; finding D5a).
     (E3) with-items tasks: the pause request pushes the record to pausing, so record statuses differ
          while the items report; not proved, no counterexample (engine twin runs agree up to the
          record status).
     (E4) engine-command targets: the nested calls run after the workflow-machine step, when the two
          statuses have already parted; not proved, no counterexample (engine twin runs agree up to the
          terminal flag of (E2)). *)
From Coq Require Import String List Bool ZArith.
From Orq Require Import GenStatuses GenEvents GenTables Base State Machines Conductor Api Composer
  F_tables C09C10Proofs InertProofs QueryProofs PauseProofs PauseCommuteProofs.
Import ListNotations.
Open Scope string_scope.

(* ------------------------------------------------------------------ vocabulary, spelled out *)

(* [so s c]: the state c with the workflow status replaced by s *)
Theorem C09c_so_unfold : forall s c, so s c = set_ws c (ws_set_status (c_ws c) s).
Proof. reflexivity. Qed.

(* the pairs of statuses (overridden, plain) the simulation relates *)
Theorem C09c_PairOK_unfold : forall s x,
  PairOK s x <-> (s = x \/ (x = S_RUNNING /\ (s = S_PAUSING \/ s = S_RESUMING))).
Proof. intros; split; intro H; exact H. Qed.

(* no transition of t targets an engine command *)
Theorem C09c_no_cmd_unfold : forall t g,
  no_cmd t g <-> (forall e, In e (g_next_transitions g t) -> is_engine_command (e_dst e) = false).
Proof. intros; split; intro H; exact H. Qed.

(* [strip_tl]: forget the workflow status, every terminal flag and the error log -- nothing else *)
Theorem C09c_strip_tl_unfold : forall c,
  strip_tl c = set_errors (set_ws c {| contexts := contexts (c_ws c); routes := routes (c_ws c);
                                       sequence := map (fun r => r_set_term r false) (sequence (c_ws c));
                                       staged := staged (c_ws c); wstatus := S_UNSET; tasks := tasks (c_ws c);
                                       reruns := reruns (c_ws c) |}) [].
Proof. reflexivity. Qed.

(* [Fin b a], b the state left by the run under the overridden status, a by the plain run:
   equal after strip_tl, and EITHER b is a with another workflow status and nothing else changed,
   OR b is paused while a has completed the workflow;
   moreover, while a is still running with an active task, the two statuses still form a pair *)
Theorem C09c_Fin_unfold : forall b a,
  Fin b a <-> ((strip_tl b = strip_tl a /\ c_init a = true /\
                (b = so (wstatus (c_ws b)) a \/
                 (wstatus (c_ws b) = S_PAUSED /\ status_in (wstatus (c_ws a)) COMPLETED_STATUSES = true))) /\
               (wstatus (c_ws a) = S_RUNNING -> has_active_tasks (c_ws a) = true ->
                PairOK (wstatus (c_ws b)) (wstatus (c_ws a)))).
Proof. intros; split; intro H; exact H. Qed.

Theorem C09c_Fin_open : forall b a, Fin b a -> status_in (wstatus (c_ws a)) COMPLETED_STATUSES = false ->
  b = so (wstatus (c_ws b)) a /\ strip b = strip a.
Proof. exact Fin_open. Qed.
Print Assumptions C09c_Fin_open.

Theorem C09c_Fin_strip_tl : forall b a, Fin b a -> strip_tl b = strip_tl a.
Proof. exact Fin_strip_tl. Qed.
Print Assumptions C09c_Fin_strip_tl.

(* ------------------------------------------------------------------ one report *)

(* [F] THE CALL.  For a state-blind evaluator, an initialised state c, an overridden status s paired with
   c's status (pausing or resuming against running, or the same), and a task none of whose transitions
   targets an engine command: the report returns / raises alike in both runs and the states left are
   related by Fin.  ANY event, ANY record: late, duplicate and malformed reports included. *)
Theorem C09c_report_commutes_with_status_override_partial : forall ev, state_blind ev ->
  forall t route evt s c,
  c_init c = true -> PairOK s (wstatus (c_ws c)) -> no_cmd t (c_graph c) ->
  snd (update_task_state ev t route evt (so s c)) = snd (update_task_state ev t route evt c) /\
  Fin (fst (update_task_state ev t route evt (so s c))) (fst (update_task_state ev t route evt c)).
Proof. exact report_commutes_with_status_override_partial. Qed.
Print Assumptions C09c_report_commutes_with_status_override_partial.

(* [F] ... against an ACCEPTED PAUSE REQUEST (c_p is what the API call leaves) *)
Theorem C09c_report_commutes_with_pause_partial : forall ev, state_blind ev ->
  forall st t route evt c c_p r,
  c_init c = true -> wstatus (c_ws c) = S_RUNNING -> no_item_tables c -> no_cmd t (c_graph c) ->
  pause_class st -> request_workflow_status ev st c = (c_p, r) -> wstatus (c_ws c_p) = S_PAUSING ->
  snd (update_task_state ev t route evt c_p) = snd (update_task_state ev t route evt c) /\
  Fin (fst (update_task_state ev t route evt c_p)) (fst (update_task_state ev t route evt c)).
Proof. exact report_commutes_with_pause_partial. Qed.
Print Assumptions C09c_report_commutes_with_pause_partial.

(* the two side conditions are decidable *)
Theorem C09c_no_item_tables_b_ok : forall c, no_item_tables_b c = true -> no_item_tables c.
Proof. exact no_item_tables_b_ok. Qed.
Print Assumptions C09c_no_item_tables_b_ok.
Theorem C09c_no_cmd_b_ok : forall t g, no_cmd_b t g = true -> no_cmd t g.
Proof. exact no_cmd_b_ok. Qed.
Print Assumptions C09c_no_cmd_b_ok.

(* ------------------------------------------------------------------ several reports *)

(* [in_step ev evs b a]: after every report but the last, the statuses of the two runs still form a pair
   (the overridden run has not come to rest, the plain one has not left running) *)
Theorem C09c_in_step_unfold : forall ev r r2 rest b a,
  in_step ev (r :: r2 :: rest) b a <->
  (PairOK (wstatus (c_ws (fst (api_exec ev (op_of r) b)))) (wstatus (c_ws (fst (api_exec ev (op_of r) a)))) /\
   in_step ev (r2 :: rest) (fst (api_exec ev (op_of r) b)) (fst (api_exec ev (op_of r) a))).
Proof. intros; split; intro H; exact H. Qed.
Theorem C09c_in_step_last : forall ev r b a, in_step ev [r] b a <-> True.
Proof. intros; split; intro H; exact H. Qed.

(* [busy ev evs a]: the same, as a condition on the PLAIN run alone -- after every report but the last the
   workflow is still running and a task is still active *)
Theorem C09c_busy_unfold : forall ev r r2 rest a,
  busy ev (r :: r2 :: rest) a <->
  (wstatus (c_ws (fst (api_exec ev (op_of r) a))) = S_RUNNING /\
   has_active_tasks (c_ws (fst (api_exec ev (op_of r) a))) = true /\
   busy ev (r2 :: rest) (fst (api_exec ev (op_of r) a))).
Proof. intros; split; intro H; exact H. Qed.
Theorem C09c_busy_last : forall ev r a, busy ev [r] a <-> True.
Proof. intros; split; intro H; exact H. Qed.

Theorem C09c_busy_in_step : forall ev, state_blind ev -> forall evs s a,
  c_init a = true -> PairOK s (wstatus (c_ws a)) ->
  (forall t route e, In (t, route, e) evs -> no_cmd t (c_graph a)) ->
  busy ev evs a -> in_step ev evs (so s a) a.
Proof. exact busy_in_step. Qed.
Print Assumptions C09c_busy_in_step.

(* [F] a run of reports: the same answers one by one, final states related by Fin *)
Theorem C09c_reports_commute_with_status_override_partial : forall ev, state_blind ev ->
  forall evs s a,
  c_init a = true -> PairOK s (wstatus (c_ws a)) ->
  (forall t route e, In (t, route, e) evs -> no_cmd t (c_graph a)) ->
  in_step ev evs (so s a) a ->
  run_trace ev (map op_of evs) (so s a) = run_trace ev (map op_of evs) a /\
  Fin (run_ops ev (map op_of evs) (so s a)) (run_ops ev (map op_of evs) a).
Proof. exact reports_commute_with_status_override_partial. Qed.
Print Assumptions C09c_reports_commute_with_status_override_partial.

(* ------------------------------------------------------------------ resume and the next poll *)

(* [F] the poll of a resuming workflow against the poll of the running one: the same offers (up to the
   __state entry of their contexts), the same state up to the workflow status *)
Theorem C09c_poll_commutes_with_resuming : forall ev, state_blind ev -> forall a,
  c_init a = true -> wstatus (c_ws a) = S_RUNNING ->
  rrel (Forall2 offer_sim) (snd (get_next_tasks ev (so S_RESUMING a))) (snd (get_next_tasks ev a)) /\
  exists s', fst (get_next_tasks ev (so S_RESUMING a)) = so s' (fst (get_next_tasks ev a)) /\
             PairOK s' (wstatus (c_ws (fst (get_next_tasks ev a)))) /\ c_init (fst (get_next_tasks ev a)) = true.
Proof. exact poll_commutes_with_resuming. Qed.
Print Assumptions C09c_poll_commutes_with_resuming.

Theorem C09c_rrel_unfold : forall A (R : A -> A -> Prop) r1 r2,
  rrel R r1 r2 <-> match r1, r2 with Val x, Val y => R x y | Exc e, Exc e' => e = e' | _, _ => False end.
Proof. intros; split; intro H; exact H. Qed.

(* [F] a resume request on a paused workflow with no active record, answered "resuming", changes the
   workflow status and nothing else *)
Theorem C09c_resume_at_rest : forall a c_r r,
  ws_tasks_by_status (c_ws a) ACTIVE_STATUSES = [] ->
  request_status_core S_RESUMING (so S_PAUSED a) = (c_r, r) -> wstatus (c_ws c_r) = S_RESUMING ->
  c_r = so S_RESUMING a /\ r = Val tt.
Proof. exact resume_at_rest. Qed.
Print Assumptions C09c_resume_at_rest.

(* [F] PAUSE ... REPORTS ... REST ... RESUME ... POLL against REPORTS ... POLL, from the state c at which
   the pause is requested *)
Theorem C09c_pause_reports_resume_poll_partial : forall ev, state_blind ev ->
  forall st evs c c_p r c_r rr,
  c_init c = true -> wstatus (c_ws c) = S_RUNNING -> no_item_tables c ->
  (forall t route e, In (t, route, e) evs -> no_cmd t (c_graph c)) ->
  pause_class st -> request_workflow_status ev st c = (c_p, r) -> wstatus (c_ws c_p) = S_PAUSING ->
  busy ev evs c ->
  let a_n := run_ops ev (map op_of evs) c in
  let b_n := run_ops ev (map op_of evs) c_p in
  wstatus (c_ws a_n) = S_RUNNING -> wstatus (c_ws b_n) = S_PAUSED ->
  ws_tasks_by_status (c_ws a_n) ACTIVE_STATUSES = [] ->
  request_workflow_status ev S_RESUMING b_n = (c_r, rr) -> wstatus (c_ws c_r) = S_RESUMING ->
  run_trace ev (map op_of evs) c_p = run_trace ev (map op_of evs) c /\
  b_n = so S_PAUSED a_n /\ c_r = so S_RESUMING a_n /\ rr = Val tt /\
  rrel (Forall2 offer_sim) (snd (get_next_tasks ev c_r)) (snd (get_next_tasks ev a_n)) /\
  exists s', fst (get_next_tasks ev c_r) = so s' (fst (get_next_tasks ev a_n)) /\
             PairOK s' (wstatus (c_ws (fst (get_next_tasks ev a_n)))).
Proof. exact pause_reports_resume_poll_partial. Qed.
Print Assumptions C09c_pause_reports_resume_poll_partial.

(* [F] the same over run_ops histories: pause inserted after any prefix, before a run of reports; resume at
   rest.  The resumed state is the unpaused state with status resuming -- equal under C09b's strip --
   and the next poll offers the same tasks *)
Theorem C09c_pause_resume_history_partial : forall ev, state_blind ev ->
  forall st pre evs c0,
  let c := run_ops ev pre c0 in
  let c_p := run_ops ev (pre ++ [OpRequest st]) c0 in
  let plain := run_ops ev (pre ++ map op_of evs) c0 in
  let rest := run_ops ev (pre ++ [OpRequest st] ++ map op_of evs) c0 in
  let paused := run_ops ev (pre ++ [OpRequest st] ++ map op_of evs ++ [OpRequest S_RESUMING]) c0 in
  c_init c = true -> wstatus (c_ws c) = S_RUNNING -> no_item_tables c ->
  (forall t route e, In (t, route, e) evs -> no_cmd t (c_graph c)) ->
  pause_class st -> wstatus (c_ws c_p) = S_PAUSING -> busy ev evs c ->
  wstatus (c_ws plain) = S_RUNNING -> wstatus (c_ws rest) = S_PAUSED ->
  ws_tasks_by_status (c_ws plain) ACTIVE_STATUSES = [] ->
  wstatus (c_ws paused) = S_RESUMING ->
  run_trace ev (map op_of evs) c_p = run_trace ev (map op_of evs) c /\
  paused = so S_RESUMING plain /\ strip paused = strip plain /\
  rrel (Forall2 offer_sim) (snd (get_next_tasks ev paused)) (snd (get_next_tasks ev plain)) /\
  exists s', fst (get_next_tasks ev paused) = so s' (fst (get_next_tasks ev plain)) /\
             PairOK s' (wstatus (c_ws (fst (get_next_tasks ev plain)))).
Proof. exact pause_resume_history_partial. Qed.
Print Assumptions C09c_pause_resume_history_partial.

(* ------------------------------------------------------------------ witnesses *)

(* the evaluator of the witnesses does not read __state *)
Theorem C09c_q_ev_blind : state_blind q_ev.
Proof. exact q_ev_blind. Qed.
Print Assumptions C09c_q_ev_blind.

(* the graphs are the ones the (modelled) composer builds from the definitions *)
Example C09c_graphs_are_composed :
  compose qa_spec [] 100 = Val qa_graph /\ compose qb_spec [] 100 = Val qb_graph /\ compose qc_spec [] 100 = Val qc_graph.
Proof. split; [|split]; vm_compute; reflexivity. Qed.

(* (A) NON-VACUITY.  t1 --(publish y=7)--> t2; pause while t1 is in flight, t1 succeeds, rest, resume.
   Every hypothesis of C09c_pause_reports_resume_poll_partial holds ... *)
Example C09c_hypotheses_hold :
  c_init qa_c = true /\ wstatus (c_ws qa_c) = S_RUNNING /\ no_item_tables qa_c /\
  (forall t route e, In (t, route, e) qa_reports -> no_cmd t (c_graph qa_c)) /\
  request_workflow_status q_ev S_PAUSING qa_c = (qa_cp, Val tt) /\ wstatus (c_ws qa_cp) = S_PAUSING /\
  busy q_ev qa_reports qa_c /\
  wstatus (c_ws qa_an) = S_RUNNING /\ wstatus (c_ws qa_bn) = S_PAUSED /\
  ws_tasks_by_status (c_ws qa_an) ACTIVE_STATUSES = [] /\
  request_workflow_status q_ev S_RESUMING qa_bn = (qa_cr, Val tt) /\ wstatus (c_ws qa_cr) = S_RESUMING.
Proof. exact qa_hypotheses. Qed.

(* ... and the conclusion, computed: both polls offer the held task t2; the resumed state is the
   unpaused one with another status, and is not the unpaused one *)
Example C09c_conclusion_computed :
  offer_ids (snd (get_next_tasks q_ev qa_cr)) = Some [("t2", 0)] /\
  offer_ids (snd (get_next_tasks q_ev qa_an)) = Some [("t2", 0)] /\
  qa_bn = so S_PAUSED qa_an /\ qa_cr = so S_RESUMING qa_an /\ qa_cr <> qa_an.
Proof. exact qa_conclusion. Qed.

(* (B) EXCLUSION (E2) IS REAL.
       t0 --(publish y=7)--> t1 --> t3 (join all) <--(when "no")-- t2 ;   output r = y
   t2 succeeds first (transition not taken: the join is unreachable), then t1 reports.
     unpaused:  [.. report t1; render]                     failed, t1 terminal, r = 7
     paused:    [.. pause; report t1; resume; render]      failed, t1 NOT terminal, r = null
   observation: (workflow status, terminal flags, rendered output, number of logged errors) *)
Example C09c_completion_under_pause_is_not_transparent :
  qb_obs (run_ops q_ev qb_plain qb_init)
  = (S_FAILED, [("t0", false); ("t2", true); ("t1", true)], Some [("r", JInt 7)], 1) /\
  qb_obs (run_ops q_ev qb_paused qb_init)
  = (S_FAILED, [("t0", false); ("t2", true); ("t1", false)], Some [("r", JNull)], 1).
Proof. exact completion_under_pause_is_not_transparent. Qed.

(* the same at the single report: every hypothesis of C09c_report_commutes_with_pause_partial holds and
   the states are NOT equal up to statuses -- the second alternative of Fin is the one that holds *)
Example C09c_completion_step :
  c_init qb_c = true /\ wstatus (c_ws qb_c) = S_RUNNING /\ no_item_tables qb_c /\ no_cmd "t1" (c_graph qb_c) /\
  request_workflow_status q_ev S_PAUSING qb_c = (qb_cp, Val tt) /\ wstatus (c_ws qb_cp) = S_PAUSING /\
  wstatus (c_ws qb_b') = S_PAUSED /\ wstatus (c_ws qb_a') = S_FAILED /\ strip qb_b' <> strip qb_a' /\
  map r_term (sequence (c_ws qb_b')) = [false; true; false] /\ map r_term (sequence (c_ws qb_a')) = [false; true; true] /\
  length (c_errors qb_b') = 0 /\ length (c_errors qb_a') = 1.
Proof. exact qb_step. Qed.

(* (C) NON-VACUITY with two reports between the pause and the rest:  t0 ;  t1 --> t2, both in flight.
   Every hypothesis of C09c_pause_resume_history_partial holds (busy is not trivial here) ... *)
Example C09c_two_reports_hypotheses :
  c_init qc_c = true /\ wstatus (c_ws qc_c) = S_RUNNING /\ no_item_tables qc_c /\
  (forall t route e, In (t, route, e) qc_reports -> no_cmd t (c_graph qc_c)) /\
  wstatus (c_ws (run_ops q_ev (qc_pre ++ [OpRequest S_PAUSING]) qc_init)) = S_PAUSING /\
  busy q_ev qc_reports qc_c /\
  wstatus (c_ws qc_plain) = S_RUNNING /\
  wstatus (c_ws (run_ops q_ev (qc_pre ++ [OpRequest S_PAUSING] ++ map op_of qc_reports) qc_init)) = S_PAUSED /\
  ws_tasks_by_status (c_ws qc_plain) ACTIVE_STATUSES = [] /\
  wstatus (c_ws qc_paused) = S_RESUMING.
Proof. exact qc_hypotheses. Qed.

(* ... and the conclusion, computed *)
Example C09c_two_reports_conclusion :
  qc_paused = so S_RESUMING qc_plain /\
  offer_ids (snd (get_next_tasks q_ev qc_paused)) = Some [("t2", 0)] /\
  offer_ids (snd (get_next_tasks q_ev qc_plain)) = Some [("t2", 0)].
Proof. exact qc_conclusion. Qed.
