(* C09d -- C09, the whole-call commutation of a report with the pause request (C09c): its two open cases.
   Property theorems only; proofs are in proofs/PauseCommute2Proofs.v.

   (E4) TASKS WHOSE TRANSITIONS TARGET ENGINE COMMANDS -- PROVED.
   With a command queued, the nested update_task_state calls run after the workflow-machine step of the
   reporting task, when the two statuses have parted (running vs paused when the task was the last in
   flight).  For every state-blind evaluator the report returns / raises alike and leaves states related by
   [Tri] (equal up to workflow status, terminal flags and error log; EQUAL when the statuses are equal;
   differing by the status alone while neither run has completed the workflow), when
     * commands are inert in the graph: no outgoing transition, no retry policy ([graph_commands_inert],
       RetryProofs; true of every composed graph),
     * at most one transition of the task targets a command ([cmd1]), and
     * the unpaused run's machine step of the reporting task, with a command queued, does not complete the
       workflow ([mid_open]; implied by "the unpaused call leaves the workflow not completed", and true
       whenever the queued command is staged, which is what process_transition does).
   So `fail`, `noop`, `continue` are covered; `fail` ends failed in both runs IN THE SAME STATE (witness).
   Corollaries: runs of reports, and pause ... reports ... rest ... resume ... poll (same offers).
   NOT covered: two or more command targets on one task.

   (E3) WITH-ITEMS TASKS -- FALSE.  Witness below (model and engine): an item reported CANCELED while another
   item of the task is still active takes a running task to canceling (and the workflow to canceling) but
   leaves a pausing task pausing -- the task table has no row for that event from pausing.  A task failure
   that the canceling workflow absorbs then FAILS the pausing workflow: the unpaused history ends canceled,
   the paused one failed, and the resume request is rejected.  (The states still differ in statuses only.)
   It is the only provider event on which the pausing row does not mirror the running row
   ([C09d_items_rows_diverge_only_on_cancel]); the commutation for with-items tasks WITHOUT such a report is
   neither proved nor refuted. *)
From Coq Require Import String List Bool ZArith.
From Orq Require Import GenStatuses GenEvents GenTables Base State Machines Conductor Api Composer
  F_tables C09C10Proofs RetryProofs InertProofs QueryProofs PauseProofs PauseCommuteProofs PauseCommute2Proofs.
Import ListNotations.
Open Scope string_scope.
Open Scope monad_scope.

(* ------------------------------------------------------------------ vocabulary, spelled out *)

Theorem C09d_inert_unfold : forall g,
  graph_commands_inert g <->
  (forall cmd, is_engine_command cmd = true -> g_next_transitions g cmd = [] /\ g_task_has_retry g cmd = false).
Proof. intros; split; intro H; exact H. Qed.

Theorem C09d_cmd1_unfold : forall t g,
  cmd1 t g <-> length (filter (fun e => is_engine_command (e_dst e)) (g_next_transitions g t)) <= 1.
Proof. intros; split; intro H; exact H. Qed.

(* the plain run up to and including the workflow-machine step of the reporting task, returning the queue *)
Theorem C09d_mid_m_unfold : forall ev t route evt,
  mid_m ev t route evt =
  (p <- uts_prefix ev t route evt ;;
   match po_compl p with
   | Some (_, true) => ret []
   | _ => q <- uts_queue ev t route (po_idx p) (po_ts p) (po_old p) (po_new p) (po_compl p) ;;
          (r <- get_rec (po_idx p) ;;
           st <- (match r_status r with Some s => ret s | None => raise (exn_key "status") end) ;;
           unreachable <- wf_task_event_M t route st ;; log_unreachable unreachable) ;;; ret q
   end).
Proof. reflexivity. Qed.

Theorem C09d_mid_open_unfold : forall ev t route evt c,
  mid_open ev t route evt c <->
  (forall c' q, mid_m ev t route evt c = (c', Val q) -> q <> [] -> status_in (wstatus (c_ws c')) COMPLETED_STATUSES = false).
Proof. intros; split; intro H; exact H. Qed.

(* [Tri b a] *)
Theorem C09d_Tri_unfold : forall b a,
  Tri b a <->
  (c_init a = true /\ strip_tl b = strip_tl a /\
   (wstatus (c_ws b) = wstatus (c_ws a) -> b = a) /\
   (status_in (wstatus (c_ws b)) COMPLETED_STATUSES = false -> status_in (wstatus (c_ws a)) COMPLETED_STATUSES = false ->
    b = so (wstatus (c_ws b)) a /\ PairF (wstatus (c_ws b)) (wstatus (c_ws a)))).
Proof. intros; split; intro H; exact H. Qed.

(* a pair of statuses from both of which the workflow can still be failed (or the same status) *)
Theorem C09d_PairF_unfold : forall s x,
  PairF s x <-> (s = x \/ ((tbl_step wf_table s "workflow_failed" = Some S_FAILED /\ s <> S_FAILED) /\
                          (tbl_step wf_table x "workflow_failed" = Some S_FAILED /\ x <> S_FAILED))).
Proof. intros; split; intro H; exact H. Qed.

(* ------------------------------------------------------------------ the theorems *)

(* [F] THE CALL DELIVERING AN ENGINE COMMAND commutes with ANY status override over a failable pair: the
   record is fresh and without retry policy, so the retry gate is moot; nothing else reads the status
   before the machine step.  (rec: whatever the body would call back -- it does not.) *)
Theorem C09d_command_call : forall ev, state_blind ev ->
  forall (rec : string -> nat -> event -> M unit) t route evt s a,
  c_init a = true -> PairF s (wstatus (c_ws a)) ->
  (is_engine_command t = true /\ g_task_has_retry (c_graph a) t = false) /\ g_next_transitions (c_graph a) t = [] ->
  snd (uts_body ev rec t route evt (so s a)) = snd (uts_body ev rec t route evt a) /\
  Tri (fst (uts_body ev rec t route evt (so s a))) (fst (uts_body ev rec t route evt a)).
Proof. exact cmd_call. Qed.
Print Assumptions C09d_command_call.

(* [F] THE REPORT of a task with a command target *)
Theorem C09d_report_commutes_with_status_override_cmd : forall ev, state_blind ev ->
  forall t route evt s c,
  c_init c = true -> PairOK s (wstatus (c_ws c)) ->
  graph_commands_inert (c_graph c) -> cmd1 t (c_graph c) -> mid_open ev t route evt c ->
  snd (update_task_state ev t route evt (so s c)) = snd (update_task_state ev t route evt c) /\
  Tri (fst (update_task_state ev t route evt (so s c))) (fst (update_task_state ev t route evt c)).
Proof. exact report_commutes_with_status_override_cmd. Qed.
Print Assumptions C09d_report_commutes_with_status_override_cmd.

(* [F] ... against an accepted pause request *)
Theorem C09d_report_commutes_with_pause_cmd : forall ev, state_blind ev ->
  forall st t route evt c c_p r,
  c_init c = true -> wstatus (c_ws c) = S_RUNNING -> no_item_tables c ->
  graph_commands_inert (c_graph c) -> cmd1 t (c_graph c) -> mid_open ev t route evt c ->
  pause_class st -> request_workflow_status ev st c = (c_p, r) -> wstatus (c_ws c_p) = S_PAUSING ->
  snd (update_task_state ev t route evt c_p) = snd (update_task_state ev t route evt c) /\
  Tri (fst (update_task_state ev t route evt c_p)) (fst (update_task_state ev t route evt c)).
Proof. exact report_commutes_with_pause_cmd. Qed.
Print Assumptions C09d_report_commutes_with_pause_cmd.

(* [F] the side condition on the machine step follows when the unpaused call leaves the workflow not
   completed (a completed workflow stays completed) *)
Theorem C09d_mid_open_of_open_end : forall ev t route evt c,
  status_in (wstatus (c_ws (fst (update_task_state ev t route evt c)))) COMPLETED_STATUSES = false ->
  mid_open ev t route evt c.
Proof. exact mid_open_of_open_end. Qed.
Print Assumptions C09d_mid_open_of_open_end.

Theorem C09d_report_commutes_with_status_override_cmd_open : forall ev, state_blind ev ->
  forall t route evt s c,
  c_init c = true -> PairOK s (wstatus (c_ws c)) ->
  graph_commands_inert (c_graph c) -> cmd1 t (c_graph c) ->
  status_in (wstatus (c_ws (fst (update_task_state ev t route evt c)))) COMPLETED_STATUSES = false ->
  snd (update_task_state ev t route evt (so s c)) = snd (update_task_state ev t route evt c) /\
  Tri (fst (update_task_state ev t route evt (so s c))) (fst (update_task_state ev t route evt c)).
Proof. exact report_commutes_with_status_override_cmd_open. Qed.
Print Assumptions C09d_report_commutes_with_status_override_cmd_open.

(* the side conditions are decidable *)
Theorem C09d_inert_b_ok : forall g, inert_b g = true -> graph_commands_inert g.
Proof. exact inert_b_ok. Qed.
Print Assumptions C09d_inert_b_ok.
Theorem C09d_cmd1_b_ok : forall t g, cmd1_b t g = true -> cmd1 t g.
Proof. exact cmd1_b_ok. Qed.
Print Assumptions C09d_cmd1_b_ok.
Theorem C09d_mid_open_b_ok : forall ev t route evt c, mid_open_b ev t route evt c = true -> mid_open ev t route evt c.
Proof. exact mid_open_b_ok. Qed.
Print Assumptions C09d_mid_open_b_ok.


(* ------------------------------------------------------------------ several reports, resume, poll *)

Theorem C09d_steps_ok_unfold : forall ev r r2 rest b a,
  steps_ok ev (r :: r2 :: rest) b a <->
  (cmd1 (fst (fst r)) (c_graph a) /\ mid_open ev (fst (fst r)) (snd (fst r)) (snd r) a /\
   PairOK (wstatus (c_ws (fst (api_exec ev (op_of r) b)))) (wstatus (c_ws (fst (api_exec ev (op_of r) a)))) /\
   steps_ok ev (r2 :: rest) (fst (api_exec ev (op_of r) b)) (fst (api_exec ev (op_of r) a))).
Proof. intros; split; intro H; exact H. Qed.
Theorem C09d_steps_ok_last : forall ev r b a,
  steps_ok ev [r] b a <-> (cmd1 (fst (fst r)) (c_graph a) /\ mid_open ev (fst (fst r)) (snd (fst r)) (snd r) a /\ True).
Proof. intros; split; intro H; exact H. Qed.

Theorem C09d_reports_commute_with_status_override_cmd : forall ev, state_blind ev ->
  forall evs s a,
  c_init a = true -> PairOK s (wstatus (c_ws a)) -> graph_commands_inert (c_graph a) ->
  steps_ok ev evs (so s a) a ->
  run_trace ev (map op_of evs) (so s a) = run_trace ev (map op_of evs) a /\
  Tri (run_ops ev (map op_of evs) (so s a)) (run_ops ev (map op_of evs) a).
Proof. exact reports_commute_with_status_override_cmd. Qed.
Print Assumptions C09d_reports_commute_with_status_override_cmd.

Theorem C09d_pause_reports_resume_poll_cmd : forall ev, state_blind ev ->
  forall st evs c c_p r c_r rr,
  c_init c = true -> wstatus (c_ws c) = S_RUNNING -> no_item_tables c -> graph_commands_inert (c_graph c) ->
  pause_class st -> request_workflow_status ev st c = (c_p, r) -> wstatus (c_ws c_p) = S_PAUSING ->
  steps_ok ev evs c_p c ->
  let a_n := run_ops ev (map op_of evs) c in
  let b_n := run_ops ev (map op_of evs) c_p in
  wstatus (c_ws a_n) = S_RUNNING -> wstatus (c_ws b_n) = S_PAUSED ->
  ws_tasks_by_status (c_ws a_n) ACTIVE_STATUSES = [] ->
  request_workflow_status ev S_RESUMING b_n = (c_r, rr) -> wstatus (c_ws c_r) = S_RESUMING ->
  run_trace ev (map op_of evs) c_p = run_trace ev (map op_of evs) c /\
  b_n = so S_PAUSED a_n /\ c_r = so S_RESUMING a_n /\ rr = Val tt /\
  rrel (Forall2 offer_sim) (snd (get_next_tasks ev c_r)) (snd (get_next_tasks ev a_n)) /\
  exists s', fst (get_next_tasks ev c_r) = so s' (fst (get_next_tasks ev a_n)) /\
             PairOK s' (wstatus (c_ws (fst (get_next_tasks ev a_n)))).
Proof. exact pause_reports_resume_poll_cmd. Qed.
Print Assumptions C09d_pause_reports_resume_poll_cmd.

(* ------------------------------------------------------------------ witnesses:  t0 ;  t1 --> <cmd> *)

Example C09d_graphs_are_composed :
  compose (e_spec "fail") [] 100 = Val (e_graph "fail") /\ compose (e_spec "noop") [] 100 = Val (e_graph "noop") /\
  compose (e_spec "continue") [] 100 = Val (e_graph "continue").
Proof. split; [|split]; vm_compute; reflexivity. Qed.

(* every hypothesis of C09d_report_commutes_with_pause_cmd holds (e_hyps is their conjunction, decided):
   e_pre: t0 and t1 in flight; e_pre2: t0 finished, t1 is the last task in flight *)
Example C09d_hypotheses_hold :
  e_hyps "fail" e_pre = true /\ e_hyps "fail" e_pre2 = true /\ e_hyps "noop" e_pre = true /\ e_hyps "noop" e_pre2 = true /\
  e_hyps "continue" e_pre2 = true.
Proof. exact e_hyps_hold. Qed.

(* fail: both runs end failed, in the same state -- also when t1 was the last task in flight and the nested
   call ran from paused against running *)
Example C09d_fail :
  wstatus (c_ws (e_a' "fail" e_pre)) = S_FAILED /\ e_b' "fail" e_pre = e_a' "fail" e_pre /\
  wstatus (c_ws (e_a' "fail" e_pre2)) = S_FAILED /\ e_b' "fail" e_pre2 = e_a' "fail" e_pre2.
Proof. exact e_fail. Qed.

Example C09d_noop_busy :
  wstatus (c_ws (e_a' "noop" e_pre)) = S_RUNNING /\ e_b' "noop" e_pre = so S_PAUSING (e_a' "noop" e_pre).
Proof. exact e_noop_busy. Qed.

(* noop as the last task in flight: the unpaused run completes the workflow in the nested call, the paused
   one rests; the states agree up to status and the terminal flag of t1 (the known completion case) *)
Example C09d_noop_last :
  wstatus (c_ws (e_a' "noop" e_pre2)) = S_SUCCEEDED /\ wstatus (c_ws (e_b' "noop" e_pre2)) = S_PAUSED /\
  strip_tl (e_b' "noop" e_pre2) = strip_tl (e_a' "noop" e_pre2) /\
  map r_term (sequence (c_ws (e_a' "noop" e_pre2))) = [true; true; true] /\
  map r_term (sequence (c_ws (e_b' "noop" e_pre2))) = [true; false; true].
Proof. exact e_noop_last. Qed.

(* a command and a successor:  t1 --> [noop, t2].  Every hypothesis of C09d_pause_reports_resume_poll_cmd holds;
   the nested noop call runs from paused against running; after the resume both polls offer t2 *)
Example C09d_command_history_hypotheses :
  c_init f_c = true /\ wstatus (c_ws f_c) = S_RUNNING /\ no_item_tables f_c /\ graph_commands_inert (c_graph f_c) /\
  request_workflow_status q_ev S_PAUSING f_c = (f_cp, Val tt) /\ wstatus (c_ws f_cp) = S_PAUSING /\
  steps_ok q_ev f_reports f_cp f_c /\
  wstatus (c_ws f_an) = S_RUNNING /\ wstatus (c_ws f_bn) = S_PAUSED /\
  ws_tasks_by_status (c_ws f_an) ACTIVE_STATUSES = [] /\
  request_workflow_status q_ev S_RESUMING f_bn = (f_cr, Val tt) /\ wstatus (c_ws f_cr) = S_RESUMING.
Proof. exact f_hypotheses. Qed.
Example C09d_command_history_conclusion :
  map (fun r => (r_id r, r_status r)) (sequence (c_ws f_an)) = [("t1", Some S_SUCCEEDED); ("noop", Some S_SUCCEEDED)] /\
  f_bn = so S_PAUSED f_an /\ f_cr = so S_RESUMING f_an /\
  offer_ids (snd (get_next_tasks q_ev f_cr)) = Some [("t2", 0)] /\
  offer_ids (snd (get_next_tasks q_ev f_an)) = Some [("t2", 0)].
Proof. exact f_conclusion. Qed.
Example C09d_f_graph_is_composed : compose f_spec [] 100 = Val f_graph.
Proof. vm_compute; reflexivity. Qed.

(* ------------------------------------------------------------------ (E3) with-items tasks: FALSE
   t0 ;  t1 with items xs = [1, 2];  both items and t0 in flight.
     i_pre     = request running; poll; t0 running; item 0 running; item 1 running
     i_reports = item 0 CANCELED; t0 FAILED; item 1 SUCCEEDED
     i_plain k  = i_pre ++ first k reports          i_paused k = i_pre ++ [request pausing] ++ first k reports
   observation: (workflow status, record statuses, item tables, number of logged errors) *)
Theorem C09d_i_ev_blind : state_blind i_ev.
Proof. exact i_ev_blind. Qed.
Example C09d_i_graph_is_composed : compose i_spec [] 100 = Val i_graph.
Proof. vm_compute; reflexivity. Qed.

Example C09d_items_accepted :
  i_obs (i_paused 0) = (S_PAUSING, [("t0", Some S_RUNNING); ("t1", Some S_PAUSING)], [("t1", Some [S_RUNNING; S_RUNNING])], 0) /\
  run_trace i_ev ([OpRequest S_PAUSING] ++ i_reports) (i_plain 0) = [Val RUnit; Val RUnit; Val RUnit; Val RUnit] /\
  run_trace i_ev i_reports (i_plain 0) = [Val RUnit; Val RUnit; Val RUnit].
Proof. exact i_accepted. Qed.

Example C09d_items_cancel_under_pause_diverges :
  i_obs (i_plain 1)  = (S_CANCELING, [("t0", Some S_RUNNING); ("t1", Some S_CANCELING)], [("t1", Some [S_CANCELED; S_RUNNING])], 0) /\
  i_obs (i_paused 1) = (S_PAUSING,   [("t0", Some S_RUNNING); ("t1", Some S_PAUSING)],   [("t1", Some [S_CANCELED; S_RUNNING])], 0) /\
  i_obs (i_plain 2)  = (S_CANCELING, [("t0", Some S_FAILED); ("t1", Some S_CANCELING)], [("t1", Some [S_CANCELED; S_RUNNING])], 1) /\
  i_obs (i_paused 2) = (S_FAILED,    [("t0", Some S_FAILED); ("t1", Some S_PAUSING)],   [("t1", Some [S_CANCELED; S_RUNNING])], 1) /\
  i_obs (i_plain 3)  = (S_CANCELED, [("t0", Some S_FAILED); ("t1", Some S_CANCELED)], [], 1) /\
  i_obs (i_paused 3) = (S_FAILED,   [("t0", Some S_FAILED); ("t1", Some S_CANCELED)], [], 1) /\
  strip (i_paused 3) = strip (i_plain 3) /\
  (exists e, snd (api_exec i_ev (OpRequest S_RESUMING) (i_paused 3)) = Exc e) /\
  wstatus (c_ws (fst (api_exec i_ev (OpRequest S_RESUMING) (i_paused 3)))) = S_FAILED.
Proof. exact items_cancel_under_pause_diverges. Qed.

(* [F] the rows that cause it *)
Theorem C09d_items_rows_diverge_only_on_cancel :
  (forall s e x, tbl_step task_table s e = Some x -> (s = S_RUNNING \/ s = S_PAUSING) -> starts_with "action_" e = true ->
     e <> "action_canceled_task_active_items_incomplete" ->
     row_pair_ok (stepd task_table S_RUNNING e) (stepd task_table S_PAUSING e) = true) /\
  stepd task_table S_RUNNING "action_canceled_task_active_items_incomplete" = S_CANCELING /\
  stepd task_table S_PAUSING "action_canceled_task_active_items_incomplete" = S_PAUSING.
Proof. exact F_items_rows_diverge_only_on_cancel. Qed.
Print Assumptions C09d_items_rows_diverge_only_on_cancel.
Theorem C09d_row_pair_ok_unfold : forall x y,
  row_pair_ok x y = status_eqb x y || (status_in x [S_RUNNING; S_PENDING] && status_in y [S_PAUSING; S_PAUSED; S_RESUMING]).
Proof. reflexivity. Qed.
