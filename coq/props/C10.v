(* C10 -- Cancellation stops scheduling and ends in canceled.  Property theorems only. *)
From Coq Require Import String List Bool.
From Orq Require Import GenStatuses Base State Machines Conductor Api C04Proofs C09C10Proofs.
Import ListNotations.

(* [F] once canceling or canceled, every later status (any history of API calls without rerun, any
   reported outcomes, any evaluator) is canceling, canceled or failed *)
Theorem C10_cancel_closed : forall ev ops c, forallb (fun op => negb (is_rerun op)) ops = true ->
  In (wstatus (c_ws c)) [S_CANCELING; S_CANCELED] ->
  In (wstatus (c_ws (run_ops ev ops c))) [S_CANCELING; S_CANCELED; S_FAILED].
Proof. exact cancel_is_closed. Qed.
Print Assumptions C10_cancel_closed.

(* [F] a canceled workflow never ends succeeded *)
Theorem C10_never_succeeds : forall ev ops c, forallb (fun op => negb (is_rerun op)) ops = true ->
  In (wstatus (c_ws c)) [S_CANCELING; S_CANCELED] -> wstatus (c_ws (run_ops ev ops c)) <> S_SUCCEEDED.
Proof. exact cancel_never_succeeds. Qed.
Print Assumptions C10_never_succeeds.

(* [F] after a cancel nothing is offered in any later state in which the workflow has not failed *)
Theorem C10_no_offers_after_cancel : forall ev ops c, forallb (fun op => negb (is_rerun op)) ops = true ->
  c_init (run_ops ev ops c) = true ->
  In (wstatus (c_ws c)) [S_CANCELING; S_CANCELED] ->
  wstatus (c_ws (run_ops ev ops c)) <> S_FAILED ->
  get_next_tasks ev (run_ops ev ops c) = (run_ops ev ops c, Val []).
Proof. exact no_offers_after_cancel. Qed.
Print Assumptions C10_no_offers_after_cancel.

(* [F] canceled is final: in particular rendering the output keeps it canceled and no later
   unreachable-join check or task report turns it into failed *)
Theorem C10_canceled_stays_canceled : forall ev ops c, forallb (fun op => negb (is_rerun op)) ops = true ->
  wstatus (c_ws c) = S_CANCELED -> wstatus (c_ws (run_ops ev ops c)) = S_CANCELED.
Proof. exact canceled_is_final. Qed.
Print Assumptions C10_canceled_stays_canceled.
