(* C10b -- Cancellation: a canceled workflow "is not turned into failed merely because the cancellation kept the
   remaining tasks or joins from running, and still renders its output from what was published".
   Property theorems only (proofs/CancelProofs.v); every evaluator, every state. *)
From Coq Require Import String List Bool ZArith.
From Orq Require Import GenStatuses GenEvents GenTables Base State Machines Conductor Api F_tables RecordedProofs CancelProofs.
Import ListNotations.
Open Scope string_scope.

(* ------------------------------------------------------------------ (a) not failed by the engine's bookkeeping *)

(* [F] the table: from canceling, failed is reached by the failure request only; every entry leads to canceling,
   canceled, or (that one) failed; canceled has no entry at all *)
Theorem C10b_canceling_to_failed_only_by_request : forall e,
  tbl_step wf_table S_CANCELING e = Some S_FAILED -> e = "workflow_failed".
Proof. exact F_canceling_to_failed. Qed.
Theorem C10b_cancel_class_step : forall s e t, s = S_CANCELING \/ s = S_CANCELED -> tbl_step wf_table s e = Some t ->
  t = S_CANCELING \/ t = S_CANCELED \/ (t = S_FAILED /\ e = "workflow_failed").
Proof. exact F_cancel_class_step. Qed.
Print Assumptions C10b_canceling_to_failed_only_by_request.
Print Assumptions C10b_cancel_class_step.

(* [F] a task report processed while canceling / canceled -- whatever its outcome, also `failed` without a handler:
   the table sends task_failed to canceling (something active) or canceled (nothing active) -- leaves the workflow
   canceling or canceled, and the unreachable-join check is not run: no join is reported *)
Theorem C10b_task_event_keeps_cancel : forall t route st c c' unr, cancel_class c ->
  wf_task_event_M t route st c = (c', Val unr) -> cancel_class c' /\ unr = [].
Proof. exact task_event_keeps_cancel. Qed.
Print Assumptions C10b_task_event_keeps_cancel.

(* [F] a status request processed while canceling / canceled: failed only if it is the failure request; never a join
   reported (in particular the cancel request that completes the workflow does not run the join check) *)
Theorem C10b_workflow_event_keeps_cancel : forall st c c' unr, cancel_class c ->
  wf_workflow_event_M st c = (c', Val unr) ->
  unr = [] /\ (cancel_class c' \/ (wstatus (c_ws c') = S_FAILED /\ st = S_FAILED)).
Proof. exact workflow_event_keeps_cancel. Qed.
Print Assumptions C10b_workflow_event_keeps_cancel.

(* [F] the exact list, over whole API calls (no rerun): a canceling / canceled workflow is failed after a call only if
   the call is the explicit request for `failed`, or an exception logged by a handler -- which then asked for the
   failure (C11b: a contained evaluation failure, or another exception the same handlers catch) -- is in the log.
   (The witness may be an equal entry logged earlier: the log drops duplicates.) *)
Theorem C10b_failed_only_by : forall ev op c c' r, is_rerun op = false -> cancel_class c ->
  api_exec ev op c = (c', r) -> wstatus (c_ws c') = S_FAILED -> op = OpRequest S_FAILED \/ logged c'.
Proof. exact canceled_failed_only_by. Qed.
Print Assumptions C10b_failed_only_by.

(* [F] ... so with no exception entry in the log, nothing but the explicit request takes it out of canceling/canceled *)
Theorem C10b_stays_canceled_unless_requested : forall ev op c c' r, is_rerun op = false -> cancel_class c ->
  api_exec ev op c = (c', r) -> ~ logged c' -> op <> OpRequest S_FAILED -> cancel_class c'.
Proof. exact canceled_stays_unless_requested. Qed.
Print Assumptions C10b_stays_canceled_unless_requested.

(* ------------------------------------------------------------------ (b) the output *)

(* [F] what render_workflow_output evaluates the output expressions against (besides __state): a pure function of the
   records flagged terminal -- the first one's inbound contexts merged in order, then each further one's (without
   the initial context) merged over it; the empty context when no record is flagged; the state is not touched *)
Theorem C10b_terminal_context : forall c, get_workflow_terminal_context c = (c, terminal_ctx (c_ws c)).
Proof. exact terminal_context_is. Qed.
Print Assumptions C10b_terminal_context.

(* [F] a status request flags no record terminal (only update_task_state does: a completed task without outgoing
   transition, one none of whose transitions is satisfied, and the task whose report completes the workflow) *)
Theorem C10b_status_request_flags_nothing : forall ev st c c' r, c_init c = true ->
  request_workflow_status ev st c = (c', r) -> map r_term (sequence (c_ws c')) = map r_term (sequence (c_ws c)).
Proof. exact status_request_flags_nothing. Qed.
Print Assumptions C10b_status_request_flags_nothing.

(* [F] finding D5a, exact: a workflow completed by a (cancel) request while no record is flagged renders its output
   from the EMPTY context -- whatever was published *)
Theorem C10b_cancel_request_renders_from_nothing : forall ev st c c' r, c_init c = true ->
  get_terminal_tasks (c_ws c) = [] -> request_workflow_status ev st c = (c', r) -> terminal_ctx (c_ws c') = Val [].
Proof. exact cancel_request_renders_from_nothing. Qed.
Print Assumptions C10b_cancel_request_renders_from_nothing.

(* ------------------------------------------------------------------ examples *)

Module C10bExamples.

(* literals evaluate to themselves; "<% ctx().x %>" looks x up *)
Definition ev_x (s : string) (ctx : dict) : evalres :=
  if String.eqb s "<% ctx().x %>" then
    match dget "x" ctx with
    | Some v => EvOk v
    | None => EvErr {| x_cls := "YaqlEvaluationException"; x_msg := "no x"; x_expr := true |}
    end
  else EvOk (JStr s).
Definition plain nxt : task_spec :=
  {| ts_action := JStr "core.noop"; ts_input := JDict []; ts_with := None; ts_delay := JNull; ts_join := JNull; ts_next := nxt |}.
Definition node n := {| n_id := n; n_barrier := JNull; n_splits := None; n_retry := JNull |}.
Definition act t st := OpEvent t 0 (EvAction st JNull).
(* t1 publishes x and goes on to t2; the output is x *)
Definition spec1 : wf_spec :=
  {| wf_input := []; wf_vars := []; wf_output := [("o", JStr "<% ctx().x %>")];
     wf_tasks := [("t1", plain [{| tr_when := JNull; tr_publish := [("x", JStr "v")]; tr_do := ["t2"] |}]); ("t2", plain [])] |}.
Definition graph1 : graph :=
  {| g_nodes := [node "t1"; node "t2"]; g_edges := [{| e_src := "t1"; e_dst := "t2"; e_key := 0; e_ref := 0; e_criteria := [] |}] |}.
Definition c0 : cstate :=
  {| c_spec := spec1; c_graph := graph1; c_inputs := []; c_parent := []; c_init := false; c_ws := empty_ws;
     c_errors := []; c_log := []; c_output := None |}.

(* t1 done (x published, t2 staged), nothing in flight; then cancel: canceled at once, no record flagged terminal *)
Definition before := run_ops ev_x [OpRequest S_RUNNING; OpGetNext; act "t1" S_RUNNING; act "t1" S_SUCCEEDED] c0.
Definition canceled := run_ops ev_x [OpRequest S_CANCELING] before.

(* finding D5a on the model: x was published (context 1 holds it) but the terminal context is empty, so the output
   expression fails; the failure is logged and the workflow STAYS canceled (not failed), with no output *)
Example d5a_cancel_dormant :
  contexts (c_ws canceled) = [[]; [("x", JStr "v")]] /\
  wstatus (c_ws canceled) = S_CANCELED /\ map s_id (staged (c_ws canceled)) = ["t2"] /\
  get_terminal_tasks (c_ws canceled) = [] /\ terminal_ctx (c_ws canceled) = Val [] /\
  let c' := fst (api_exec ev_x OpRender canceled) in
  wstatus (c_ws c') = S_CANCELED /\ c_output c' = None /\ map er_message (c_errors c') = ["YaqlEvaluationException: no x"].
Proof. repeat (split; [vm_compute; reflexivity|]). cbv zeta. repeat (split; [vm_compute; reflexivity|]). vm_compute; reflexivity. Qed.

(* (a) not vacuous: while canceling (t1 still running), t1 reports failed with no handler: canceled, not failed; the
   log holds the note of the failed action and nothing about joins *)
Definition running := run_ops ev_x [OpRequest S_RUNNING; OpGetNext; act "t1" S_RUNNING; OpRequest S_CANCELING] c0.
Example failure_while_canceling_ends_canceled :
  wstatus (c_ws running) = S_CANCELING /\ cancel_class running /\
  let c' := fst (api_exec ev_x (act "t1" S_FAILED) running) in
  wstatus (c_ws c') = S_CANCELED /\ map er_message (c_errors c') = ["Execution failed. See result for details."].
Proof.
  split; [vm_compute; reflexivity|]. split; [left; vm_compute; reflexivity|]. cbv zeta.
  split; vm_compute; reflexivity.
Qed.

End C10bExamples.
