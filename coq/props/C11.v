(* C11 -- Run-time expression errors are contained.  Property theorems only (proofs/C11Proofs.v). *)
From Coq Require Import String List Bool.
From Orq Require Import GenStatuses Base State Machines Conductor Api C11Proofs.
Import ListNotations.

(* [F] for EVERY evaluator ev -- i.e. whatever expression fails, in whatever way, at whatever
   position of the definition (input, vars, action, input, with-items list and concurrency, delay,
   retry count/delay/condition, transition condition, publish, output) and at whatever point of a
   history --, if evaluation failures are expression-evaluation exceptions (x_expr = true, as both
   evaluators guarantee by wrapping every failure), then an exception that escapes ANY conductor API
   call is not one of them: evaluation failures never escape.  The proof is structural over the
   whole model: every call of the evaluator sits under a handler that the walk finds. *)
Theorem C11_contained : forall ev op c c' e,
  api_exec ev op c = (c', Exc e) -> x_expr e = false.
Proof. intros ev op c c' e H. exact (api_contained ev op c c' e H). Qed.
Print Assumptions C11_contained.

(* the same for the functions a provider calls, one by one *)
Theorem C11_update_task_state_contained : forall ev t route evt c c' e,
  update_task_state ev t route evt c = (c', Exc e) -> x_expr e = false.
Proof. intros ev t route evt c c' e H. exact (ct_update_task_state ev t route evt c c' e H). Qed.
Print Assumptions C11_update_task_state_contained.

Theorem C11_get_next_tasks_contained : forall ev c c' e,
  get_next_tasks ev c = (c', Exc e) -> x_expr e = false.
Proof. intros ev c c' e H. exact (ct_get_next_tasks ev c c' e H). Qed.
Print Assumptions C11_get_next_tasks_contained.

Theorem C11_render_output_contained : forall ev c c' e,
  render_workflow_output ev c = (c', Exc e) -> x_expr e = false.
Proof. intros ev c c' e H. exact (ct_render_workflow_output ev c c' e H). Qed.
Print Assumptions C11_render_output_contained.

(* non-vacuity: an evaluator that always fails with an expression exception exists, and a raw call of
   the evaluator outside any handler WOULD let it escape -- so the theorem says something *)
Example C11_not_vacuous :
  let ev := fun (_ : string) (_ : dict) =>
              EvErr {| x_cls := "YaqlEvaluationException"; x_msg := "boom"; x_expr := true |} in
  exists c e, evaluate ev (JStr "<% ctx().nope %>") [] c = (c, Exc e) /\ x_expr e = true.
Proof.
  cbv zeta. eexists {| c_spec := {| wf_input := []; wf_vars := []; wf_output := []; wf_tasks := [] |};
                       c_graph := {| g_nodes := []; g_edges := [] |}; c_inputs := []; c_parent := [];
                       c_init := false; c_ws := empty_ws; c_errors := []; c_log := []; c_output := None |}.
  eexists. split; reflexivity.
Qed.
