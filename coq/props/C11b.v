(* C11b -- Run-time expression errors, second sentence: a contained evaluation failure is RECORDED as an error
   entry naming the task or transition concerned, the workflow becomes FAILED (or stays canceled), and NO FURTHER
   TASK IS OFFERED.  Property theorems only (proofs/RecordedProofs.v).

   No hypothesis on the evaluator is needed (as for C11_contained): the handlers at the engine's guarded sites
   treat whatever the guarded computation raises.  Where a status is concluded the state must be inside the
   workflow lifecycle ([lifecycle c]: its status has a row in the workflow table -- every status the table reaches
   has; kept by every call, C11_lifecycle_kept).  Rerun is excluded (it edits the error log and reopens the
   workflow).  [settled c]: the workflow status is failed or canceled.
   What the failure request does (fail_request): from every lifecycle status it leaves the workflow failed -- from
   canceling, pausing, paused, resuming and succeeded too -- except from canceled, which stays canceled and is the
   only status in which the request is refused (InvalidWorkflowStatusTransition then escapes the call; it is not an
   expression exception). *)
From Coq Require Import String List Bool ZArith.
From Orq Require Import GenStatuses GenEvents GenTables Base State Machines Conductor Api F_tables RecordedProofs.
Import ListNotations.
Open Scope string_scope.
Open Scope monad_scope.

(* ------------------------------------------------------------------ the failure request *)

Theorem C11_fail_request : forall c c' r, lifecycle c -> request_status_core S_FAILED c = (c', r) ->
  c_errors c' = c_errors c /\ staged (c_ws c') = staged (c_ws c) /\
  ((wstatus (c_ws c) = S_CANCELED /\ wstatus (c_ws c') = S_CANCELED) \/
   (wstatus (c_ws c) <> S_CANCELED /\ wstatus (c_ws c') = S_FAILED /\ r = Val tt)).
Proof. exact fail_request. Qed.
Print Assumptions C11_fail_request.

(* ------------------------------------------------------------------ (a) RECORDED, site by site *)

(* [F] every guarded site (try ... except Exception: log; fail the workflow; default): what the guarded computation
   raised is recorded under the site's task / route / transition, the workflow is settled, and the handler answers
   with its default unless the workflow was canceled *)
Theorem C11_guarded_site : forall A (m : M A) t r tr (d : A) c c0 e c' res,
  m c = (c0, Exc e) ->
  try_catch m (fun x => log_error x t r tr ;;; request_status_core S_FAILED ;;; ret d) c = (c', res) ->
  recorded c' (entry_of e t r tr) /\
  (lifecycle c0 -> settled c' /\ (res = Val d \/ (exists x, res = Exc x) /\ wstatus (c_ws c0) = S_CANCELED)).
Proof. exact guarded_site. Qed.
Print Assumptions C11_guarded_site.

(* [F] the collecting sites (input, vars, publish, output): every collected failure is recorded *)
Theorem C11_collected_site : forall es t r tr c c' res, es <> [] ->
  (log_errors es t r tr ;;; request_status_core S_FAILED) c = (c', res) ->
  (forall e, In e es -> recorded c' (entry_of e t r tr)) /\ (lifecycle c -> settled c').
Proof. exact collected_site. Qed.
Print Assumptions C11_collected_site.

(* [F] ... and the collectors put every expression failure on the list they return (other exceptions pass) *)
Theorem C11_render_vars_collects : forall ev name expr specs rolling rendered errs c,
  render_vars ev ((name, expr) :: specs) rolling rendered errs c =
  match evaluate ev expr rolling c with
  | (c1, Val x) => render_vars ev specs (dset name x rolling) (dset name x rendered) errs c1
  | (c1, Exc e) => if x_expr e then render_vars ev specs rolling rendered (app errs [e]) c1 else (c1, Exc e)
  end.
Proof. exact render_vars_step. Qed.
Theorem C11_render_vars_keeps : forall ev specs rolling rendered errs c c' out errs',
  render_vars ev specs rolling rendered errs c = (c', Val (out, errs')) -> exists l, errs' = app errs l.
Proof. exact render_vars_keeps. Qed.
Theorem C11_render_input_collects : forall ev name dflt specs runtime rolling errs c,
  render_input ev ((name, dflt) :: specs) runtime rolling errs c =
  match evaluate ev (match dget name runtime with Some x => x | None => dflt end) rolling c with
  | (c1, Val x) => render_input ev specs runtime (dset name x rolling) errs c1
  | (c1, Exc e) => if x_expr e then render_input ev specs runtime rolling (app errs [e]) c1 else (c1, Exc e)
  end.
Proof. exact render_input_step. Qed.
Theorem C11_render_input_keeps : forall ev specs runtime rolling errs c c' out errs',
  render_input ev specs runtime rolling errs c = (c', Val (out, errs')) -> exists l, errs' = app errs l.
Proof. exact render_input_keeps. Qed.
Print Assumptions C11_render_vars_collects.
Print Assumptions C11_render_vars_keeps.
Print Assumptions C11_render_input_collects.
Print Assumptions C11_render_input_keeps.

(* [F] workflow input and vars (request_workflow_status / first call): entries without a task *)
Theorem C11_input_vars_recorded : forall ev c c' res, c_init c = false -> ensure_ws ev c = (c', res) ->
  forall c1 rin ierrs c2 rv verrs,
    render_input ev (wf_input (c_spec c)) (c_inputs c) (c_parent c) [] (set_init c true) = (c1, Val (rin, ierrs)) ->
    render_vars ev (wf_vars (c_spec c)) (merge_dicts (c_parent c) rin) [] [] c1 = (c2, Val (rv, verrs)) ->
    app ierrs verrs <> [] ->
    (forall e, In e (app ierrs verrs) -> recorded c' (entry_of e None None None)) /\ (lifecycle c2 -> settled c').
Proof. exact input_vars_failures_recorded. Qed.
Print Assumptions C11_input_vars_recorded.

(* [F] get_next_tasks (action, input, with-items list, delay, concurrency of a staged task): for every staged task
   whose preparation raised, an entry with the task's id and route *)
Theorem C11_task_rendering_recorded : forall ev todo c c' res, mapM (gnt_elem ev) todo c = (c', res) ->
  exists rs l, res = Val rs /\ wstatus (c_ws c') = wstatus (c_ws c) /\ c_errors c' = app (c_errors c) l /\
    (existsb snd rs = false -> l = []) /\
    Forall2 (fun s v => snd v = true ->
               exists cx c0 e, next_task_for ev s cx = (c0, Exc e) /\
                               recorded c' (entry_of e (Some (s_id s)) (Some (s_route s)) None)) todo rs.
Proof. exact gnt_loop_spec. Qed.
Print Assumptions C11_task_rendering_recorded.

(* [F] update_task_state: retry set-up when a record is created; retry condition; transition criteria; publish *)
Theorem C11_retry_setup_recorded : forall ev t rt ins prev c c0 e c' res,
  g_has_task (c_graph c) t = true -> g_task_has_retry (c_graph c) t = true ->
  setup_retry ev t (match ins with [] => [0] | _ => ins end) c = (c0, Exc e) ->
  add_task_state ev t rt ins prev c = (c', res) ->
  recorded c' (entry_of e (Some t) (Some rt) None) /\ (lifecycle c -> settled c').
Proof. exact retry_setup_recorded. Qed.
Theorem C11_retry_condition_recorded : forall ev r ctx t route c c0 e c' res,
  evaluate_task_retry ev r ctx c = (c0, Exc e) ->
  try_catch (evaluate_task_retry ev r ctx)
            (fun x => log_error x (Some t) (Some route) None ;;; request_status_core S_FAILED ;;; ret false) c = (c', res) ->
  recorded c' (entry_of e (Some t) (Some route) None) /\
  (lifecycle c0 -> settled c' /\ (res = Val false \/ (exists x, res = Exc x) /\ wstatus (c_ws c0) = S_CANCELED)).
Proof. exact retry_condition_recorded. Qed.
Theorem C11_criteria_recorded : forall ev t route idx ts ctx e0 c c0 e c' res,
  mapM (fun cr => evaluate ev cr ctx) (e_criteria e0) c = (c0, Exc e) ->
  process_transition ev t route idx ts ctx e0 c = (c', res) ->
  recorded c' (entry_of e (Some t) (Some route) (Some (e_dst e0, e_key e0))) /\ (lifecycle c -> settled c').
Proof. exact criteria_failure_recorded. Qed.
Theorem C11_publish_recorded : forall ev t route idx ts ctx e0 c c1 c2 new_ctx x xs c' res,
  try_catch
    (vs <- mapM (fun cr => evaluate ev cr ctx) (e_criteria e0) ;;
     upd_rec idx (fun r => r_set_next r (aset trid_eqb (e_dst e0, e_key e0) (forallb truthy vs) (r_next r))) ;;;
     ret (Some (forallb truthy vs)))
    (fun x => log_error x (Some t) (Some route) (Some (e_dst e0, e_key e0)) ;;; request_status_core S_FAILED ;;; ret None)
    c = (c1, Val (Some true)) ->
  finalize_context ev ts e0 ctx c1 = (c2, Val (new_ctx, x :: xs)) ->
  process_transition ev t route idx ts ctx e0 c = (c', res) ->
  (forall y, In y (x :: xs) -> recorded c' (entry_of y (Some t) (Some route) (Some (e_dst e0, e_key e0)))) /\
  (lifecycle c2 -> settled c').
Proof. exact publish_failure_recorded. Qed.
Print Assumptions C11_retry_setup_recorded.
Print Assumptions C11_retry_condition_recorded.
Print Assumptions C11_criteria_recorded.
Print Assumptions C11_publish_recorded.

(* [F] entries are never lost within a call or over later calls (but rerun): recorded stays recorded *)
Theorem C11_recorded_stays : forall ev op c c' r en, is_rerun op = false -> api_exec ev op c = (c', r) ->
  recorded c en -> recorded c' en.
Proof. intros ev op c c' r en Hop H. exact (Rf_errors_prefix c c' en (api_exec_Rf ev op Hop c c' r H)). Qed.
Print Assumptions C11_recorded_stays.

(* ------------------------------------------------------------------ (b) FAILS *)

(* [F] every API call (but rerun) only appends to the error log; and if it appended an entry other than the note
   beside a failed action ("Execution failed. See result for details.") or an unreachable-join note of the workflow
   machine -- i.e. an entry written by a handler of a contained failure -- the workflow is failed, or canceled if it
   was canceled *)
Theorem C11_errors_only_appended : forall ev op c c' r, is_rerun op = false -> api_exec ev op c = (c', r) ->
  exists l, c_errors c' = app (c_errors c) l.
Proof. exact errors_only_appended. Qed.
Theorem C11_contained_failure_fails : forall ev op c c' r l, is_rerun op = false -> lifecycle c ->
  api_exec ev op c = (c', r) -> c_errors c' = app (c_errors c) l ->
  (exists en, In en l /\ handled_entry en) -> settled c'.
Proof. exact contained_failure_fails. Qed.
Theorem C11_lifecycle_kept : forall ev op c c' r, is_rerun op = false -> lifecycle c -> api_exec ev op c = (c', r) -> lifecycle c'.
Proof. exact lifecycle_kept. Qed.
Print Assumptions C11_errors_only_appended.
Print Assumptions C11_contained_failure_fails.
Print Assumptions C11_lifecycle_kept.

(* ------------------------------------------------------------------ (c) NO FURTHER OFFER *)

(* [F] in the very call: get_next_tasks that changed the error log returns nothing -- also when healthy siblings
   were prepared in the same call -- and leaves the workflow settled *)
Theorem C11_failed_rendering_offers_nothing : forall ev c c' res, c_init c = true -> get_next_tasks ev c = (c', res) ->
  forall offers, res = Val offers -> c_errors c' <> c_errors c -> offers = [] /\ (lifecycle c -> settled c').
Proof. intros ev c c' res Hi H. exact (proj2 (get_next_tasks_spec ev c c' res Hi H)). Qed.
Print Assumptions C11_failed_rendering_offers_nothing.

(* [F] afterwards: a settled workflow offers nothing when canceled, and when failed only staged entries flagged as
   clean-up for a failed workflow (run_on_fail) *)
Theorem C11_settled_offers_only_cleanup : forall ev c c' l, c_init c = true -> settled c ->
  get_next_tasks ev c = (c', Val l) ->
  forall o, In o l -> wstatus (c_ws c) = S_FAILED /\
                      exists s, In s (staged (c_ws c)) /\ s_run_on_fail s = true /\ o_id o = s_id s /\ o_route o = s_route s.
Proof. exact settled_offers_only_cleanup. Qed.
Print Assumptions C11_settled_offers_only_cleanup.

(* ------------------------------------------------------------------ examples *)

Module C11bExamples.

Definition boom : exn := {| x_cls := "YaqlEvaluationException"; x_msg := "boom"; x_expr := true |}.
(* every expression fails; literals evaluate to themselves *)
Definition ev_bad (s : string) (ctx : dict) : evalres := if String.prefix "<%" s then EvErr boom else EvOk (JStr s).
Definition plain inp nxt : task_spec :=
  {| ts_action := JStr "core.noop"; ts_input := inp; ts_with := None; ts_delay := JNull; ts_join := JNull; ts_next := nxt |}.
Definition node n := {| n_id := n; n_barrier := JNull; n_splits := None; n_retry := JNull |}.
Definition mk sp g : cstate :=
  {| c_spec := sp; c_graph := g; c_inputs := []; c_parent := []; c_init := false; c_ws := empty_ws;
     c_errors := []; c_log := []; c_output := None |}.
Definition act t st := OpEvent t 0 (EvAction st JNull).
Definition view (c : cstate) := (wstatus (c_ws c), map s_id (staged (c_ws c)), c_errors c).

(* (i) a publish expression fails when t1 succeeds: entry naming t1, route 0 and the transition to t2; failed; t2 is
   not staged and nothing is offered *)
Definition spec_p : wf_spec :=
  {| wf_input := []; wf_vars := []; wf_output := [];
     wf_tasks := [("t1", plain (JDict []) [{| tr_when := JNull; tr_publish := [("x", JStr "<% ctx().nope %>")]; tr_do := ["t2"] |}]);
                  ("t2", plain (JDict []) [])] |}.
Definition graph_p : graph :=
  {| g_nodes := [node "t1"; node "t2"]; g_edges := [{| e_src := "t1"; e_dst := "t2"; e_key := 0; e_ref := 0; e_criteria := [] |}] |}.
Definition cp : cstate := run_ops ev_bad [OpRequest S_RUNNING; OpGetNext; act "t1" S_RUNNING] (mk spec_p graph_p).
Definition cp' : cstate := fst (api_exec ev_bad (act "t1" S_SUCCEEDED) cp).

Example publish_failure :
  lifecycle cp /\ view cp = (S_RUNNING, [], []) /\
  view cp' = (S_FAILED, [], [entry_of boom (Some "t1") (Some 0) (Some ("t2", 0))]) /\
  snd (api_exec ev_bad (act "t1" S_SUCCEEDED) cp) = Val RUnit /\
  snd (api_exec ev_bad OpGetNext cp') = Val (ROffers []).
Proof.
  split; [unfold lifecycle; vm_compute; tauto|]. split; [vm_compute; reflexivity|]. split; [vm_compute; reflexivity|].
  split; vm_compute; reflexivity.
Qed.

Example publish_failure_by_theorem : settled cp'.
Proof.
  apply (C11_contained_failure_fails ev_bad (act "t1" S_SUCCEEDED) cp cp' (snd (api_exec ev_bad (act "t1" S_SUCCEEDED) cp))
           [entry_of boom (Some "t1") (Some 0) (Some ("t2", 0))]).
  - reflexivity.
  - unfold lifecycle; vm_compute; tauto.
  - unfold cp'. destruct (api_exec ev_bad (act "t1" S_SUCCEEDED) cp); reflexivity.
  - vm_compute; reflexivity.
  - eexists; split; [left; reflexivity|]. split; [vm_compute; discriminate|vm_compute; reflexivity].
Qed.

(* (ii) the input expression of staged t1 fails while healthy t2 is staged beside it: entry naming t1 and its
   route, failed, and the call offers nothing -- not even t2 -- nor does the next one *)
Definition spec_s : wf_spec :=
  {| wf_input := []; wf_vars := []; wf_output := [];
     wf_tasks := [("t1", plain (JDict [("k", JStr "<% ctx().nope %>")]) []); ("t2", plain (JDict []) [])] |}.
Definition graph_s : graph := {| g_nodes := [node "t1"; node "t2"]; g_edges := [] |}.
Definition cs : cstate := run_ops ev_bad [OpRequest S_RUNNING] (mk spec_s graph_s).
Definition cs' : cstate := fst (api_exec ev_bad OpGetNext cs).

Example sibling_rendering_failure :
  view cs = (S_RUNNING, ["t1"; "t2"], []) /\
  view cs' = (S_FAILED, ["t1"; "t2"], [entry_of boom (Some "t1") (Some 0) None]) /\
  snd (api_exec ev_bad OpGetNext cs) = Val (ROffers []) /\
  snd (api_exec ev_bad OpGetNext cs') = Val (ROffers []).
Proof.
  split; [vm_compute; reflexivity|]. split; [vm_compute; reflexivity|]. split; vm_compute; reflexivity.
Qed.

End C11bExamples.
