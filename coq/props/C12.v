(* C12 -- With-items: every item once, in order, within the concurrency limit.
   Property theorems only (proofs/OffersProofs.v, proofs/C09C10Proofs.v, facts/F_tables.v). *)
From Coq Require Import String List Bool ZArith.
From Orq Require Import GenStatuses GenTables Base State Machines Conductor Api F_tables OffersProofs C09C10Proofs.
Import ListNotations.
Open Scope string_scope.

(* choose_items is the model of _evaluate_task_actions: given the concurrency value and the rendered
   item actions zipped with the recorded item statuses it returns the actions offered now. *)

(* [F] window: with concurrency k (k <= 0 counts as 1) the actions offered now plus the items already
   active never exceed k *)
Theorem C12_window : forall A conc (items : list (A * status)) acts conc',
  choose_items conc items = Val (acts, conc') -> py_is_int conc = true -> acts <> [] ->
  (Z.of_nat (length acts) + Z.of_nat (items_nactive items) <= effective_concurrency conc)%Z.
Proof. exact window_respected. Qed.
Print Assumptions C12_window.

(* [F] once, in order: what is offered is a prefix, in item order, of the items that have not run yet *)
Theorem C12_first_unset_in_order : forall A conc (items : list (A * status)) acts conc',
  choose_items conc items = Val (acts, conc') -> exists n, acts = map fst (firstn n (items_notrun items)).
Proof. exact offered_items_are_first_unset. Qed.
Print Assumptions C12_first_unset_in_order.

Theorem C12_only_unset_items : forall A (items : list (A * status)) a st,
  In (a, st) (items_notrun items) -> st = S_UNSET /\ In (a, st) items.
Proof. exact items_notrun_unset. Qed.
Print Assumptions C12_only_unset_items.

(* [F] no concurrency value: every item that has not run is offered *)
Theorem C12_all_offered_without_limit : forall A (items : list (A * status)) acts conc',
  choose_items JNull items = Val (acts, conc') -> acts = map fst (items_notrun items).
Proof. exact no_concurrency_offers_all_unset. Qed.
Print Assumptions C12_all_offered_without_limit.

Theorem C12_full_window_offers_nothing : forall A conc (items : list (A * status)) acts conc',
  choose_items conc items = Val (acts, conc') -> py_is_int conc = true ->
  (effective_concurrency conc <= Z.of_nat (items_nactive items))%Z -> acts = [].
Proof. exact full_window_offers_nothing. Qed.
Print Assumptions C12_full_window_offers_nothing.

(* [F] drain before complete: an item event contextualised "_task_active_" (another item is still
   active) never maps the task to a completed status -- swept over the whole generated task table *)
Theorem C12_no_completion_while_items_active : forall s e t, tbl_step task_table s e = Some t ->
  contains "_task_active_" e = true -> ~ In t COMPLETED_STATUSES.
Proof. exact F_task_item_active_open. Qed.
Print Assumptions C12_no_completion_while_items_active.

(* [F] quiet: nothing (no task, no item action) is offered while pausing, paused, canceling or canceled *)
Theorem C12_no_items_offered_when_held : forall ev c, c_init c = true ->
  In (wstatus (c_ws c)) [S_PAUSING; S_PAUSED; S_CANCELING; S_CANCELED] -> get_next_tasks ev c = (c, Val []).
Proof. exact no_offers_when_held. Qed.
Print Assumptions C12_no_items_offered_when_held.

(* non-vacuity: a window of 2 over five items of which one is active and one done offers exactly the first unset one *)
Example C12_window_example :
  choose_items (JInt 2) [("a0", S_SUCCEEDED); ("a1", S_RUNNING); ("a2", S_UNSET); ("a3", S_UNSET); ("a4", S_UNSET)]
  = Val (["a2"], JInt 2).
Proof. vm_compute. reflexivity. Qed.
