(* C12b -- C12, the history-level clauses: the provider protocol extended to WITH-ITEMS tasks.  Property theorems
   only; the protocol is model/ProviderSysItems.v (harness/provider.py poll / report / request / render / persist with
   completion reports only, no reruns: in-flight keys (task, route, item); every offered item action acknowledged by
   EvItem i running; an offer of an empty list acknowledged by EvAction running then EvAction succeeded []; the
   provider's accumulator of item results is part of the system state); proofs are in proofs/SysItemsProofs.v.

   All theorems are about EVERY evaluator [ev], EVERY definition [sp], EVERY graph [g], every inputs, and EVERY
   protocol history [ops] from the fresh conductor -- no hypothesis on the definition or the graph.  In their place two
   flags of the system state, both computed along the history:
     [si_fault s = false]  no conductor call of the history raised (a status request the conductor rejects is not a
                           fault), exactly as in C02b / C03b;
     [si_wiped s = false]  no task event left a staged entry whose items were being tracked without its item table
                           (another task's entry with a table, or the event's own entry while an item of it is in
                           progress), and no poll returned two offers for one (task, route).
   ([si_wiped] is also raised, without harm, when a cycle stages again a FAILED with-items task whose entry was kept
   with its table and no active item; after that the theorems are silent about the run.)
   [si_wiped] is how finding D1 shows in the bookkeeping: a join with a count below its number of inbound transitions
   is staged again when a late branch arrives, which erases the item table of the running with-items task; the next
   poll then offers items that are still in flight (Example [d1_wipes_the_table] below).  Every theorem below is false
   without it, by that example.

   The statements are made at protocol-step boundaries (Poll is atomic, like harness/provider.py); the window theorem
   is proved for the end of every poll, for every point inside a poll (after every acknowledgement) and for every
   other step.

   What is NOT proved here (record level; see the notes at the end): "the task record is active while an item is in
   flight / is completed only when none is" (clause d: false in general, Example [shrinking_items_complete_early]), "succeeded iff all items succeeded", and "the result lists the
   item results in item order".  These need the frame of update_task_state on task RECORDS for states with item
   tables, which C02b's invariant assumed away ([staged_ok]); the single-call facts are C12_no_completion_while_items_
   active (props/C12.v).  The link proved here is between in-flight items and the ITEM TABLE of the staged entry. *)
From Coq Require Import String List Bool ZArith Arith.
From Orq Require Import GenStatuses GenTables Base State Machines Conductor Api Driver ProviderSys ProviderSysItems Composer.
From Orq Require Import F_tables F_names F_sys SysProofs SysNextProofs SysItemsProofs.
Import ListNotations.
Open Scope string_scope.

(* [F] (a) LINK, item part.  At every reachable fault-free, wipe-free state:
   - every item action in flight is "running" in the item table of the (first) staged entry of its task;
   - every item with an active status in the table of ANY staged entry is "running" and in flight -- no other active
     status ever appears in a table under this protocol;
   - every item table has the shape  statuses that were set ++ unset ... unset  (items are taken in index order and a
     status, once set, is never unset again);
   - of the staged entries for one (task, route) only the first can have an item table. *)
Theorem C12b_item_link : forall ev sp g inputs parent ops,
  let s := isys_run ev ops (isys_init sp g inputs parent) in
  si_fault s = false -> si_wiped s = false ->
  (forall t r i, In (t, r, Some i) (si_inflight s) ->
     exists l, items_of (si_c s) t r = Some l /\ nth_error l i = Some S_RUNNING) /\
  (forall e l i st, In e (staged (c_ws (si_c s))) -> s_items e = Some l -> nth_error l i = Some st ->
     status_in st ACTIVE_STATUSES = true -> st = S_RUNNING /\ In (s_id e, s_route e, Some i) (si_inflight s)) /\
  (forall e l, In e (staged (c_ws (si_c s))) -> s_items e = Some l -> shaped l) /\
  first_only (staged (c_ws (si_c s))).
Proof. exact items_link. Qed.
Print Assumptions C12b_item_link.

(* [F] (b) WINDOW, end of a poll.  For every offer of items (items_count > 0) whose rendered concurrency k is an
   integer (a boolean counts as one, as in Python), after the poll has acknowledged everything at most max(k,1) items
   of that task are active ([nact] counts the active statuses of the table; by the link they are exactly the items in
   flight).  k is the value the engine rendered into THIS offer: a concurrency expression may evaluate differently at
   the next poll (the evaluator sees the whole workflow state), and then the next poll's value bounds what that poll
   adds -- when it is smaller than the number already active nothing is offered and there is no offer to read it from. *)
Theorem C12b_window_after_poll : forall ev sp g inputs parent ops c1 offers o n k,
  let s := isys_run ev ops (isys_init sp g inputs parent) in
  si_fault (isys_poll ev s) = false -> si_wiped (isys_poll ev s) = false ->
  get_next_tasks ev (si_c s) = (c1, Val offers) -> In o offers -> o_items_count o = Some (S n) ->
  o_concurrency o = Some k -> py_is_int k = true ->
  exists l, items_of (si_c (isys_poll ev s)) (o_id o) (o_route o) = Some l /\
            (Z.of_nat (nact l) <= effective_concurrency k)%Z.
Proof. exact items_window_poll. Qed.
Print Assumptions C12b_window_after_poll.

(* [F] (b) WINDOW after every API call inside a poll.  The poll acknowledges the offers in order and, within an offer,
   the actions in order; take any point of that sequence: the offers [os1] are done, of the next offer [o0] the actions
   [as1] are acknowledged and [as2] are not.  At that point every offer [o] of the poll with items and an integer
   concurrency k -- acknowledged already, in progress or still waiting -- has at most max(k,1) active items.
   ([poll_start s c1 offers] is the system right after get_next_tasks; the two acknowledgement events of an empty-list
   offer change no table.) *)
Theorem C12b_window_inside_poll : forall ev sp g inputs parent ops c1 offers os1 o0 os2 as1 as2 o n k l,
  let s := isys_run ev ops (isys_init sp g inputs parent) in
  si_fault (isys_poll ev s) = false -> si_wiped (isys_poll ev s) = false ->
  get_next_tasks ev (si_c s) = (c1, Val offers) ->
  offers = app os1 (o0 :: os2) -> o_items_count o0 <> Some 0 -> o_actions o0 = app as1 as2 ->
  In o offers -> o_items_count o = Some (S n) -> o_concurrency o = Some k -> py_is_int k = true ->
  items_of (si_c (fold_left (isys_ack ev (o_id o0) (o_route o0)) as1
                            (fold_left (isys_ack_offer ev) os1 (poll_start s c1 offers)))) (o_id o) (o_route o) = Some l ->
  (Z.of_nat (nact l) <= effective_concurrency k)%Z.
Proof. exact items_window_inside. Qed.
Print Assumptions C12b_window_inside_poll.

(* [F] (b) WINDOW, between polls.  No step other than a poll (boot, report, request, render, persist) makes an item
   active or changes the number of items: every table after the step is the table of the same (task, route) before it,
   same length, with at most as many active items.  With the previous theorem: at every step boundary the number of
   active items of a task is at most max(k,1) for the k of the last poll that offered items of it. *)
Theorem C12b_window_between_polls : forall ev sp g inputs parent ops op t r l',
  let s := isys_run ev ops (isys_init sp g inputs parent) in op <> IPoll ->
  si_fault (isys_step ev s op) = false -> si_wiped (isys_step ev s op) = false ->
  items_of (si_c (isys_step ev s op)) t r = Some l' ->
  exists l, items_of (si_c s) t r = Some l /\ length l' = length l /\ nact l' <= nact l.
Proof. exact items_window_step. Qed.
Print Assumptions C12b_window_between_polls.

(* [F] (c) ORDER inside one poll.  The items offered for a task are consecutive indices p, p+1, ..., p+m-1 (m > 0),
   where p is the number of items whose status was ever set: every index below p has been offered before, every
   offered index is unset, nothing is offered twice in one poll.  ([c1] is the conductor right after get_next_tasks,
   before the acknowledgements.) *)
Theorem C12b_offers_in_index_order : forall ev sp g inputs parent ops c1 offers o n,
  let s := isys_run ev ops (isys_init sp g inputs parent) in
  si_fault s = false -> si_wiped s = false -> c_init (si_c s) = true ->
  get_next_tasks ev (si_c s) = (c1, Val offers) -> In o offers -> o_items_count o = Some (S n) ->
  exists pre u m, items_of c1 (o_id o) (o_route o) = Some (app pre (repeat S_UNSET u)) /\
                  Forall (fun st => st <> S_UNSET) pre /\
                  map a_item (o_actions o) = map Some (seq (length pre) m) /\ 0 < m <= u.
Proof. exact items_offers_consecutive. Qed.
Print Assumptions C12b_offers_in_index_order.

(* [F] (c) ONCE / ORDER across polls.  If a poll offers item j of (t, r) and a later poll offers item i of (t, r), and
   in between the staged entry of (t, r) kept an item table at every step boundary (one "task execution": the table
   is dropped when the task completes or is staged again for a retry), then j < i.  In particular no item is offered
   -- hence acknowledged -- twice, and the offered indices increase from poll to poll.
   Without the table-continuity hypothesis the statement is false per task RECORD: a retry keeps the record and
   starts the items again from 0 (Example [retry_offers_again]). *)
Theorem C12b_once_and_in_order : forall ev sp g inputs parent ops1 ops2 t r i j,
  let s1 := isys_run ev ops1 (isys_init sp g inputs parent) in
  let s3 := isys_run ev ops2 (isys_poll ev s1) in
  offered_by ev s1 t r j ->
  (forall pre post, ops2 = app pre post -> items_of (si_c (isys_run ev pre (isys_poll ev s1))) t r <> None) ->
  offered_by ev s3 t r i ->
  si_fault (isys_poll ev s3) = false -> si_wiped (isys_poll ev s3) = false -> j < i.
Proof. exact items_once_order. Qed.
Print Assumptions C12b_once_and_in_order.

(* [F] (e) HELD.  While the workflow is pausing, paused, canceling or canceled a poll offers nothing -- no task, no
   item -- and leaves the whole system state as it is.  (A pause or cancel request that the conductor accepts puts
   the workflow in one of these statuses: C09 / C10; resuming leaves them.) *)
Theorem C12b_no_items_offered_when_held : forall ev s, c_init (si_c s) = true ->
  In (wstatus (c_ws (si_c s))) [S_PAUSING; S_PAUSED; S_CANCELING; S_CANCELED] ->
  get_next_tasks ev (si_c s) = (si_c s, Val []) /\ isys_poll ev s = s.
Proof. exact held_poll_nothing. Qed.
Print Assumptions C12b_no_items_offered_when_held.

(* [P] (f) EMPTY LIST.  Proved: the acknowledgement of an offer for an empty list puts nothing in flight.  That the
   task record is succeeded with result [] afterwards is record level: Example [empty_list_completes]. *)
Theorem C12b_empty_list_nothing_in_flight : forall ev s o, o_items_count o = Some 0 ->
  si_inflight (isys_ack_offer ev s o) = si_inflight s.
Proof. exact empty_offer_inflight. Qed.
Print Assumptions C12b_empty_list_nothing_in_flight.

(* ------------------------------------------------------------------ non-vacuity, witnesses *)

Module C12bExamples.

(* evaluator: "items4" is a list of four, "items0" the empty list; everything else is a literal *)
Definition ev_it (s : string) (ctx : dict) : evalres :=
  if String.eqb s "items4" then EvOk (JList [JInt 1; JInt 2; JInt 3; JInt 4])
  else if String.eqb s "items0" then EvOk (JList [])
  else EvOk (JStr s).

Definition mk_items (e : string) (conc : json) (join : json) (next : list transition_spec) : task_spec :=
  {| ts_action := JStr "core.echo"; ts_input := JDict [];
     ts_with := Some {| it_expr := e; it_keys := None; it_concurrency := conc |};
     ts_delay := JNull; ts_join := join; ts_next := next |}.
Definition mk_task (next : list transition_spec) : task_spec :=
  {| ts_action := JStr "core.noop"; ts_input := JDict []; ts_with := None; ts_delay := JNull; ts_join := JNull; ts_next := next |}.
Definition tr (w : json) (d : list string) := {| tr_when := w; tr_publish := []; tr_do := d |}.
Definition nd (n : string) (b r : json) := {| n_id := n; n_barrier := b; n_splits := None; n_retry := r |}.
Definition ed (s d : string) (k r : nat) (c : list json) := {| e_src := s; e_dst := d; e_key := k; e_ref := r; e_criteria := c |}.

(* tasks:
     w: { with: { items: items4, concurrency: 2 }, action: core.echo, next: [ {do: [z]} ] }
     p: { action: core.noop }
     z: { action: core.noop }                                   (graph1r: w has retry: { count: 1 }) *)
Definition spec1 : wf_spec := {| wf_input := []; wf_vars := []; wf_output := [];
  wf_tasks := [("w", mk_items "items4" (JInt 2) JNull [tr JNull ["z"]]); ("p", mk_task []); ("z", mk_task [])] |}.
Definition graph1 : graph :=
  {| g_nodes := [nd "p" JNull JNull; nd "w" JNull JNull; nd "z" JNull JNull]; g_edges := [ed "w" "z" 0 0 []] |}.
Definition retry1 := JDict [("count", JInt 1)].
Definition graph1r : graph :=
  {| g_nodes := [nd "p" JNull JNull; nd "w" JNull retry1; nd "z" JNull JNull]; g_edges := [ed "w" "z" 0 0 []] |}.
(* tasks:
     a1: { action: core.noop, next: [ {do: [w]} ] }
     a2: { action: core.noop, next: [ {do: [w]} ] }
     w:  { join: 1, with: { items: items4, concurrency: 2 }, action: core.echo }               (finding D1) *)
Definition spec2 : wf_spec := {| wf_input := []; wf_vars := []; wf_output := [];
  wf_tasks := [("a1", mk_task [tr JNull ["w"]]); ("a2", mk_task [tr JNull ["w"]]);
               ("w", mk_items "items4" (JInt 2) (JInt 1) [])] |}.
Definition graph2 : graph :=
  {| g_nodes := [nd "a1" JNull JNull; nd "w" (JInt 1) JNull; nd "a2" JNull JNull];
     g_edges := [ed "a1" "w" 0 0 []; ed "a2" "w" 0 0 []] |}.
(* tasks:
     w: { with: { items: items0 }, action: core.echo, next: [ {do: [z]} ] }
     z: { action: core.noop }                                                                   *)
Definition spec0 : wf_spec := {| wf_input := []; wf_vars := []; wf_output := [];
  wf_tasks := [("w", mk_items "items0" JNull JNull [tr JNull ["z"]]); ("z", mk_task [])] |}.
Definition graph0 : graph := {| g_nodes := [nd "w" JNull JNull; nd "z" JNull JNull]; g_edges := [ed "w" "z" 0 0 []] |}.

(* the graphs are the ones the (modelled) composer builds from the definitions *)
Example graphs_are_composed :
  compose spec1 [] 100 = Val graph1 /\ compose spec1 [("w", retry1)] 100 = Val graph1r /\
  compose spec2 [] 100 = Val graph2 /\ compose spec0 [] 100 = Val graph0.
Proof. repeat split; vm_compute; reflexivity. Qed.

(* (workflow status, in flight, (fault, wiped), records, staged entries with their item tables and completed marks) *)
Definition view (s : isys) :=
  (wstatus (c_ws (si_c s)), si_inflight s, (si_fault s, si_wiped s),
   map (fun r => (r_id r, r_status r)) (sequence (c_ws (si_c s))),
   map (fun x => (s_id x, s_items x, s_completed x)) (staged (c_ws (si_c s)))).
Definition run sp g ops := view (isys_run ev_it ops (isys_init sp g [] [])).
Definition It t i st := IReport t 0 (Some i) st (JStr "r").
Definition Pl t st := IReport t 0 None st JNull.

(* the window: four items, concurrency 2 -- the first poll offers items 0 and 1 only *)
Example window_of_two :
  run spec1 graph1 [IBoot; IPoll]
  = (S_RUNNING, [("p", 0, None); ("w", 0, Some 0); ("w", 0, Some 1)], (false, false),
     [("p", Some S_RUNNING); ("w", Some S_RUNNING)],
     [("w", Some [S_RUNNING; S_RUNNING; S_UNSET; S_UNSET], false)]).
Proof. vm_compute; reflexivity. Qed.

(* item 1 finishes first: the next poll offers item 2 (the first never offered), not more *)
Example next_item_in_order :
  run spec1 graph1 [IBoot; IPoll; It "w" 1 S_SUCCEEDED; IPoll]
  = (S_RUNNING, [("p", 0, None); ("w", 0, Some 0); ("w", 0, Some 2)], (false, false),
     [("p", Some S_RUNNING); ("w", Some S_RUNNING)],
     [("w", Some [S_RUNNING; S_SUCCEEDED; S_RUNNING; S_UNSET], false)]).
Proof. vm_compute; reflexivity. Qed.

(* ... to the end: all four offered, the task succeeds after the last one, then z, then the workflow *)
Example all_items_then_done :
  run spec1 graph1 [IBoot; IPoll; It "w" 1 S_SUCCEEDED; IPoll; It "w" 0 S_SUCCEEDED; It "w" 2 S_SUCCEEDED; IPoll;
                    It "w" 3 S_SUCCEEDED; Pl "p" S_SUCCEEDED; IPoll; Pl "z" S_SUCCEEDED]
  = (S_SUCCEEDED, [], (false, false),
     [("p", Some S_SUCCEEDED); ("w", Some S_SUCCEEDED); ("z", Some S_SUCCEEDED)], []).
Proof. vm_compute; reflexivity. Qed.

(* an item fails while another is active: the task stays running, the next poll still fills the window *)
Example failure_keeps_draining :
  run spec1 graph1 [IBoot; IPoll; It "w" 0 S_FAILED; IPoll]
  = (S_RUNNING, [("p", 0, None); ("w", 0, Some 1); ("w", 0, Some 2)], (false, false),
     [("p", Some S_RUNNING); ("w", Some S_RUNNING)],
     [("w", Some [S_FAILED; S_RUNNING; S_RUNNING; S_UNSET], false)]).
Proof. vm_compute; reflexivity. Qed.

(* ... and fails once nothing is active any more: item 3 is never offered, the entry stays, marked completed *)
Example failure_completes_when_drained :
  run spec1 graph1 [IBoot; IPoll; It "w" 0 S_FAILED; IPoll; It "w" 1 S_SUCCEEDED; It "w" 2 S_SUCCEEDED; IPoll]
  = (S_RUNNING, [("p", 0, None); ("z", 0, None)], (false, false),
     [("p", Some S_RUNNING); ("w", Some S_FAILED); ("z", Some S_RUNNING)],
     [("w", Some [S_FAILED; S_SUCCEEDED; S_SUCCEEDED; S_UNSET], true)]).
Proof. vm_compute; reflexivity. Qed.

(* pause with items in flight: record pausing, the poll offers nothing *)
Example pause_holds_the_items :
  run spec1 graph1 [IBoot; IPoll; IRequest S_PAUSING; It "w" 0 S_SUCCEEDED; IPoll]
  = (S_PAUSING, [("p", 0, None); ("w", 0, Some 1)], (false, false),
     [("p", Some S_RUNNING); ("w", Some S_PAUSING)],
     [("w", Some [S_SUCCEEDED; S_RUNNING; S_UNSET; S_UNSET], false)]).
Proof. vm_compute; reflexivity. Qed.

(* ... paused once the in-flight items are back; two items were never offered *)
Example paused_when_drained :
  run spec1 graph1 [IBoot; IPoll; IRequest S_PAUSING; It "w" 0 S_SUCCEEDED; It "w" 1 S_SUCCEEDED; Pl "p" S_SUCCEEDED; IPoll]
  = (S_PAUSED, [], (false, false),
     [("p", Some S_SUCCEEDED); ("w", Some S_PAUSED)],
     [("w", Some [S_SUCCEEDED; S_SUCCEEDED; S_UNSET; S_UNSET], false)]).
Proof. vm_compute; reflexivity. Qed.

(* ... and resuming offers the remaining items, in order *)
Example resume_offers_the_rest :
  run spec1 graph1 [IBoot; IPoll; IRequest S_PAUSING; It "w" 0 S_SUCCEEDED; It "w" 1 S_SUCCEEDED; Pl "p" S_SUCCEEDED;
                    IRequest S_RESUMING; IPoll]
  = (S_RUNNING, [("w", 0, Some 2); ("w", 0, Some 3)], (false, false),
     [("p", Some S_SUCCEEDED); ("w", Some S_RUNNING)],
     [("w", Some [S_SUCCEEDED; S_SUCCEEDED; S_RUNNING; S_RUNNING], false)]).
Proof. vm_compute; reflexivity. Qed.

(* cancel with items in flight: the record is canceling (not canceled) while an item is out *)
Example cancel_drains :
  run spec1 graph1 [IBoot; IPoll; IRequest S_CANCELING; It "w" 0 S_SUCCEEDED]
  = (S_CANCELING, [("p", 0, None); ("w", 0, Some 1)], (false, false),
     [("p", Some S_RUNNING); ("w", Some S_CANCELING)],
     [("w", Some [S_SUCCEEDED; S_RUNNING; S_UNSET; S_UNSET], false)]).
Proof. vm_compute; reflexivity. Qed.

(* ... canceled when the last one is back *)
Example canceled_when_drained :
  run spec1 graph1 [IBoot; IPoll; IRequest S_CANCELING; It "w" 0 S_SUCCEEDED; It "w" 1 S_SUCCEEDED; Pl "p" S_SUCCEEDED; IPoll]
  = (S_CANCELED, [], (false, false),
     [("p", Some S_SUCCEEDED); ("w", Some S_CANCELED)], [("z", None, false)]).
Proof. vm_compute; reflexivity. Qed.

(* (f) the empty list: one poll, the task is succeeded, nothing was in flight, z is staged *)
Example empty_list_completes :
  run spec0 graph0 [IBoot; IPoll]
  = (S_RUNNING, [], (false, false), [("w", Some S_SUCCEEDED)], [("z", None, false)]).
Proof. vm_compute; reflexivity. Qed.

(* [R] per RECORD an item is offered more than once: with retry { count: 1 } the failed task is staged again without table ... *)
Example retry_restages :
  run spec1 graph1r [IBoot; IPoll; It "w" 0 S_FAILED; It "w" 1 S_SUCCEEDED]
  = (S_RUNNING, [("p", 0, None)], (false, false),
     [("p", Some S_RUNNING); ("w", Some S_RETRYING)], [("w", None, false)]).
Proof. vm_compute; reflexivity. Qed.

(* ... and the next poll offers items 0 and 1 again, on the same record (no fault, no wipe) *)
Example retry_offers_again :
  run spec1 graph1r [IBoot; IPoll; It "w" 0 S_FAILED; It "w" 1 S_SUCCEEDED; IPoll]
  = (S_RUNNING, [("p", 0, None); ("w", 0, Some 0); ("w", 0, Some 1)], (false, false),
     [("p", Some S_RUNNING); ("w", Some S_RUNNING)],
     [("w", Some [S_RUNNING; S_RUNNING; S_UNSET; S_UNSET], false)]).
Proof. vm_compute; reflexivity. Qed.

(* [R] finding D1, the hypothesis [si_wiped = false]: w (join: 1) starts when a1 is done ... *)
Example d1_before :
  run spec2 graph2 [IBoot; IPoll; Pl "a1" S_SUCCEEDED; IPoll]
  = (S_RUNNING, [("a2", 0, None); ("w", 0, Some 0); ("w", 0, Some 1)], (false, false),
     [("a1", Some S_SUCCEEDED); ("a2", Some S_RUNNING); ("w", Some S_RUNNING)],
     [("w", Some [S_RUNNING; S_RUNNING; S_UNSET; S_UNSET], false)]).
Proof. vm_compute; reflexivity. Qed.

(* ... a2 arrives late: w is staged again, its item table is gone while items 0 and 1 are in flight (wiped = true) *)
Example d1_wipes_the_table :
  run spec2 graph2 [IBoot; IPoll; Pl "a1" S_SUCCEEDED; IPoll; Pl "a2" S_SUCCEEDED]
  = (S_RUNNING, [("w", 0, Some 0); ("w", 0, Some 1)], (false, true),
     [("a1", Some S_SUCCEEDED); ("a2", Some S_SUCCEEDED); ("w", Some S_RUNNING)],
     [("w", None, false)]).
Proof. vm_compute; reflexivity. Qed.

(* ... and item 0, already reported succeeded, is offered and acknowledged a second time on the same record *)
Example d1_offers_twice :
  run spec2 graph2 [IBoot; IPoll; Pl "a1" S_SUCCEEDED; IPoll; It "w" 0 S_SUCCEEDED; Pl "a2" S_SUCCEEDED; IPoll]
  = (S_RUNNING, [("w", 0, Some 1); ("w", 0, Some 0)], (false, true),
     [("a1", Some S_SUCCEEDED); ("a2", Some S_SUCCEEDED); ("w", Some S_RUNNING)],
     [("w", Some [S_RUNNING; S_RUNNING; S_UNSET; S_UNSET], false)]).
Proof. vm_compute; reflexivity. Qed.

(* [R] finding D24, why C02b / C03b do not extend to with-items: the sibling p ends canceled while w has items
   never offered -- the workflow is canceling for ever, nothing in flight, w's record running, polls offer nothing *)
Example d24_stuck_canceling :
  run spec1 graph1 [IBoot; IPoll; Pl "p" S_CANCELED; It "w" 0 S_SUCCEEDED; It "w" 1 S_SUCCEEDED; IPoll]
  = (S_CANCELING, [], (false, false),
     [("p", Some S_CANCELED); ("w", Some S_RUNNING)],
     [("w", Some [S_SUCCEEDED; S_SUCCEEDED; S_UNSET; S_UNSET], false)]).
Proof. vm_compute; reflexivity. Qed.

(* [R] (d) DRAIN is false for an arbitrary evaluator: the engine evaluates the items expression again at every
   get_next_tasks, and an offer whose list is empty is completed on the spot -- also when the staged entry already has
   a table with items in flight.  Evaluator: "itemsX" is [1,2,3,4] as long as the workflow state has no task record
   and [] afterwards (the expression reads ctx().__state, as task_status() does).  Definition:
     tasks:
       w: { with: { items: itemsX, concurrency: 2 }, action: core.echo, next: [ {do: [z]} ] }
       z: { action: core.noop }
   History: Boot; Poll; Poll.  The first poll offers items 0 and 1; the second renders zero items, returns an offer
   with items_count = 0, and its acknowledgement (running, succeeded []) completes the record: w is succeeded with
   items 0 and 1 in flight, z is staged -- no call raised, no table wiped.  Item 1 then fails, w stays succeeded
   (so "succeeded iff all items succeeded" is false as well).
   Replayed on the engine (orquesta conductor driven as harness/provider.py does) with
     items: <% switch(task_status(w) = "null" => [1,2,3,4], true => []) %>
   -- same outcome: second get_next_tasks returns w with items_count 0, w ends succeeded with two items running.
   Weakest hypothesis: the items expression of a task yields the same number of items at every poll for as long as
   its staged entry has a table (true of expressions that read the task's input context only). *)
Definition started (ctx : dict) : bool :=
  match dget "__state" ctx with
  | Some (JDict d) => match dget "sequence" d with Some (JList (_ :: _)) => true | _ => false end
  | _ => false
  end.
Definition ev_shrink (s : string) (ctx : dict) : evalres :=
  if String.eqb s "itemsX" then (if started ctx then EvOk (JList []) else EvOk (JList [JInt 1; JInt 2; JInt 3; JInt 4]))
  else EvOk (JStr s).
Definition specX : wf_spec := {| wf_input := []; wf_vars := []; wf_output := [];
  wf_tasks := [("w", mk_items "itemsX" (JInt 2) JNull [tr JNull ["z"]]); ("z", mk_task [])] |}.
Definition graphX : graph := {| g_nodes := [nd "w" JNull JNull; nd "z" JNull JNull]; g_edges := [ed "w" "z" 0 0 []] |}.
Definition runX ops := view (isys_run ev_shrink ops (isys_init specX graphX [] [])).
Example graphX_is_composed : compose specX [] 100 = Val graphX.
Proof. vm_compute; reflexivity. Qed.
Example shrinking_items_complete_early :
  runX [IBoot; IPoll; IPoll]
  = (S_RUNNING, [("w", 0, Some 0); ("w", 0, Some 1)], (false, false), [("w", Some S_SUCCEEDED)],
     [("w", Some [S_RUNNING; S_RUNNING; S_UNSET; S_UNSET], false); ("z", None, false)]).
Proof. vm_compute; reflexivity. Qed.
Example shrinking_items_succeeded_with_a_failed_item :
  runX [IBoot; IPoll; IPoll; It "w" 0 S_SUCCEEDED; It "w" 1 S_FAILED; IPoll]
  = (S_RUNNING, [("z", 0, None)], (false, false), [("w", Some S_SUCCEEDED); ("z", Some S_RUNNING)], []).
Proof. vm_compute; reflexivity. Qed.

(* the theorems apply to these runs: e.g. the window after the second poll of [next_item_in_order] *)
Example window_instance :
  let s := isys_run ev_it [IBoot; IPoll; It "w" 1 S_SUCCEEDED] (isys_init spec1 graph1 [] []) in
  exists c1 o, get_next_tasks ev_it (si_c s) = (c1, Val [o]) /\ o_items_count o = Some 4 /\
               o_concurrency o = Some (JInt 2) /\ map a_item (o_actions o) = [Some 2] /\
               si_fault (isys_poll ev_it s) = false /\ si_wiped (isys_poll ev_it s) = false.
Proof. vm_compute. eexists. eexists. repeat split. Qed.

End C12bExamples.

(* NOTES.
   (d) DRAIN and the record half of (a).  False for evaluators whose items expression changes its number of items
   between polls (Example [shrinking_items_complete_early]).  Otherwise, proved at the level of the item table: an item in flight is "running" in the
   table of the staged entry and conversely (C12b_item_link), so while an item is in flight the entry is staged with
   an active item; every item report and every pause / cancel request that reaches the task's state machine is then
   named "..._task_active_..." (Machines.item_event_name / task_workflow_event_name read that table), and such an
   event never maps the task to a completed status (C12_no_completion_while_items_active, swept over the generated
   table).  Not proved: that a task RECORD changes status only through these machine steps in states with item tables
   (the record frame of SysProofs.v is stated under [staged_ok]: no item tables).  Examples [cancel_drains],
   [canceled_when_drained], [pause_holds_the_items], [failure_keeps_draining], [failure_completes_when_drained] show
   the behaviour.
   C02b / C03b with items.  The invariant of SysProofs.v does not survive: records of with-items tasks take the
   statuses pausing / paused / canceling (outside [simple_statuses]), staged entries carry tables and completed marks
   (outside [staged_ok]), and the counting invariant is false by finding D24 -- Example [d24_stuck_canceling]: an
   active record that is not in flight (C02b_active_record_in_flight fails) and a state with nothing in flight and
   nothing on offer that is not a rest state (C03b quiescence fails). *)
