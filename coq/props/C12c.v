(* C12c -- C12, the RECORD level of the with-items provider protocol (model/ProviderSysItems.v): clause (d) DRAIN,
   "succeeded iff every item succeeded", and the record half of (a).  Property theorems only; proofs are in
   proofs/SysItemsRecProofs.v (the frame of update_task_state and of the status requests on task records in states
   with item tables; pointer well-formedness; sweeps of the generated task table in facts/F_sysitems.v).

   Every theorem is about EVERY evaluator, definition, graph, inputs and protocol history [ops] from the fresh
   conductor, under three flags computed along the history:
     [si_fault = false], [si_wiped = false]   as in C12b;
     [run_odd ev ops init = false]            (model/ProviderSysItemsMon.v) no poll of the history returned an offer that
        does not fit the staged entry it is made for:
          RESIZED  the entry has a non-empty item table and the offer's items_count is not its length -- the items
                   expression gave a different number of items at a later poll (zero completes the task on the spot:
                   Example C12b.shrinking_items_complete_early; this is the hypothesis that example calls for);
          an offer of items for a (task, route) whose single action is in flight, an offer for an engine command
                   (neither can come from a fixed definition that passes inspection: the kind of a task is fixed,
                   the command names are reserved);
        and no item was acknowledged onto a completed record whose staged entry is marked completed (completed
        entries are not offered; cannot happen when staged keys are distinct).
   The first disjunct is the substantive one; Example [monitor_catches_the_shrinking_list] shows it raised on the
   counterexample of C12b, Example [monitor_silent] shows the monitor silent on the runs of C12b. *)
From Coq Require Import String List Bool ZArith Arith.
From Orq Require Import GenStatuses GenTables Base State Machines Conductor Api Driver ProviderSys ProviderSysItems ProviderSysItemsMon Composer.
From Orq Require Import F_tables F_names F_sys F_sysitems SysProofs SysNextProofs SysItemsProofs SysItemsRecProofs.
From Orq Require Import C12b.
Import ListNotations.
Open Scope string_scope.

(* [F] (a) record half, and (d) DRAIN.  While an item of a task is in flight the pointer map leads to a record of that
   task and route whose status is ACTIVE (requested, scheduled, delayed, running, resuming, pausing, canceling): in
   particular the task record is never completed -- nor waiting for a retry -- while an item of it is out.  Equivalently:
   when the record of (t, r) is completed, no item of (t, r) is in flight. *)
Theorem C12c_item_in_flight_record_active : forall ev sp g inputs parent ops,
  let s := isys_run ev ops (isys_init sp g inputs parent) in
  si_fault s = false -> si_wiped s = false -> run_odd ev ops (isys_init sp g inputs parent) = false ->
  forall t r i, In (t, r, Some i) (si_inflight s) ->
  exists rec, ws_task_entry (c_ws (si_c s)) t r = Some rec /\ r_id rec = t /\ r_route rec = r /\
              ostatus_in (r_status rec) ACTIVE_STATUSES = true.
Proof. exact items_record_active. Qed.
Print Assumptions C12c_item_in_flight_record_active.

Theorem C12c_drain : forall ev sp g inputs parent ops,
  let s := isys_run ev ops (isys_init sp g inputs parent) in
  si_fault s = false -> si_wiped s = false -> run_odd ev ops (isys_init sp g inputs parent) = false ->
  forall t r i, In (t, r, Some i) (si_inflight s) ->
  is_engine_command t = false /\
  exists rec, ws_task_entry (c_ws (si_c s)) t r = Some rec /\ r_id rec = t /\ r_route rec = r /\
              ostatus_in (r_status rec) GOOD_STATUSES = true /\
              ostatus_in (r_status rec) COMPLETED_STATUSES = false /\ r_status rec <> Some S_RETRYING.
Proof. exact items_record_busy. Qed.
Print Assumptions C12c_drain.

(* [F] (d) "succeeded iff every item succeeded".  At the report of item i of (t, r), with [l] the item table before
   the report, [rec] the task record before and [rec'] after:
     - if the record is succeeded afterwards, the report is a success and every other item of the table is succeeded
       (the task never succeeds with a failed, canceled, unfinished or never-offered item);
     - if the report is a success, every other item is succeeded and the record was running (or pausing / canceling),
       the record is succeeded afterwards -- or retrying, when the task has a retry policy whose condition asks for
       another attempt (the record passes through succeeded inside the same call). *)
Theorem C12c_succeeded_iff_all_items_succeeded : forall ev sp g inputs parent ops t r i st result,
  let s := isys_run ev ops (isys_init sp g inputs parent) in
  let s' := isys_report ev s t r (Some i) st result in
  si_fault s' = false -> si_wiped s' = false -> run_odd ev ops (isys_init sp g inputs parent) = false ->
  In (t, r, Some i) (si_inflight s) -> status_in st report_statuses = true ->
  exists l rec rec', items_of (si_c s) t r = Some l /\ ws_task_entry (c_ws (si_c s)) t r = Some rec /\
    ws_task_entry (c_ws (si_c s')) t r = Some rec' /\
    (r_status rec' = Some S_SUCCEEDED -> st = S_SUCCEEDED /\ forall x, In x (list_del_nth i l) -> x = S_SUCCEEDED) /\
    (st = S_SUCCEEDED -> (forall x, In x (list_del_nth i l) -> x = S_SUCCEEDED) ->
     status_in (rstatus rec) [S_RUNNING; S_PAUSING; S_CANCELING] = true ->
     r_status rec' = Some S_SUCCEEDED \/ r_status rec' = Some S_RETRYING).
Proof. exact items_succeeded_iff. Qed.
Print Assumptions C12c_succeeded_iff_all_items_succeeded.

(* ------------------------------------------------------------------ non-vacuity *)
Module C12cExamples.
Import C12bExamples.

(* the monitor is silent on the runs of C12b: all items, failure, pause / resume, cancel, retry *)
Example monitor_silent :
  run_odd ev_it [IBoot; IPoll; It "w" 1 S_SUCCEEDED; IPoll; It "w" 0 S_SUCCEEDED; It "w" 2 S_SUCCEEDED; IPoll;
                 It "w" 3 S_SUCCEEDED; Pl "p" S_SUCCEEDED; IPoll; Pl "z" S_SUCCEEDED] (isys_init spec1 graph1 [] []) = false /\
  run_odd ev_it [IBoot; IPoll; It "w" 0 S_FAILED; IPoll; It "w" 1 S_SUCCEEDED; It "w" 2 S_SUCCEEDED; IPoll] (isys_init spec1 graph1 [] []) = false /\
  run_odd ev_it [IBoot; IPoll; IRequest S_PAUSING; It "w" 0 S_SUCCEEDED; It "w" 1 S_SUCCEEDED; Pl "p" S_SUCCEEDED;
                 IRequest S_RESUMING; IPoll] (isys_init spec1 graph1 [] []) = false /\
  run_odd ev_it [IBoot; IPoll; IRequest S_CANCELING; It "w" 0 S_SUCCEEDED; It "w" 1 S_SUCCEEDED; Pl "p" S_SUCCEEDED; IPoll]
          (isys_init spec1 graph1 [] []) = false /\
  run_odd ev_it [IBoot; IPoll; It "w" 0 S_FAILED; It "w" 1 S_SUCCEEDED; IPoll] (isys_init spec1 graph1r [] []) = false /\
  run_odd ev_it [IBoot; IPoll] (isys_init spec0 graph0 [] []) = false.
Proof. repeat split; vm_compute; reflexivity. Qed.

(* ... and raised by the second poll of the shrinking list (RESIZED: table of 4, items_count 0) *)
Example monitor_catches_the_shrinking_list :
  run_odd ev_shrink [IBoot; IPoll] (isys_init specX graphX [] []) = false /\
  run_odd ev_shrink [IBoot; IPoll; IPoll] (isys_init specX graphX [] []) = true.
Proof. split; vm_compute; reflexivity. Qed.

(* the theorem applies: cancel with items in flight, the record is canceling (active) while item 1 is out *)
Example drain_instance :
  let s := isys_run ev_it [IBoot; IPoll; IRequest S_CANCELING; It "w" 0 S_SUCCEEDED] (isys_init spec1 graph1 [] []) in
  si_fault s = false /\ si_wiped s = false /\ In ("w", 0, Some 1) (si_inflight s) /\
  option_map r_status (ws_task_entry (c_ws (si_c s)) "w" 0) = Some (Some S_CANCELING).
Proof. vm_compute. repeat split; auto. Qed.

End C12cExamples.
