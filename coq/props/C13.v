(* C13 -- Retry: bounded attempts, no transition from a retried attempt.
   Property theorems only (proofs/C13Proofs.v, proofs/OffersProofs.v, facts/F_tables.v). *)
From Coq Require Import String List Bool ZArith.
From Orq Require Import GenStatuses GenEvents GenTables Base State Machines Conductor Api F_tables ValuePost OffersProofs C13Proofs.
Import ListNotations.

(* [F] the retry decision says yes only while the tally of retries is strictly below the count *)
Theorem C13_retry_only_below_count : forall ev r ctx, vpost (retry_allowed r) (evaluate_task_retry ev r ctx).
Proof. exact evaluate_task_retry_bound. Qed.
Print Assumptions C13_retry_only_below_count.

(* [F] ... and only if the condition holds for the latest execution: by default the execution
   abended; with a `when`, that expression evaluated to a true value in the execution's context *)
Theorem C13_retry_condition : forall ev r ctx rr, r_retry r = Some rr ->
  vpost (fun b => b = true ->
           (status_in (rstatus r) ABENDED_STATUSES = true /\ rr_when rr = JNull) \/
           (exists c c' v, evaluate ev (rr_when rr) ctx c = (c', Val v) /\ truthy v = true))
        (evaluate_task_retry ev r ctx).
Proof. exact evaluate_task_retry_condition. Qed.
Print Assumptions C13_retry_condition.

(* [F] the task status `retrying` is entered only by the internal retry event and only from a completed
   status (swept over the whole generated task table) *)
Theorem C13_retrying_only_by_retry_event : forall s e, tbl_step task_table s e = Some S_RETRYING ->
  e = EV_TASK_RETRY_REQUESTED /\ In s COMPLETED_STATUSES.
Proof. exact F_task_retrying_only_by_retry. Qed.
Print Assumptions C13_retrying_only_by_retry_event.

(* [F] the retry decision is taken only when the task table will accept the retry event, so the
   re-entry changes the status to retrying and cannot recurse again *)
Theorem C13_retry_event_accepted : forall s, tbl_transition_valid task_table s S_RETRYING = true ->
  s = S_RETRYING \/ tbl_step task_table s EV_TASK_RETRY_REQUESTED = Some S_RETRYING.
Proof. exact F_task_retry_valid. Qed.
Print Assumptions C13_retry_event_accepted.

(* [F] a re-offered retry carries the configured retry delay (0 when none), overriding the task delay *)
Theorem C13_retry_delay : forall ev s, vpost (retry_delay_of s) (next_task_for ev s).
Proof. exact next_task_for_retry_delay. Qed.
Print Assumptions C13_retry_delay.

(* NOT PROVED (tested by monitor c13): the tally itself never exceeds the count over whole histories
   (needs the two-level analysis of the re-entrant call), and no transition/publish fires for a
   retried attempt. *)
