(* C13b -- Retry, continued: the re-entrant call terminates within the model's recursion bound, and the
   tally of retries never exceeds the count -- over one call, over every API operation, over histories.
   Property theorems only (proofs/RetryProofs.v).  To be merged into C13.v. *)
From Coq Require Import String List Bool ZArith.
From Orq Require Import GenStatuses GenEvents GenTables Base State Machines Conductor Api F_tables RetryProofs RetryBoundProofs.
Import ListNotations.
Open Scope string_scope.

(* ------------------------------------------------------------------ (1) termination *)

(* [F] update_task_state's bounded model never answers "out of fuel": over a graph whose engine commands
   have no outgoing transitions and no retry policy (every composed graph), for every event (the
   provider_event hypothesis of the plan is not needed), every state.  The hypothesis on the evaluator
   is necessary: the exception classes the evaluator reports are passed through unchanged, so an
   evaluator that itself reports a class named "OutOfFuel" would refute the statement without any
   recursion (Example out_of_fuel_needs_evaluator_hypothesis below); Python has no such class. *)
Theorem C13_update_task_state_never_out_of_fuel : forall ev, ev_no_fuel_exn ev ->
  forall t route evt c c' e, graph_commands_inert (c_graph c) ->
  update_task_state ev t route evt c = (c', Exc e) -> x_cls e <> "OutOfFuel".
Proof. exact update_task_state_never_out_of_fuel. Qed.
Print Assumptions C13_update_task_state_never_out_of_fuel.

(* [F] the same fact without any word about exception names, for every evaluator: giving the model more
   fuel never changes the outcome of a call.  (Already fuel 2 gives the result of fuel 3: a nested call --
   the retry re-entry or a queued engine command -- never calls again.) *)
Theorem C13_fuel_irrelevant : forall ev n t route evt c, graph_commands_inert (c_graph c) ->
  update_task_state_fuel ev (3 + n) t route evt c = update_task_state ev t route evt c.
Proof. exact fuel_irrelevant_3. Qed.
Print Assumptions C13_fuel_irrelevant.

Theorem C13_fuel_two_suffices : forall ev n t route evt c, graph_commands_inert (c_graph c) ->
  update_task_state_fuel ev (2 + n) t route evt c = update_task_state_fuel ev 2 t route evt c.
Proof. exact fuel_irrelevant. Qed.
Print Assumptions C13_fuel_two_suffices.

(* [F] the two reasons.  A call that delivers the retry event makes no further call, in any state ... *)
Theorem C13_retry_reentry_calls_nothing : forall ev rec1 rec2 t route c,
  uts_body ev rec1 t route retry_event c = uts_body ev rec2 t route retry_event c.
Proof. exact body_norec_retry. Qed.
Print Assumptions C13_retry_reentry_calls_nothing.

(* ... and neither does a call on an engine command ([uts_body ev rec] is the body of update_task_state
   with [rec] for its nested calls: update_task_state_fuel ev (S n) = uts_body ev (update_task_state_fuel ev n)) *)
Theorem C13_engine_command_calls_nothing : forall ev rec1 rec2 n rt e c,
  graph_commands_inert (c_graph c) -> is_engine_command n = true ->
  uts_body ev rec1 n rt e c = uts_body ev rec2 n rt e c.
Proof. exact body_norec_cmd. Qed.
Print Assumptions C13_engine_command_calls_nothing.

Theorem C13_body_is_the_model : forall ev fuel t route evt,
  update_task_state_fuel ev (S fuel) t route evt = uts_body ev (update_task_state_fuel ev fuel) t route evt.
Proof. exact uts_unfold. Qed.
Print Assumptions C13_body_is_the_model.

(* ------------------------------------------------------------------ (2) the retry bound *)

(* [F] one provider event keeps every tally within max(count, 0), provided the record it is addressed to
   is not retrying or the event is the acknowledgement `running`.  The protocol hypothesis is needed:
   any other event delivered to a retrying record leaves it retrying and the code counts one more retry
   (Example duplicate_report_overruns below -- real behaviour of the engine under a duplicate report). *)
Theorem C13_retry_tally_bounded_step : forall ev t route evt c c' r,
  provider_event evt = true -> tally_inv c -> not_retrying_target c t route evt ->
  update_task_state ev t route evt c = (c', r) -> tally_inv c'.
Proof. exact retry_tally_bounded_step. Qed.
Print Assumptions C13_retry_tally_bounded_step.

(* [F] every API operation (status request, poll, event under the protocol, output rendering, rerun,
   persist round trip, serialize) keeps the bound, whether it returns or raises *)
Theorem C13_retry_tally_bounded_api : forall ev op c c' r,
  op_ok c op -> tally_inv c -> api_exec ev op c = (c', r) -> tally_inv c'.
Proof. exact api_exec_tally. Qed.
Print Assumptions C13_retry_tally_bounded_api.

(* [F] histories in which each event meets the protocol hypothesis in the state it is applied to *)
Theorem C13_retry_tally_bounded_history : forall ev ops c,
  hist_ok ev ops c -> tally_inv c -> tally_inv (run_ops ev ops c).
Proof. exact retry_tally_bounded_history. Qed.
Print Assumptions C13_retry_tally_bounded_history.

(* [F] the other operations on their own (no hypothesis) *)
Theorem C13_tally_request_status : forall ev st c c' r,
  request_workflow_status ev st c = (c', r) -> tally_inv c -> tally_inv c'.
Proof. exact pt_request_workflow_status. Qed.
Theorem C13_tally_get_next_tasks : forall ev c c' r, get_next_tasks ev c = (c', r) -> tally_inv c -> tally_inv c'.
Proof. exact pt_get_next_tasks. Qed.
Theorem C13_tally_render_output : forall ev c c' r, render_workflow_output ev c = (c', r) -> tally_inv c -> tally_inv c'.
Proof. exact pt_render_workflow_output. Qed.
Theorem C13_tally_rerun : forall ev reqs c c' r, request_workflow_rerun ev reqs c = (c', r) -> tally_inv c -> tally_inv c'.
Proof. exact pt_request_workflow_rerun. Qed.
Print Assumptions C13_tally_request_status.
Print Assumptions C13_tally_get_next_tasks.
Print Assumptions C13_tally_render_output.
Print Assumptions C13_tally_rerun.

(* [F] the step that increments: only the addressed record, by one, and only below its count *)
Theorem C13_increment_only_below_count : forall t route idx r st c c' res,
  tally_inv c -> nth_error (sequence (c_ws c)) idx = Some r -> (st = S_RETRYING -> bounded r) ->
  uts_retrying t route idx r st c = (c', res) -> tally_inv c' /\ tasks (c_ws c') = tasks (c_ws c).
Proof. exact retrying_tally. Qed.
Print Assumptions C13_increment_only_below_count.


(* ------------------------------------------------------------------ (3) the unconditional bound, on entries
   into `retrying` (one entry = one more execution).  No protocol hypothesis, every evaluator.
   [rec_at c idx] is the record in slot idx, [tal c idx] its retry tally (0 if none), [retr c idx] whether
   its status is retrying. *)

(* [F] (a) records are append-only and their tallies monotone: in every API operation, for every event,
   a record that exists before exists after in the same slot with the same id and route, the same retry
   count, and a tally at least as large *)
Theorem C13_tally_monotone : forall ev op c c' res idx r, api_exec ev op c = (c', res) -> rec_at c idx = Some r ->
  exists r', rec_at c' idx = Some r' /\ r_id r' = r_id r /\ r_route r' = r_route r /\
             retry_mono (r_retry r) (r_retry r').
Proof. intros ev op c c' res idx r H. exact (api_exec_mono ev op c c' res H idx r). Qed.
Print Assumptions C13_tally_monotone.

(* [F] new records start with tally 0 and no status *)
Theorem C13_new_record_tally_zero : forall ev t rt ins prev c c' idx,
  add_task_state ev t rt ins prev c = (c', Val idx) ->
  exists r, rec_at c' idx = Some r /\ r_status r = None /\ tal c' idx = 0.
Proof. exact new_record_tally_zero. Qed.
Print Assumptions C13_new_record_tally_zero.

(* [F] (b) the entry step: an operation (any but one that injects the engine's own retry request from
   outside; every provider event qualifies) takes a record from not-retrying -- or not yet existing -- to
   retrying only if its tally before was below its integer count, and its tally after is at least one more *)
Theorem C13_entry_needs_tally_below_count : forall ev op c c' res idx, op_external op ->
  api_exec ev op c = (c', res) -> retr c idx = false -> retr c' idx = true ->
  exists r' rr', rec_at c' idx = Some r' /\ r_retry r' = Some rr' /\ py_is_int (rr_count rr') = true /\
                 (Z.of_nat (tal c idx) < py_int_value (rr_count rr'))%Z /\ tal c idx + 1 <= rr_tally rr'.
Proof. intros ev op c c' res idx Hx H. exact (proj2 (api_exec_ent ev op Hx c c' res H) idx). Qed.
Print Assumptions C13_entry_needs_tally_below_count.

Theorem C13_provider_events_are_external : forall evt, provider_event evt = true -> external_event evt = true.
Proof. exact provider_external. Qed.

(* [F] (c) over a history, from any state: initial tally + number of entries <= tally reached, and, if
   there was an entry, <= the record's integer count *)
Theorem C13_retry_entries_bounded : forall ev ops c idx, Forall op_external ops ->
  tal c idx + entries ev ops c idx <= tal (run_ops ev ops c) idx /\
  (entries ev ops c idx = 0 \/
   exists r rr, rec_at (run_ops ev ops c) idx = Some r /\ r_retry r = Some rr /\ py_is_int (rr_count rr) = true /\
                (Z.of_nat (tal c idx + entries ev ops c idx) <= py_int_value (rr_count rr))%Z).
Proof. exact retry_entries_bounded. Qed.
Print Assumptions C13_retry_entries_bounded.

(* [F] the property text: a record that starts at tally 0 -- every record of a history starting with no
   record, since new records start at 0 -- is retried at most max(count, 0) times *)
Theorem C13_retried_at_most_count_times : forall ev ops c idx r rr, Forall op_external ops -> tal c idx = 0 ->
  rec_at (run_ops ev ops c) idx = Some r -> r_retry r = Some rr ->
  (Z.of_nat (entries ev ops c idx) <= Z.max (py_int_value (rr_count rr)) 0)%Z /\ entries ev ops c idx <= rr_tally rr.
Proof. exact retry_entries_at_most_count. Qed.
Print Assumptions C13_retried_at_most_count_times.

Theorem C13_empty_history_start : forall c idx, sequence (c_ws c) = [] -> tal c idx = 0.
Proof. exact empty_tal. Qed.

(* [F] a record without retry policy never enters retrying *)
Theorem C13_no_policy_no_entries : forall ev ops c idx, Forall op_external ops ->
  (forall r, rec_at (run_ops ev ops c) idx = Some r -> r_retry r = None) -> entries ev ops c idx = 0.
Proof. exact no_retry_no_entries. Qed.
Print Assumptions C13_no_policy_no_entries.

(* ------------------------------------------------------------------ the hypotheses are satisfiable *)

Module C13bExamples.

(* every literal evaluates to itself; never fails *)
Definition ev_lit (s : string) (ctx : dict) : evalres := EvOk (JStr s).

Example ev_lit_ok : ev_no_fuel_exn ev_lit.
Proof. intros s ctx e H; discriminate H. Qed.

(* t1 (retry count 1) -> noop *)
Definition t1_spec : task_spec :=
  {| ts_action := JStr "core.noop"; ts_input := JDict []; ts_with := None; ts_delay := JNull; ts_join := JNull;
     ts_next := [{| tr_when := JNull; tr_publish := []; tr_do := ["noop"] |}] |}.
Definition spec1 : wf_spec := {| wf_input := []; wf_vars := []; wf_output := []; wf_tasks := [("t1", t1_spec)] |}.
Definition graph1 : graph :=
  {| g_nodes := [{| n_id := "t1"; n_barrier := JNull; n_splits := None; n_retry := JDict [("count", JInt 1)] |};
                 {| n_id := "noop"; n_barrier := JNull; n_splits := None; n_retry := JNull |}];
     g_edges := [{| e_src := "t1"; e_dst := "noop"; e_key := 0; e_ref := 0; e_criteria := [] |}] |}.
Definition c0 : cstate :=
  {| c_spec := spec1; c_graph := graph1; c_inputs := []; c_parent := []; c_init := false; c_ws := empty_ws;
     c_errors := []; c_log := []; c_output := None |}.

Definition running := OpEvent "t1" 0 (EvAction S_RUNNING JNull).
Definition failed := OpEvent "t1" 0 (EvAction S_FAILED JNull).
Definition succeeded := OpEvent "t1" 0 (EvAction S_SUCCEEDED JNull).
(* boot, poll, acknowledge, fail (-> retry re-entry), poll, acknowledge, succeed (-> engine command noop) *)
Definition ops_fail := [OpRequest S_RUNNING; OpGetNext; running; failed].
Definition ops_all := app ops_fail [OpGetNext; running; succeeded].

Definition view (c : cstate) :=
  (wstatus (c_ws c),
   map (fun r => (r_id r, r_status r, match r_retry r with Some rr => Some (rr_tally rr) | None => None end))
       (sequence (c_ws c))).

Example graph1_inert : graph_commands_inert (c_graph c0).
Proof. apply inert_b_sound; vm_compute; reflexivity. Qed.

(* (1) both kinds of nested call happen in this run, and no call answers with an exception at all *)
Example run_reenters_and_queues :
  view (run_ops ev_lit ops_fail c0) = (S_RUNNING, [("t1", Some S_RETRYING, Some 1)]) /\
  view (run_ops ev_lit ops_all c0)
    = (S_SUCCEEDED, [("t1", Some S_SUCCEEDED, Some 1); ("noop", Some S_SUCCEEDED, None)]) /\
  snd (api_exec ev_lit failed (run_ops ev_lit [OpRequest S_RUNNING; OpGetNext; running] c0)) = Val RUnit /\
  snd (api_exec ev_lit succeeded (run_ops ev_lit (app ops_fail [OpGetNext; running]) c0)) = Val RUnit.
Proof. vm_compute. repeat split. Qed.

(* the hypothesis on the evaluator cannot be dropped: an evaluator that reports the class "OutOfFuel"
   (here for the default of a workflow input, which only catches expression errors) makes the very first
   call answer with that class, over an inert graph, without any nested call *)
Definition ev_bad (s : string) (ctx : dict) : evalres :=
  EvErr {| x_cls := "OutOfFuel"; x_msg := "from the evaluator"; x_expr := false |}.
Definition c_bad : cstate :=
  {| c_spec := {| wf_input := [("x", JStr "<% 1 %>")]; wf_vars := []; wf_output := []; wf_tasks := [("t1", t1_spec)] |};
     c_graph := graph1; c_inputs := []; c_parent := []; c_init := false; c_ws := empty_ws;
     c_errors := []; c_log := []; c_output := None |}.
Example out_of_fuel_needs_evaluator_hypothesis :
  graph_commands_inert (c_graph c_bad) /\
  exists c' e, update_task_state ev_bad "t1" 0 (EvAction S_RUNNING JNull) c_bad = (c', Exc e) /\ x_cls e = "OutOfFuel".
Proof. split; [apply inert_b_sound; vm_compute; reflexivity|]. eexists; eexists; split; vm_compute; reflexivity. Qed.

(* (2) the whole run obeys the protocol, starts within the bound, and so ends within it; the tally did move *)
Example run_obeys_protocol : hist_ok ev_lit ops_all c0 /\ tally_inv c0.
Proof. split; [apply hist_ok_b_sound; vm_compute; reflexivity|apply tally_inv_b_iff; vm_compute; reflexivity]. Qed.

Example run_stays_bounded : tally_inv (run_ops ev_lit ops_all c0).
Proof. apply C13_retry_tally_bounded_history; apply run_obeys_protocol. Qed.

(* the single step at which the retry happens: hypotheses hold, the tally goes from 0 to 1 = count *)
Example retry_step :
  let c := run_ops ev_lit [OpRequest S_RUNNING; OpGetNext; running] c0 in
  provider_event (EvAction S_FAILED JNull) = true /\ tally_inv c /\
  not_retrying_target c "t1" 0 (EvAction S_FAILED JNull) /\
  view c = (S_RUNNING, [("t1", Some S_RUNNING, Some 0)]) /\
  view (fst (update_task_state ev_lit "t1" 0 (EvAction S_FAILED JNull) c)) = (S_RUNNING, [("t1", Some S_RETRYING, Some 1)]).
Proof.
  cbv zeta. split; [reflexivity|]. split; [apply tally_inv_b_iff; vm_compute; reflexivity|].
  split; [apply nrt_b_sound; vm_compute; reflexivity|]. split; vm_compute; reflexivity.
Qed.

(* the protocol hypothesis cannot be dropped: the failure reported a second time while the record is
   retrying is counted as a second retry, past the count of 1 *)
Example duplicate_report_overruns :
  let c := run_ops ev_lit ops_fail c0 in
  tally_inv c /\ nrt_b c "t1" 0 (EvAction S_FAILED JNull) = false /\
  view (fst (update_task_state ev_lit "t1" 0 (EvAction S_FAILED JNull) c)) = (S_RUNNING, [("t1", Some S_RETRYING, Some 2)]) /\
  ~ tally_inv (fst (update_task_state ev_lit "t1" 0 (EvAction S_FAILED JNull) c)).
Proof.
  cbv zeta. split; [apply tally_inv_b_iff; vm_compute; reflexivity|]. split; [vm_compute; reflexivity|].
  split; [vm_compute; reflexivity|]. intro H. apply tally_inv_b_iff in H. vm_compute in H. discriminate H.
Qed.


(* (3) count 2.  fail -> retry 1; fail -> retry 2; the second failure reported again while retrying bumps the
   tally to 3 = count + 1 (no protocol hypothesis here), yet the record entered retrying twice = count, and
   the third failure is final *)
Definition graph2 : graph :=
  {| g_nodes := [{| n_id := "t1"; n_barrier := JNull; n_splits := None; n_retry := JDict [("count", JInt 2)] |};
                 {| n_id := "noop"; n_barrier := JNull; n_splits := None; n_retry := JNull |}];
     g_edges := [] |}.
Definition c2 : cstate :=
  {| c_spec := spec1; c_graph := graph2; c_inputs := []; c_parent := []; c_init := false; c_ws := empty_ws;
     c_errors := []; c_log := []; c_output := None |}.
Definition ops_dup :=
  [OpRequest S_RUNNING; OpGetNext; running; failed; OpGetNext; running; failed; failed; OpGetNext; running; failed].

Example tally_runs_ahead_entries_do_not :
  Forall op_external ops_dup /\ sequence (c_ws c2) = [] /\
  view (run_ops ev_lit ops_dup c2) = (S_FAILED, [("t1", Some S_FAILED, Some 3)]) /\
  entries ev_lit ops_dup c2 0 = 2 /\
  ~ tally_inv (run_ops ev_lit ops_dup c2).
Proof.
  split; [apply ops_external_b_sound; vm_compute; reflexivity|]. split; [reflexivity|].
  split; [vm_compute; reflexivity|]. split; [vm_compute; reflexivity|].
  intro H. apply tally_inv_b_iff in H. vm_compute in H. discriminate H.
Qed.

Example entries_bound_instance :
  exists r rr, rec_at (run_ops ev_lit ops_dup c2) 0 = Some r /\ r_retry r = Some rr /\
    (Z.of_nat (entries ev_lit ops_dup c2 0) <= Z.max (py_int_value (rr_count rr)) 0)%Z.
Proof.
  eexists; eexists. split; [vm_compute; reflexivity|]. split; [reflexivity|].
  eapply C13_retried_at_most_count_times;
    [apply ops_external_b_sound; vm_compute; reflexivity|apply empty_tal; reflexivity|vm_compute; reflexivity|reflexivity].
Qed.

End C13bExamples.
