(* C13c -- Retry, third part: "No outbound transition, publish or failure handling fires for an attempt that is
   retried".  Property theorems only; the proofs are in proofs/FrozenProofs.v (shared with C18b). *)
From Coq Require Import String List Bool ZArith.
From Orq Require Import GenStatuses GenEvents Base State Machines Conductor Api C18Proofs RetryProofs FrozenProofs.
Import ListNotations.
Open Scope string_scope.

(* [F] a call of update_task_state whose completion step decides to retry the attempt (uts_prefix is the call up to
   and including that decision; po_compl p = Some (ctx, true) says "retry") decides no transition over the whole
   call: Rno relates the state before to the state after -- no record's transition decisions (r_next) or published
   context reference (r_out) change and, on an initialised conductor, no context snapshot is appended -- for every
   evaluator, event and state, also when the call raises *)
Theorem C13_retried_attempt_decides_nothing : forall ev fuel t route evt c c1 p ctx c' res,
  uts_prefix ev t route evt c = (c1, Val p) -> po_compl p = Some (ctx, true) ->
  update_task_state_fuel ev (S fuel) t route evt c = (c', res) -> Rno c c'.
Proof. exact retry_branch_decides_nothing. Qed.
Print Assumptions C13_retried_attempt_decides_nothing.

(* [F] the same for the nested call that delivers the retry event *)
Theorem C13_retry_call_decides_nothing : forall ev fuel t route c c' res,
  update_task_state_fuel ev fuel t route retry_event c = (c', res) -> Rno c c'.
Proof. exact retry_call_decides_nothing. Qed.
Print Assumptions C13_retry_call_decides_nothing.

(* [F] and nothing but that event ever takes a record to "retrying" *)
Theorem C13_enters_retrying_only_by_retry_event : forall w r evt,
  task_process_event w r evt = Val (Some S_RETRYING) -> is_retry_event evt = true.
Proof. exact enters_retrying_only_by_retry_event. Qed.
Print Assumptions C13_enters_retrying_only_by_retry_event.
