(* C14 -- The composed graph is exactly the definition's tasks and transitions.
   Property theorems only; proofs, the invariants and the definitions used in the statements
   (triple_ok, reach, attrs_ok, exp_barrier, exp_retry, ex_spec, ex_graph) are in proofs/C14Proofs.v,
   the model in model/Composer.v.  [compose sp rt fuel]: sp = the normalised definition, rt = the
   retry specs keyed by task name, fuel = bound on dequeues.  Every theorem is conditional on
   [compose .. = Val g]: termination of the worklist is not proved (tested by ./check).
   Each theorem is followed by an instance on the concrete definition ex_spec (fan-out, fan-in on a
   join, two parallel transitions a -> j, the cycle a -> j -> c -> a, commands noop and retry, a
   declared retry, two declared tasks not reachable from the start task), whose composition is
   computed by vm_compute in ex_compose (and agrees with the real composer on the same definition). *)
From Coq Require Import String List Bool ZArith Permutation.
From Orq Require Import Base State Composer C14Proofs.
Import ListNotations.
Open Scope string_scope.

(* [F] (a) every edge is a (task, transition index, target) triple of the definition: the target is
   not the retry command, criteria = [when] (or [] when there is no condition), ref = the index of
   the transition; both ends are nodes.
     triple_ok sp e := exists w, In (e_dst e, w, e_ref e) (spec_next_tasks sp (e_src e))
                                 /\ e_dst e <> "retry" /\ e_criteria e = crta_of w *)
Theorem C14_edges_sound : forall sp rt fuel g, compose sp rt fuel = Val g ->
  forall e, In e (g_edges g) ->
    triple_ok sp e /\ In (e_src e) (map n_id (g_nodes g)) /\ In (e_dst e) (map n_id (g_nodes g)).
Proof. exact edges_sound. Qed.
Print Assumptions C14_edges_sound.
Example ex_C14_edges_sound :
  Forall (fun e => exists w, In (e_dst e, w, e_ref e) (spec_next_tasks ex_spec (e_src e))
                             /\ e_dst e <> "retry" /\ e_criteria e = crta_of w) (g_edges ex_graph)
  /\ length (g_edges ex_graph) = 9.
Proof.
  split; [|vm_compute; reflexivity]. apply Forall_forall. intros e He.
  exact (proj1 (C14_edges_sound _ _ _ _ ex_compose e He)).
Qed.

(* [F] (b) every (task, transition, target) triple of every node has its edge (every node has been
   dequeued and processed when the worklist is empty) *)
Theorem C14_edges_complete : forall sp rt fuel g, compose sp rt fuel = Val g ->
  forall t d w i, In t (map n_id (g_nodes g)) -> In (d, w, i) (spec_next_tasks sp t) -> d <> "retry" ->
    exists e, In e (g_edges g) /\ e_src e = t /\ e_dst e = d /\ e_ref e = i /\ e_criteria e = crta_of w.
Proof. exact edges_complete. Qed.
Print Assumptions C14_edges_complete.
Example ex_C14_edges_complete :
  (exists e, In e (g_edges ex_graph) /\ e_src e = "a" /\ e_dst e = "j" /\ e_ref e = 1
             /\ e_criteria e = [JStr "<% failed() %>"])
  /\ spec_next_tasks ex_spec "a" =
     [("j", JStr "<% succeeded() %>", 0); ("j", JStr "<% failed() %>", 1); ("j", JStr "<% failed() %>", 1)].
Proof.
  split; [|vm_compute; reflexivity].
  apply (C14_edges_complete _ _ _ _ ex_compose "a" "j" (JStr "<% failed() %>") 1);
    [vm_compute; tauto|vm_compute; tauto|discriminate].
Qed.

(* [F] (b) the nodes are exactly the tasks reachable from the start tasks (declared tasks nothing
   transitions into) through transitions other than the retry command; node ids are unique.
     reach sp t: reach_start (t is a start task) | reach_step (t' reachable, (t, w, i) a triple of t') *)
Theorem C14_nodes_exact : forall sp rt fuel g, compose sp rt fuel = Val g ->
  NoDup (map n_id (g_nodes g)) /\ forall t, In t (map n_id (g_nodes g)) <-> reach sp t.
Proof. exact nodes_exact. Qed.
Print Assumptions C14_nodes_exact.
Example ex_C14_nodes_exact :
  map n_id (g_nodes ex_graph) = ["s"; "a"; "b"; "j"; "c"; "noop"] /\ reach ex_spec "noop"
  /\ ~ reach ex_spec "u" /\ length (wf_tasks ex_spec) = 7.
Proof.
  split; [vm_compute; reflexivity|].
  split; [apply (proj2 (C14_nodes_exact _ _ _ _ ex_compose)); vm_compute; tauto|].
  split; [|reflexivity]. intro H. apply (proj2 (C14_nodes_exact _ _ _ _ ex_compose)) in H.
  vm_compute in H. repeat (destruct H as [H|H]; [discriminate|]). exact H.
Qed.

(* [F] (c) no two edges agree on (source, destination, criteria, ref), nor on (source, destination, key) *)
Theorem C14_edges_unique : forall sp rt fuel g, compose sp rt fuel = Val g ->
  NoDup (map (fun e => (e_src e, e_dst e, e_criteria e, e_ref e)) (g_edges g)) /\
  NoDup (map (fun e => (e_src e, e_dst e, e_key e)) (g_edges g)).
Proof. exact edges_unique. Qed.
Print Assumptions C14_edges_unique.
Example ex_C14_edges_unique :
  NoDup (map (fun e => (e_src e, e_dst e, e_key e)) (g_edges ex_graph))
  /\ length (filter (fun '(d, _, _) => String.eqb d "j") (spec_next_tasks ex_spec "a")) = 3
  /\ length (filter (edge_between "a" "j") (g_edges ex_graph)) = 2.
Proof.
  split; [exact (proj2 (C14_edges_unique _ _ _ _ ex_compose))|]. split; vm_compute; reflexivity.
Qed.

(* [F] (c) the keys of the k parallel edges between two tasks are exactly 0 .. k-1, in the order
   networkx lists them *)
Theorem C14_edge_keys_dense : forall sp rt fuel g, compose sp rt fuel = Val g ->
  forall s d, map e_key (filter (edge_between s d) (g_edges g))
              = seq 0 (length (filter (edge_between s d) (g_edges g))).
Proof. exact edge_keys_dense. Qed.
Print Assumptions C14_edge_keys_dense.
Example ex_C14_edge_keys_dense :
  map e_key (filter (edge_between "c" "noop") (g_edges ex_graph)) = [0; 1]
  /\ map e_ref (filter (edge_between "c" "noop") (g_edges ex_graph)) = [1; 2].
Proof.
  split; [|vm_compute; reflexivity].
  rewrite (C14_edge_keys_dense _ _ _ _ ex_compose "c" "noop"). vm_compute. reflexivity.
Qed.

(* [F] (d) the roots of the composed graph are exactly the start tasks: the declared tasks that no
   transition of the definition names *)
Theorem C14_roots_exact : forall sp rt fuel g, compose sp rt fuel = Val g ->
  forall t, In t (g_roots g) <-> In t (spec_start_tasks sp).
Proof. exact roots_exact. Qed.
Print Assumptions C14_roots_exact.
Example ex_C14_roots_exact : g_roots ex_graph = ["s"] /\ spec_start_tasks ex_spec = ["s"].
Proof. split; vm_compute; reflexivity. Qed.

(* [F] (e) every node carries barrier = "*" / n exactly when the task declares join (null otherwise)
   and retry = the policy {"when": cond or "<% completed() %>", "count": 3} of the last retry command
   among its transitions (in get_next_tasks order), else the declared retry spec, else null.
     attrs_ok sp rt n := n_barrier n = exp_barrier sp (n_id n) /\ n_retry n = exp_retry sp rt (n_id n) *)
Theorem C14_attributes_exact : forall sp rt fuel g, compose sp rt fuel = Val g ->
  forall n, In n (g_nodes g) -> attrs_ok sp rt n.
Proof. exact attributes_exact. Qed.
Print Assumptions C14_attributes_exact.
Example ex_C14_attributes_exact :
  exp_barrier ex_spec "j" = JStr "*" /\ exp_barrier ex_spec "a" = JNull
  /\ exp_retry ex_spec ex_rt "c" = JDict [("when", JStr "<% ctx().x %>"); ("count", JInt 3)]
  /\ exp_retry ex_spec ex_rt "b" = JDict [("when", JNull); ("count", JInt 2); ("delay", JNull)]
  /\ Forall (attrs_ok ex_spec ex_rt) (g_nodes ex_graph).
Proof.
  repeat (split; [vm_compute; reflexivity|]). apply Forall_forall.
  exact (C14_attributes_exact _ _ _ _ ex_compose).
Qed.

(* [F] (e) the retry policy of C14_attributes_exact read off the transitions in declaration order
   (the name sort of get_next_tasks is stable): the last retry command -- highest transition index,
   last position in its do list -- overrides the declared retry spec.
     retry_upd acc (d, cond, i) := if d = "retry" then retry_cmd cond else acc *)
Theorem C14_retry_policy : forall sp rt t,
  exp_retry sp rt t =
  fold_left retry_upd (spec_next_tasks sp t) (match aget String.eqb t rt with Some r => r | None => JNull end).
Proof. exact exp_retry_unsorted. Qed.
Print Assumptions C14_retry_policy.
Example ex_C14_retry_policy :
  filter (fun x => String.eqb (nt_name x) "retry") (spec_next_tasks ex_spec "c")
  = [("retry", JStr "<% failed() %>", 0); ("retry", JStr "<% ctx().x %>", 2)]
  /\ exp_retry ex_spec ex_rt "c" = retry_cmd (JStr "<% ctx().x %>").
Proof. split; vm_compute; reflexivity. Qed.

(* [F] the composed graph does not depend on the order in which the tasks are declared (task names
   unique, as in a Python dict) *)
Theorem C14_declaration_order : forall sp1 sp2 rt fuel,
  Permutation (wf_tasks sp1) (wf_tasks sp2) -> NoDup (map fst (wf_tasks sp1)) ->
  compose sp1 rt fuel = compose sp2 rt fuel.
Proof. exact declaration_order. Qed.
Print Assumptions C14_declaration_order.
Example ex_C14_declaration_order :
  map fst (wf_tasks ex_spec) = ["j"; "c"; "s"; "b"; "u"; "v"; "a"]
  /\ map fst (wf_tasks ex_spec_sorted) = ["a"; "b"; "c"; "j"; "s"; "u"; "v"]
  /\ compose ex_spec_sorted ex_rt 20 = Val ex_graph.
Proof. repeat split; vm_compute; reflexivity. Qed.

(* [F] persistence (typed serialize / deserialize of any graph): the restored graph has the same node
   list and exactly the same edges -- same source, destination, key, ref and criteria -- provided
   the edge sources are nodes, which C14_edges_sound gives for composed graphs *)
Theorem C14_persist_edges : forall g,
  g_nodes (g_deserialize (g_serialize g)) = g_nodes g /\
  forall e, In e (g_edges (g_deserialize (g_serialize g))) <->
            In e (g_edges g) /\ In (e_src e) (map n_id (g_nodes g)).
Proof. exact persist_edges. Qed.
Print Assumptions C14_persist_edges.
Example ex_C14_persist : g_deserialize (g_serialize ex_graph) = ex_graph.
Proof. vm_compute. reflexivity. Qed.

(* [F] persistence: serialising the restored graph gives the same data again -- node list and, per node,
   the same (destination, key, ref, criteria) entries in the same order -- for every graph with unique
   node ids, in particular (C14_nodes_exact) for every composed graph *)
Theorem C14_serialize_roundtrip : forall g, NoDup (map n_id (g_nodes g)) ->
  g_serialize (g_deserialize (g_serialize g)) = g_serialize g.
Proof. exact serialize_roundtrip. Qed.
Print Assumptions C14_serialize_roundtrip.
Theorem C14_serialize_roundtrip_composed : forall sp rt fuel g, compose sp rt fuel = Val g ->
  g_serialize (g_deserialize (g_serialize g)) = g_serialize g.
Proof. intros sp rt fuel g H. apply serialize_roundtrip. exact (proj1 (nodes_exact sp rt fuel g H)). Qed.
Print Assumptions C14_serialize_roundtrip_composed.
Example ex_C14_serialize_roundtrip :
  map (map a_key) (sg_adj (g_serialize ex_graph)) = [[0; 0]; [0; 1]; [0]; [0]; [0; 0; 1]; []]
  /\ g_serialize (g_deserialize (g_serialize ex_graph)) = g_serialize ex_graph.
Proof. split; [vm_compute; reflexivity|exact (C14_serialize_roundtrip_composed _ _ _ _ ex_compose)]. Qed.

(* [F] fuel.  The breadth-first search of tasks.in_cycle never runs out of its fuel (spec_size + 1
   dequeues; task names unique); when moreover every transition target is an engine command or a
   declared task (what inspect() enforces), the only way compose fails is the worklist's own fuel --
   in particular no KeyError; and the graph does not depend on the fuel once it suffices.
   Termination of the worklist itself (exists fuel, compose sp rt fuel = Val g) is NOT proved. *)
Theorem C14_in_cycle_total : forall sp t, NoDup (map fst (wf_tasks sp)) -> spec_in_cycle sp t <> None.
Proof. exact spec_in_cycle_total. Qed.
Print Assumptions C14_in_cycle_total.
Theorem C14_only_fuel_error : forall sp, NoDup (map fst (wf_tasks sp)) -> targets_defined sp ->
  forall rt fuel e, compose sp rt fuel = Exc e -> e = x_out_of_fuel.
Proof. exact compose_only_fuel_error. Qed.
Print Assumptions C14_only_fuel_error.
Theorem C14_fuel_irrelevant : forall sp rt f1 f2 g1 g2,
  compose sp rt f1 = Val g1 -> compose sp rt f2 = Val g2 -> g1 = g2.
Proof. exact compose_fuel_irrelevant. Qed.
Print Assumptions C14_fuel_irrelevant.
Example ex_C14_fuel :
  compose ex_spec ex_rt 6 = Exc x_out_of_fuel /\ compose ex_spec ex_rt 7 = Val ex_graph
  /\ map (spec_in_cycle ex_spec) ["s"; "a"; "j"; "c"; "u"; "noop"]
     = [Some false; Some true; Some true; Some true; Some true; Some false]
  /\ targets_defined ex_spec /\ NoDup (map fst (wf_tasks ex_spec)).
Proof.
  split; [vm_compute; reflexivity|]. split; [vm_compute; reflexivity|]. split; [vm_compute; reflexivity|].
  split; [exact ex_targets_defined|exact ex_nodup].
Qed.
