(* C14b -- The composer terminates: the C14 theorems without the hypothesis "compose returned Val".
   Proofs and the measure are in proofs/ComposeTermProofs.v (built on the invariants of
   proofs/C14Proofs.v); the model is model/Composer.v.

   composable sp  :=  task names unique  /\  every task reachable from a start task is declared or
                      an engine command.  inspect() guarantees the second part (C14b_inspected_composable,
                      from C15's semantics_nil / accepted_reach_defined); the first is a Python dict.
   compose_fuel sp = (number of start tasks + N) * Wt E N     with N = declared tasks + 4 commands,
                      E = spec_size sp (number of (task, transition, target) triples),
                      Wt E 0 = 1, Wt E (S j) = 1 + E * Wt E j   (about E^N: exponential, as the
                      real worklist is on chains of join stages).
   compose_graph sp rt := the graph compose returns with that fuel.

   Why it terminates (see the header of ComposeTermProofs.v): a task on a cycle is queued only while
   it is not yet a node -- once; a task for which tasks.in_cycle says False is not reachable from
   itself (the breadth-first search of models.py is complete: in_cycle_false_no_cycle), so the chain
   of such tasks through which a queued item was reached never repeats a name.  No accepted
   definition makes the worklist diverge; split tracking only prunes and is not needed for the bound. *)
From Coq Require Import String List Bool ZArith Permutation.
From Orq Require Import GenSpecMeta Base State Composer Inspect C14Proofs C15Proofs ComposeTermProofs.
Import ListNotations.
Open Scope string_scope.

(* [F] totality: with compose_fuel sp dequeues the composer returns a graph, never OutOfFuel (nor any
   other error); any larger fuel returns the same graph; and whatever fuel returns a graph returns
   this one *)
Theorem C14b_compose_total : forall sp rt, composable sp ->
  compose sp rt (compose_fuel sp) = Val (compose_graph sp rt)
  /\ (forall f, compose_fuel sp <= f -> compose sp rt f = Val (compose_graph sp rt))
  /\ (forall f g, compose sp rt f = Val g -> g = compose_graph sp rt).
Proof.
  intros sp rt Hc. split; [apply compose_graph_spec; exact Hc|].
  split; [intros f Hf; apply compose_enough_fuel; assumption|intros f g; apply compose_graph_unique; exact Hc].
Qed.
Print Assumptions C14b_compose_total.

Theorem C14b_compose_fuel : forall sp,
  compose_fuel sp = (length (spec_start_tasks sp) + NN sp) * Wt (spec_size sp) (NN sp).
Proof. exact compose_fuel_eq. Qed.
Print Assumptions C14b_compose_fuel.

(* [F] the two ways to be composable: all targets defined (C14_only_fuel_error's hypothesis), or
   accepted by the semantic inspection (C15) *)
Theorem C14b_targets_defined_composable : forall sp,
  NoDup (map fst (wf_tasks sp)) -> targets_defined sp -> composable sp.
Proof. exact targets_defined_composable. Qed.
Print Assumptions C14b_targets_defined_composable.

Theorem C14b_inspected_composable : forall sp fuel,
  NoDup (map fst (wf_tasks sp)) -> inspect_semantics sp fuel = Val [] -> composable sp.
Proof.
  intros sp fuel Hnd Ha. split; [exact Hnd|].
  destruct (semantics_nil sp fuel Ha) as [_ [_ [H3 _]]]. exact (accepted_reach_defined sp fuel H3).
Qed.
Print Assumptions C14b_inspected_composable.

(* [F] the breadth-first search of tasks.in_cycle is complete: when it answers False the task is
   not reachable from itself *)
Theorem C14b_in_cycle_false_sound : forall sp d, spec_in_cycle sp d = Some false ->
  forall y, link sp d y -> lstar sp y d -> False.
Proof. exact in_cycle_false_no_cycle. Qed.
Print Assumptions C14b_in_cycle_false_sound.

(* ---- the C14 theorems about the graph of every composable definition, no fuel, no hypothesis
        on the outcome ---- *)

Theorem C14b_edges_sound_total : forall sp rt, composable sp ->
  forall e, In e (g_edges (compose_graph sp rt)) ->
    triple_ok sp e /\ In (e_src e) (map n_id (g_nodes (compose_graph sp rt)))
    /\ In (e_dst e) (map n_id (g_nodes (compose_graph sp rt))).
Proof. intros sp rt Hc. exact (edges_sound sp rt _ _ (compose_graph_spec sp rt Hc)). Qed.
Print Assumptions C14b_edges_sound_total.

Theorem C14b_edges_complete_total : forall sp rt, composable sp ->
  forall t d w i, In t (map n_id (g_nodes (compose_graph sp rt))) ->
    In (d, w, i) (spec_next_tasks sp t) -> d <> "retry" ->
    exists e, In e (g_edges (compose_graph sp rt)) /\ e_src e = t /\ e_dst e = d /\ e_ref e = i
              /\ e_criteria e = crta_of w.
Proof. intros sp rt Hc. exact (edges_complete sp rt _ _ (compose_graph_spec sp rt Hc)). Qed.
Print Assumptions C14b_edges_complete_total.

Theorem C14b_nodes_exact_total : forall sp rt, composable sp ->
  NoDup (map n_id (g_nodes (compose_graph sp rt)))
  /\ forall t, In t (map n_id (g_nodes (compose_graph sp rt))) <-> reach sp t.
Proof. intros sp rt Hc. exact (nodes_exact sp rt _ _ (compose_graph_spec sp rt Hc)). Qed.
Print Assumptions C14b_nodes_exact_total.

Theorem C14b_edges_unique_total : forall sp rt, composable sp ->
  NoDup (map (fun e => (e_src e, e_dst e, e_criteria e, e_ref e)) (g_edges (compose_graph sp rt))) /\
  NoDup (map (fun e => (e_src e, e_dst e, e_key e)) (g_edges (compose_graph sp rt))).
Proof. intros sp rt Hc. exact (edges_unique sp rt _ _ (compose_graph_spec sp rt Hc)). Qed.
Print Assumptions C14b_edges_unique_total.

Theorem C14b_edge_keys_dense_total : forall sp rt, composable sp ->
  forall s d, map e_key (filter (edge_between s d) (g_edges (compose_graph sp rt)))
              = seq 0 (length (filter (edge_between s d) (g_edges (compose_graph sp rt)))).
Proof. intros sp rt Hc. exact (edge_keys_dense sp rt _ _ (compose_graph_spec sp rt Hc)). Qed.
Print Assumptions C14b_edge_keys_dense_total.

Theorem C14b_roots_exact_total : forall sp rt, composable sp ->
  forall t, In t (g_roots (compose_graph sp rt)) <-> In t (spec_start_tasks sp).
Proof. intros sp rt Hc. exact (roots_exact sp rt _ _ (compose_graph_spec sp rt Hc)). Qed.
Print Assumptions C14b_roots_exact_total.

Theorem C14b_attributes_exact_total : forall sp rt, composable sp ->
  forall n, In n (g_nodes (compose_graph sp rt)) -> attrs_ok sp rt n.
Proof. intros sp rt Hc. exact (attributes_exact sp rt _ _ (compose_graph_spec sp rt Hc)). Qed.
Print Assumptions C14b_attributes_exact_total.

(* declaration order: both definitions are composable together, get the same fuel-free graph *)
Theorem C14b_declaration_order_total : forall sp1 sp2 rt,
  Permutation (wf_tasks sp1) (wf_tasks sp2) -> composable sp1 ->
  forall f, compose_fuel sp1 <= f -> compose sp2 rt f = Val (compose_graph sp1 rt).
Proof.
  intros sp1 sp2 rt P Hc f Hf. rewrite <- (declaration_order sp1 sp2 rt f P (proj1 Hc)).
  apply compose_enough_fuel; assumption.
Qed.
Print Assumptions C14b_declaration_order_total.

Theorem C14b_serialize_roundtrip_total : forall sp rt, composable sp ->
  g_serialize (g_deserialize (g_serialize (compose_graph sp rt))) = g_serialize (compose_graph sp rt).
Proof.
  intros sp rt Hc. apply serialize_roundtrip. exact (proj1 (nodes_exact sp rt _ _ (compose_graph_spec sp rt Hc))).
Qed.
Print Assumptions C14b_serialize_roundtrip_total.

(* on the concrete definition of C14 (fan-out, join fan-in, parallel edges, a cycle, commands):
   composable, 1 start task, N = 7 + 4 names, E = 15 triples; the fuel-free graph is ex_graph, which
   the model reaches after 7 dequeues (ex_C14_fuel) -- the bound is generous, not tight.
   (never vm_compute a term containing compose_fuel: it is a unary number of the order 15^11) *)
Example ex_C14b :
  composable ex_spec
  /\ length (spec_start_tasks ex_spec) = 1 /\ NN ex_spec = 11 /\ spec_size ex_spec = 15
  /\ compose_graph ex_spec ex_rt = ex_graph
  /\ (forall f, compose_fuel ex_spec <= f -> compose ex_spec ex_rt f = Val ex_graph).
Proof.
  split; [exact ex_composable|].
  split; [vm_compute; reflexivity|]. split; [vm_compute; reflexivity|]. split; [vm_compute; reflexivity|].
  split; [exact ex_compose_graph|]. intros f Hf. rewrite <- ex_compose_graph.
  apply compose_enough_fuel; [exact ex_composable|exact Hf].
Qed.
