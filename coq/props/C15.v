(* C15 -- Accepted definitions are executable; broken references are reported.
   Property theorems only; proofs, invariants and the definitions used in the statements
   (declared, is_command, undef_triple, flat_positions, ex15, ex15_ok, ...) are in proofs/C15Proofs.v,
   the model of the detectors in model/Inspect.v, [reach] is C14's:
     reach sp t : reach_start (t is a start task: a declared task nothing transitions into)
                | reach_step (t' reachable, (t, w, i) a (target, condition, transition index) triple of t',
                              t <> "retry").
   A task that has transitions and is reachable in this sense is reached through declared tasks that
   are not named like a command (undefined names and commands have no transitions), so this is the
   reachability "through defined non-reserved targets" of the property.
     declared sp d := In d (map fst (wf_tasks sp))        is_command d := In d RESERVED_TASK_NAMES
     undef_triple sp t i d := (exists w, In (d, w, i) (spec_next_tasks sp t)) /\ ~ is_command d /\ ~ declared sp d
   [detect_undefined_tasks sp fuel] spends one unit of fuel per dequeued task and returns
   Exc OutOfFuel / Exc KeyError otherwise; C15_undefined_total shows neither happens for unique task
   names and fuel >= number of tasks.
   What is NOT proved here (tested by ./check C15): that the model agrees with the Python detectors;
   the unreachable-join detector and the worklist of the context tracking (modelled and compared,
   no theorem); grammar validation and the regex extraction of variable references (oracles); and the
   absence of KeyError / IndexError / TypeError from the conductor on accepted definitions -- only
   "no evaluation failure escapes" (C11) and "compose fails only by fuel" are theorems. *)
From Coq Require Import String List Bool ZArith Permutation.
From Orq Require Import GenSpecMeta Base State Composer Inspect Conductor Api C11Proofs C14Proofs C15Proofs.
Import ListNotations.
Open Scope string_scope.

(* [F] (a) soundness: every entry the detector reports is a transition i of a task t reachable from a
   start task to a name d that is neither a declared task nor an engine command *)
Theorem C15_undefined_sound : forall sp fuel l, detect_undefined_tasks sp fuel = Val l ->
  forall e, In e l -> exists t i d, e = SE_undefined t i d /\ reach sp t /\ undef_triple sp t i d.
Proof. exact undefined_sound. Qed.
Print Assumptions C15_undefined_sound.

(* [F] (a) completeness: every such transition is reported, with the spec_path
   tasks.<t>.next[<i>].do (entry_path).  Conditional on the detector returning Val (the fuel
   sufficed); no hypothesis on the task names. *)
Theorem C15_undefined_reported : forall sp fuel l, detect_undefined_tasks sp fuel = Val l ->
  forall t d w i, reach sp t -> In (d, w, i) (spec_next_tasks sp t) ->
    ~ is_command d -> ~ declared sp d ->
    In (SE_undefined t i d) l /\
    entry_path (SE_undefined t i d) = append (append "tasks." t) (append ".next[" (append (nat_to_string i) "].do")).
Proof.
  intros sp fuel l H t d w i Hr Hin Hc Hd. split; [exact (undefined_reported sp fuel l H t d w i Hr Hin Hc Hd)|].
  reflexivity.
Qed.
Print Assumptions C15_undefined_reported.

(* [F] (a) with unique task names, fuel >= number of declared tasks always suffices and no lookup
   fails: every task is dequeued at most once *)
Theorem C15_undefined_total : forall sp fuel, NoDup (task_names sp) -> length (wf_tasks sp) <= fuel ->
  exists l, detect_undefined_tasks sp fuel = Val l.
Proof. exact undefined_total. Qed.
Print Assumptions C15_undefined_total.

Example ex_C15_undefined :
  detect_undefined_tasks ex15 8
  = Val [SE_undefined "a" 0 "ghost"; SE_undefined "a" 1 "ghost";
         SE_undefined "j" 0 "phantom"; SE_undefined "j" 0 "phantom"]
  /\ In (SE_undefined "a" 1 "ghost") [SE_undefined "a" 0 "ghost"; SE_undefined "a" 1 "ghost";
                                      SE_undefined "j" 0 "phantom"; SE_undefined "j" 0 "phantom"]
  /\ map entry_path [SE_undefined "a" 1 "ghost"; SE_undefined "j" 0 "phantom"]
     = ["tasks.a.next[1].do"; "tasks.j.next[0].do"]
  /\ length (wf_tasks ex15) = 8
  /\ In ("ghost2", JNull, 0) (spec_next_tasks ex15 "u1").       (* the island's dangling target: not reachable *)
Proof.
  split; [exact ex15_undefined|]. split.
  - refine (proj1 (C15_undefined_reported ex15 8 _ ex15_undefined "a" "ghost" (JStr "<% failed() %>") 1
                     ex15_reach_a _ _ _)).
    + vm_compute. tauto.
    + unfold is_command. vm_compute. intuition discriminate.
    + unfold declared. vm_compute. intuition discriminate.
  - repeat split; vm_compute; tauto.
Qed.

(* [F] (b) a task named like an engine command is reported, and nothing else is *)
Theorem C15_reserved_reported : forall sp e,
  In e (detect_reserved_names sp) <-> exists t, e = SE_reserved t /\ declared sp t /\ is_command t.
Proof. exact reserved_reported. Qed.
Print Assumptions C15_reserved_reported.
Example ex_C15_reserved :
  detect_reserved_names ex15 = [SE_reserved "retry"] /\ entry_path (SE_reserved "retry") = "tasks.retry".
Proof. split; vm_compute; reflexivity. Qed.

(* [F] (b) "no start task" is reported exactly when the task list is non-empty and every declared
   task has an inbound transition; the detector reports nothing else *)
Theorem C15_no_start_reported : forall sp,
  (In SE_no_start (detect_start_tasks sp) <->
   wf_tasks sp <> [] /\ forall t, declared sp t -> spec_prev_count sp t <> 0)
  /\ forall e, In e (detect_start_tasks sp) -> e = SE_no_start.
Proof. exact no_start_reported. Qed.
Print Assumptions C15_no_start_reported.
Example ex_C15_no_start :
  detect_start_tasks ex15_cycle = [SE_no_start] /\ detect_start_tasks ex15 = []
  /\ spec_start_tasks ex15 = ["retry"; "s"] /\ entry_path SE_no_start = "tasks".
Proof. repeat split; vm_compute; reflexivity. Qed.

(* [F] (c) a with-items task without action is reported, and nothing else is *)
Theorem C15_actionless_items_reported : forall sp e,
  In e (detect_actionless_with_items sp) <->
  exists t ts, e = SE_actionless t /\ In (t, ts) (wf_tasks sp) /\ task_has_items ts = true
               /\ truthy (ts_action ts) = false.
Proof. exact actionless_items_reported. Qed.
Print Assumptions C15_actionless_items_reported.
Example ex_C15_actionless : detect_actionless_with_items ex15 = [SE_actionless "w"].
Proof. vm_compute. reflexivity. Qed.

(* [F] what acceptance by the semantic detectors means: no reserved name, a start task (or no task
   at all), every target of every reachable task is an engine command or a declared task, every
   with-items task has an action *)
Theorem C15_semantics_accepted : forall sp fuel, inspect_semantics sp fuel = Val [] ->
  (forall t, declared sp t -> ~ is_command t)
  /\ (wf_tasks sp = [] \/ exists s, In s (spec_start_tasks sp))
  /\ (forall t d w i, reach sp t -> In (d, w, i) (spec_next_tasks sp t) -> is_command d \/ declared sp d)
  /\ (forall t ts, In (t, ts) (wf_tasks sp) -> task_has_items ts = true -> truthy (ts_action ts) = true).
Proof. exact semantics_accepted. Qed.
Print Assumptions C15_semantics_accepted.
Example ex_C15_semantics :
  inspect_semantics ex15_ok 10 = Val []
  /\ (match inspect_semantics_sorted ex15 30 with Val l => map sem_triple l | Exc _ => [] end)
     = [("tasks.retry", "reserved", "retry"); ("tasks.w", "actionless", "");
        ("tasks.a.next[0].do", "undefined", "ghost"); ("tasks.a.next[1].do", "undefined", "ghost");
        ("tasks.j.next[0].do", "undefined", "phantom"); ("tasks.j.next[0].do", "undefined", "phantom")].
Proof. split; vm_compute; reflexivity. Qed.

(* [F] lifted to the whole report: inspect_semantics (all detectors, in detector order) contains the
   entry of every reachable transition to an undefined task, and what inspect() lists under
   "semantics" (sorted by schema path, then spec path) is a permutation of it: sorting loses nothing *)
Theorem C15_inspect_reports_undefined : forall sp fuel l, inspect_semantics sp fuel = Val l ->
  (forall t d w i, reach sp t -> In (d, w, i) (spec_next_tasks sp t) -> ~ is_command d -> ~ declared sp d ->
     In (SE_undefined t i d) l)
  /\ exists l', inspect_semantics_sorted sp fuel = Val l' /\ Permutation l' l.
Proof.
  intros sp fuel l H. split; [exact (semantics_reports_undefined sp fuel l H)|exact (semantics_sorted_perm sp fuel l H)].
Qed.
Print Assumptions C15_inspect_reports_undefined.

(* [P] (d) the rolling context of ONE spec object (the workflow's input / vars / output, the
   properties of a task, of a with or retry spec, of a transition), given the incoming context ctx:
   "variable x is referenced before assignment" is reported at spec_path q exactly when some
   position p with that path references x, x is not in the incoming context, and no earlier position
   (in evaluation order: flat_positions follows the _context_evaluation_sequence) of an assigning
   property (_context_inputs) assigns x.  PARTIAL: which contexts reach a task -- the worklist of
   TaskMappingSpec.inspect_context over the task graph -- is modelled (Inspect.ctx_loop) and compared
   with the implementation but not characterised by a theorem; the references of a position are what
   the regex extraction returns (oracle). *)
Theorem C15_context_straight_line_partial : forall seq inputs props ctx q x,
  In (CE_unassigned q x) (snd (inspect_props seq inputs props ctx)) <->
  exists pre a p post,
    flat_positions seq inputs props = app pre ((a, p) :: post) /\ cp_path p = q /\ In x (cp_refs p)
    /\ ~ In x ctx /\ forall a' p', In (a', p') pre -> a' = true -> ~ In x (cp_keys p').
Proof. exact context_straight_line. Qed.
Print Assumptions C15_context_straight_line_partial.

(* [P] (d) and the context handed on is the incoming one plus what the assigning positions assign *)
Theorem C15_context_assigned_partial : forall seq inputs props ctx x,
  In x (fst (inspect_props seq inputs props ctx)) <->
  In x ctx \/ exists p, In (true, p) (flat_positions seq inputs props) /\ In x (cp_keys p).
Proof. exact context_assigned. Qed.
Print Assumptions C15_context_assigned_partial.
Example ex_C15_context :
  (* when: <% ctx().a and ctx().y %>  publish: [{y: <% ctx().x %>}, {z: <% ctx().y %>}]  with x known:
     a and y are unassigned in the condition (publish comes after it), y is assigned for the second
     publish item *)
  inspect_transition_ctx ex15_props ["x"]
  = (["x"; "y"; "z"], [CE_unassigned "tasks.t.next[0].when" "a"; CE_unassigned "tasks.t.next[0].when" "y"]).
Proof. vm_compute. reflexivity. Qed.

(* [F] the reflected evaluation sequences contain every expression-bearing property in the
   documented order (a condition is inspected before the publish of its transition; retry is
   inspected), publish / input / vars / output assign, and the engine commands are the four reserved
   names.  Regenerated from /repo on every run: a change there breaks this theorem. *)
Theorem C15_positions_covered :
  CTX_SEQ_WorkflowSpec = ["input"; "vars"; "tasks"; "output"]
  /\ CTX_INPUTS_WorkflowSpec = ["input"; "vars"; "output"]
  /\ CTX_SEQ_TaskSpec = ["delay"; "with"; "action"; "input"; "retry"; "next"]
  /\ CTX_INPUTS_TaskSpec = []
  /\ CTX_SEQ_ItemizedSpec = ["items"; "concurrency"] /\ CTX_INPUTS_ItemizedSpec = []
  /\ CTX_SEQ_TaskRetrySpec = ["when"; "count"; "delay"] /\ CTX_INPUTS_TaskRetrySpec = []
  /\ CTX_SEQ_TaskTransitionSpec = ["when"; "publish"; "do"]
  /\ CTX_INPUTS_TaskTransitionSpec = ["publish"]
  /\ (forall c, In c ["continue"; "fail"; "noop"; "retry"] <-> is_command c).
Proof. exact positions_covered. Qed.
Print Assumptions C15_positions_covered.

(* [F] (e) accepted => composable: when the semantic detectors report nothing (and task names are
   unique, as in a Python dict) the composer never fails with a KeyError or an in_cycle fuel error:
   its only possible failure is the fuel of its own worklist.  (C14_only_fuel_error asks for the
   targets of ALL declared tasks to be defined; inspection guarantees it for the reachable ones,
   which is all the composer looks at -- proved here with that weaker hypothesis.) *)
Theorem C15_accepted_composes : forall sp fuel, NoDup (map fst (wf_tasks sp)) ->
  inspect_semantics sp fuel = Val [] ->
  forall rt f e, compose sp rt f = Exc e -> e = x_out_of_fuel.
Proof. exact accepted_composes. Qed.
Print Assumptions C15_accepted_composes.
Example ex_C15_accepted_composes :
  inspect_semantics ex15_ok 10 = Val []
  /\ (forall rt f e, compose ex15_ok rt f = Exc e -> e = x_out_of_fuel)
  /\ (match compose ex15_ok [] 10 with Val g => map n_id (g_nodes g) | Exc _ => [] end) = ["s"; "a"; "b"; "j"; "noop"].
Proof.
  split; [exact ex15_ok_accepted|]. split; [exact (C15_accepted_composes ex15_ok 10 ex15_ok_nodup ex15_ok_accepted)|].
  vm_compute. reflexivity.
Qed.

(* [F] (e) accepted => conducted without an evaluation failure escaping: C11's containment, for every
   definition (accepted or not), evaluator, state and API operation.  The absence of the OTHER
   internal errors (KeyError, IndexError, TypeError, ...) on accepted definitions under
   protocol-conformant histories is TESTED by ./check C15, not proved. *)
Theorem C15_no_evaluation_failure_escapes : forall ev op c c' e,
  api_exec ev op c = (c', Exc e) -> x_expr e = false.
Proof. intros ev op c c' e H. exact (api_contained ev op c c' e H). Qed.
Print Assumptions C15_no_evaluation_failure_escapes.
