(* C15b -- "no internal error": late and unexpected reports are refused or absorbed, never a Python
   error of the engine's own code.  Property theorems only (proofs/NoInternalProofs.v), with the
   classification of malformed calls and the refuting witnesses that fixed its boundary.

   INTERNAL classes (internal_names): KeyError, IndexError, TypeError, ValueError, AttributeError -- every
   class the model raises where the engine has no documented refusal.  DOCUMENTED refusals (not internal):
   InvalidTask, InvalidTaskStateEntry, InvalidEvent, InvalidTaskStatusTransition,
   InvalidWorkflowStatusTransition, WorkflowIsActiveAndNotRerunableError, InvalidTaskRerunRequest.
   OutOfFuel and PersistFailed are model artefacts with their own theorems (C13b, C05).

   SCOPE: serialize, request_workflow_status, get_next_tasks, update_task_state with provider events,
   render_workflow_output, persist.  request_workflow_rerun is OUT of scope: known findings D8 (rerun offers
   an engine command) and C15-rerun-of-inflight (rerun strips a record's status) break the invariant.

   HYPOTHESES besides well-formedness of the state:
   - eval_no_internal ev: evaluation (with the model's recursion over containers) never fails with an internal
     class.  An unhashable key value was the defect W-C (TypeError escaping render_vars / finalize_context on the
     real engine; repaired as D29); what remains behind this hypothesis is the model's limitation to string keys.
   - static_ok sp g (decidable: static_ok_b): every graph task has a spec entry; every edge refers to an
     existing transition of its source; engine commands are inert (no transitions, no retry) and startable.
     A task may have any number of edges to engine commands.
   - per provider call (op_in_scope, decidable: op_in_scope_b / hist_in_scope_b), beside well-formedness of the call:
     cmd_routes_distinct c t route -- the edges of t to engine commands that KEEP the route (the command is no split,
     or the route already carries the transition id) lead to different commands.  Edges that open a route get one
     each, so the commands queued by one completion are different (task, route) keys.  Where the clause fails the
     engine queues the same key twice and the second call raises TypeError (example below; the graph there has more
     edges to the command than the definition has transitions naming it, which the composer never produces). *)
From Coq Require Import String List Bool ZArith.
From Orq Require Import GenStatuses GenEvents GenTables Base State Machines Conductor Api F_tables
  RetryProofs RetryBoundProofs NoInternalProofs.
Import ListNotations.
Open Scope string_scope.

(* [F] (1) the invariant holds of a fresh conductor once its lazy state exists (whether or not rendering the
   inputs failed, and even if the evaluator raised) *)
Theorem C15_fresh_state_wellformed : forall ev c c1 r,
  c_init c = false -> c_ws c = empty_ws -> ensure_ws ev c = (c1, r) -> WF c1.
Proof. exact fresh_wf. Qed.
Print Assumptions C15_fresh_state_wellformed.

(* [F] (2)+(3) one API call: from a well-formed state, an in-scope operation that is not malformed leaves the
   state well-formed -- also when it raises -- and raises no internal class *)
Theorem C15_no_internal_error : forall ev, eval_no_internal ev -> forall op c c' r,
  WF c -> static_ok (c_spec c) (c_graph c) -> op_in_scope c op -> api_exec ev op c = (c', r) ->
  WF c' /\ static_ok (c_spec c') (c_graph c') /\ (forall x, r = Exc x -> ~ internal_cls x).
Proof. exact api_exec_wf. Qed.
Print Assumptions C15_no_internal_error.

(* [F] histories *)
Theorem C15_no_internal_error_history : forall ev, eval_no_internal ev -> forall ops c,
  WF c -> static_ok (c_spec c) (c_graph c) -> hist_in_scope ev ops c ->
  no_internal_run ev ops c /\ WF (run_ops ev ops c) /\
  static_ok (c_spec (run_ops ev ops c)) (c_graph (run_ops ev ops c)).
Proof. exact run_ops_no_internal. Qed.
Print Assumptions C15_no_internal_error_history.

(* [F] update_task_state alone *)
Theorem C15_update_task_state_no_internal : forall ev, eval_no_internal ev -> forall t route evt c c' r,
  WF c -> static_ok (c_spec c) (c_graph c) -> provider_event evt = true -> wellformed_call_b c t route evt = true ->
  cmd_routes_distinct c t route ->
  update_task_state ev t route evt c = (c', r) -> WF c' /\ (forall x, r = Exc x -> ~ internal_cls x).
Proof. exact update_task_state_wf. Qed.
Print Assumptions C15_update_task_state_no_internal.

(* [F] the operations that need nothing of the state *)
Theorem C15_get_next_tasks_no_internal : forall ev, eval_no_internal ev ->
  forall c c' e, get_next_tasks ev c = (c', Exc e) -> ~ internal_cls e.
Proof. exact ni_get_next_tasks. Qed.
Theorem C15_request_status_no_internal : forall ev, eval_no_internal ev ->
  forall st c c' e, request_workflow_status ev st c = (c', Exc e) -> ~ internal_cls e.
Proof. exact ni_request_workflow_status. Qed.
Theorem C15_render_output_no_internal : forall ev, eval_no_internal ev ->
  forall c c' x, WF c -> render_workflow_output ev c = (c', Exc x) -> ~ internal_cls x.
Proof. exact render_workflow_output_ni. Qed.
Print Assumptions C15_get_next_tasks_no_internal.
Print Assumptions C15_request_status_no_internal.
Print Assumptions C15_render_output_no_internal.

(* [F] the decidable forms are sound *)
Theorem C15_static_ok_decidable : forall sp g, static_ok_b sp g = true -> static_ok sp g.
Proof. exact static_ok_b_sound. Qed.
Theorem C15_WF_decidable : forall c, WF_b c = true -> WF c.
Proof. exact WF_b_sound. Qed.
Theorem C15_history_decidable : forall ev ops c, hist_in_scope_b ev ops c = true -> hist_in_scope ev ops c.
Proof. exact hist_in_scope_b_sound. Qed.
Theorem C15_cmd_routes_distinct_decidable : forall c t route,
  cmd_routes_distinct_b c t route = true -> cmd_routes_distinct c t route.
Proof. exact cmd_routes_distinct_b_sound. Qed.
Theorem C15_evaluator_sufficient : forall ev,
  (forall s ctx e, ev s ctx = EvErr e -> ~ internal_cls e) ->
  (forall s ctx v, ev s ctx = EvOk v -> match v with JStr _ | JList _ | JDict _ => True | _ => False end) ->
  eval_no_internal ev.
Proof. exact eval_no_internal_of. Qed.
Print Assumptions C15_static_ok_decidable.
Print Assumptions C15_WF_decidable.
Print Assumptions C15_history_decidable.
Print Assumptions C15_cmd_routes_distinct_decidable.
Print Assumptions C15_evaluator_sufficient.

(* ------------------------------------------------------------------ examples: the theorem is not vacuous,
   and each clause of "malformed" is there because the engine really breaks without it *)

Module C15bExamples.

(* t1: with-items over two items, retry count 1, then noop; t2: a plain task beside it *)
Definition ev_toy (s : string) (ctx : dict) : evalres :=
  if String.eqb s "<% ctx().xs %>" then EvOk (JList [JStr "a"; JStr "b"]) else EvOk (JStr s).
Definition items_spec : task_spec :=
  {| ts_action := JStr "core.echo"; ts_input := JDict [];
     ts_with := Some {| it_expr := "<% ctx().xs %>"; it_keys := None; it_concurrency := JNull |};
     ts_delay := JNull; ts_join := JNull; ts_next := [{| tr_when := JNull; tr_publish := []; tr_do := ["noop"] |}] |}.
Definition plain_spec : task_spec :=
  {| ts_action := JStr "core.noop"; ts_input := JDict []; ts_with := None; ts_delay := JNull; ts_join := JNull; ts_next := [] |}.
Definition spec2 : wf_spec :=
  {| wf_input := []; wf_vars := []; wf_output := []; wf_tasks := [("t1", items_spec); ("t2", plain_spec)] |}.
Definition node n r := {| n_id := n; n_barrier := JNull; n_splits := None; n_retry := r |}.
Definition graph2 : graph :=
  {| g_nodes := [node "t1" (JDict [("count", JInt 1)]); node "t2" JNull; node "noop" JNull];
     g_edges := [{| e_src := "t1"; e_dst := "noop"; e_key := 0; e_ref := 0; e_criteria := [] |}] |}.
Definition c0 : cstate :=
  {| c_spec := spec2; c_graph := graph2; c_inputs := []; c_parent := []; c_init := false; c_ws := empty_ws;
     c_errors := []; c_log := []; c_output := None |}.
Definition boot : cstate := fst (ensure_ws ev_toy c0).

Definition it i st := OpEvent "t1" 0 (EvItem i st JNull (JList [])).
Definition act t st := OpEvent t 0 (EvAction st JNull).
Definition view (c : cstate) :=
  (wstatus (c_ws c),
   map (fun r => (r_id r, r_status r, match r_retry r with Some rr => Some (rr_tally rr) | None => None end)) (sequence (c_ws c))).
Definition cls (r : result api_result) : string := match r with Exc e => x_cls e | Val _ => "" end.

Example ev_toy_ok : eval_no_internal ev_toy.
Proof.
  apply eval_no_internal_of; intros s ctx x H; unfold ev_toy in H; destruct (String.eqb s "<% ctx().xs %>"); inversion H; exact I.
Qed.
Example static2 : static_ok (c_spec boot) (c_graph boot).
Proof. apply static_ok_b_sound; vm_compute; reflexivity. Qed.
Example boot_wf : WF boot.
Proof. apply (C15_fresh_state_wellformed ev_toy c0 boot (snd (ensure_ws ev_toy c0))); reflexivity. Qed.

(* a history with everything in it: both items acknowledged, one fails -> the task fails and is retried (re-entry),
   the second attempt receives a duplicate success and a late failure for item 1, the plain task beside it runs,
   the retried task fails for good, the transition queues noop (engine command), a late `pending` report of item 0
   arrives after the end, the output is rendered, the conductor is persisted *)
Definition good : list api_op :=
  [OpRequest S_RUNNING; OpGetNext; it 0 S_RUNNING; it 1 S_RUNNING; act "t2" S_RUNNING; it 0 S_SUCCEEDED; it 1 S_FAILED;
   OpGetNext; it 0 S_RUNNING; it 1 S_RUNNING; it 1 S_SUCCEEDED; it 1 S_FAILED; it 0 S_SUCCEEDED; act "t2" S_SUCCEEDED;
   it 0 S_PENDING; OpRender; OpPersist].

Example good_in_scope : hist_in_scope ev_toy good boot.
Proof. apply hist_in_scope_b_sound; vm_compute; reflexivity. Qed.

Example good_run :
  view (run_ops ev_toy good boot)
  = (S_SUCCEEDED, [("t1", Some S_FAILED, Some 1); ("t2", Some S_SUCCEEDED, None); ("noop", Some S_SUCCEEDED, None)]) /\
  no_internal_run ev_toy good boot /\ WF (run_ops ev_toy good boot).
Proof.
  split; [vm_compute; reflexivity|].
  destruct (C15_no_internal_error_history ev_toy ev_toy_ok good boot boot_wf static2 good_in_scope) as [A [B _]]. split; assumption.
Qed.

(* ---- the malformed clauses, each with the engine's answer when it is violated ---- *)

Definition polled : cstate := run_ops ev_toy [OpRequest S_RUNNING; OpGetNext] boot.
Definition unpolled : cstate := run_ops ev_toy [OpRequest S_RUNNING] boot.

(* M4 (witness W-A, real engine: KeyError 'status' at conducting.py:1144): the first report for a staged task is a
   completion -- there is no record with a status yet and "action_succeeded" is not accepted from "no status" *)
Example completion_before_start_refuted :
  WF polled /\ wellformed_call_b polled "t2" 0 (EvAction S_SUCCEEDED JNull) = false /\
  cls (snd (api_exec ev_toy (act "t2" S_SUCCEEDED) polled)) = "KeyError".
Proof. split; [apply WF_b_sound; vm_compute; reflexivity|split; vm_compute; reflexivity]. Qed.

(* M2: an item index outside the items table (IndexError; the caller's fault) *)
Example item_index_out_of_range_refuted :
  wellformed_call_b polled "t1" 0 (EvItem 2 S_RUNNING JNull JNull) = false /\
  cls (snd (api_exec ev_toy (it 2 S_RUNNING) polled)) = "IndexError".
Proof. split; vm_compute; reflexivity. Qed.

(* M3 (witness W8, real engine: TypeError at conducting.py:976): a plain action event for a with-items task that
   has not been offered yet unstages it; when the task then abends the engine wants to flag the staged entry *)
Example plain_event_on_unoffered_items_task_refuted :
  wellformed_call_b unpolled "t1" 0 (EvAction S_RUNNING JNull) = false /\
  cls (snd (api_exec ev_toy (act "t1" S_RUNNING) unpolled)) = "" /\
  cls (snd (api_exec ev_toy (act "t1" S_FAILED) (run_ops ev_toy [act "t1" S_RUNNING] unpolled))) = "TypeError".
Proof. split; [vm_compute; reflexivity|split; vm_compute; reflexivity]. Qed.

(* M5: the state the previous call leaves behind -- a with-items task that is running and not staged -- is one in
   which an abending report is malformed *)
Example abend_of_unstaged_items_task_is_malformed :
  wellformed_call_b (run_ops ev_toy [act "t1" S_RUNNING] unpolled) "t1" 0 (EvAction S_FAILED JNull) = false.
Proof. vm_compute; reflexivity. Qed.

(* M1: a provider event addressed to an engine command (never offered; TypeError at conducting.py:880) *)
Example event_for_engine_command_refuted :
  wellformed_call_b (run_ops ev_toy good boot) "noop" 0 (EvAction S_RUNNING JNull) = false /\
  cls (snd (api_exec ev_toy (act "noop" S_RUNNING) (run_ops ev_toy good boot))) = "TypeError".
Proof. split; vm_compute; reflexivity. Qed.

(* the late `pending` item report after the with-items task failed (witness W-D: KeyError 'status' on the engine
   before D30's `not staged_task["completed"]`) is now absorbed: it is in scope above (good) and changes nothing *)
Example late_pending_report_absorbed :
  let c := run_ops ev_toy (firstn 14 good) boot in
  wellformed_call_b c "t1" 0 (EvItem 0 S_PENDING JNull (JList [])) = true /\
  view (fst (api_exec ev_toy (it 0 S_PENDING) c)) = view c /\ cls (snd (api_exec ev_toy (it 0 S_PENDING) c)) = "".
Proof. cbv zeta. split; [vm_compute; reflexivity|split; vm_compute; reflexivity]. Qed.

(* ---- several transitions of one task to engine commands ---- *)

(* t1 fails the workflow by two transitions and has a third to noop: `fail` is named twice, so it is a split and
   each edge opens a route; three commands are queued by the one completion, on routes 1, 2 and 0 *)
Definition mk (sp : wf_spec) (g : graph) : cstate :=
  {| c_spec := sp; c_graph := g; c_inputs := []; c_parent := []; c_init := false; c_ws := empty_ws;
     c_errors := []; c_log := []; c_output := None |}.
Definition tr d := {| tr_when := JNull; tr_publish := []; tr_do := [d] |}.
Definition cmds_spec (nxt : list transition_spec) : wf_spec :=
  {| wf_input := []; wf_vars := []; wf_output := [];
     wf_tasks := [("t1", {| ts_action := JStr "core.noop"; ts_input := JDict []; ts_with := None; ts_delay := JNull;
                            ts_join := JNull; ts_next := nxt |})] |}.
Definition edge d k r := {| e_src := "t1"; e_dst := d; e_key := k; e_ref := r; e_criteria := [] |}.
Definition graph3 : graph :=
  {| g_nodes := [node "t1" JNull; node "fail" JNull; node "noop" JNull];
     g_edges := [edge "fail" 0 0; edge "fail" 1 1; edge "noop" 0 2] |}.
Definition boot3 : cstate := fst (ensure_ws ev_toy (mk (cmds_spec [tr "fail"; tr "fail"; tr "noop"]) graph3)).
Definition h3 : list api_op := [OpRequest S_RUNNING; OpGetNext; act "t1" S_RUNNING; act "t1" S_SUCCEEDED; OpRender].

Example three_commands_in_scope :
  static_ok (c_spec boot3) (c_graph boot3) /\ WF boot3 /\ hist_in_scope ev_toy h3 boot3.
Proof.
  split; [apply static_ok_b_sound; vm_compute; reflexivity|].
  split; [apply WF_b_sound; vm_compute; reflexivity|apply hist_in_scope_b_sound; vm_compute; reflexivity].
Qed.
Example three_commands_run :
  (wstatus (c_ws (run_ops ev_toy h3 boot3)),
   map (fun r => (r_id r, r_route r, r_status r)) (sequence (c_ws (run_ops ev_toy h3 boot3))),
   routes (c_ws (run_ops ev_toy h3 boot3)))
  = (S_FAILED,
     [("t1", 0, Some S_SUCCEEDED); ("fail", 1, Some S_FAILED); ("fail", 2, Some S_FAILED); ("noop", 0, Some S_SUCCEEDED)],
     [[]; [("t1", 0)]; [("t1", 1)]]) /\
  no_internal_run ev_toy h3 boot3.
Proof.
  split; [vm_compute; reflexivity|].
  destruct three_commands_in_scope as [A [B C]].
  destruct (C15_no_internal_error_history ev_toy ev_toy_ok h3 boot3 B A C) as [D _]. exact D.
Qed.

(* the clause is needed: one transition named in the definition (so `fail` is no split) but two edges in the graph
   -- both keep route 0, ("fail", 0) is queued twice, and the second call finds nothing staged *)
Definition graph4 : graph :=
  {| g_nodes := [node "t1" JNull; node "fail" JNull]; g_edges := [edge "fail" 0 0; edge "fail" 1 0] |}.
Definition c4 : cstate :=
  run_ops ev_toy [OpRequest S_RUNNING; OpGetNext; act "t1" S_RUNNING] (fst (ensure_ws ev_toy (mk (cmds_spec [tr "fail"]) graph4))).
Example same_command_same_route_refuted :
  static_ok (c_spec c4) (c_graph c4) /\ WF c4 /\ wellformed_call_b c4 "t1" 0 (EvAction S_SUCCEEDED JNull) = true /\
  cmd_routes_distinct_b c4 "t1" 0 = false /\
  cls (snd (api_exec ev_toy (act "t1" S_SUCCEEDED) c4)) = "TypeError".
Proof.
  split; [apply static_ok_b_sound; vm_compute; reflexivity|]. split; [apply WF_b_sound; vm_compute; reflexivity|].
  split; [vm_compute; reflexivity|]. split; vm_compute; reflexivity.
Qed.

(* the evaluator hypothesis marks the model's limitation to string keys: a key expression answering a number *)
Definition ev_numkey (s : string) (ctx : dict) : evalres := if String.eqb s "<% 1 %>" then EvOk (JInt 1) else EvOk (JStr s).
Example numeric_key_is_outside_the_model : ~ eval_no_internal ev_numkey.
Proof.
  intro H. apply (H (JDict [("<% 1 %>", JNull)]) [] boot boot (mkexn "TypeError" "unsupported dictionary key produced by expression")).
  - vm_compute; reflexivity.
  - vm_compute; reflexivity.
Qed.

End C15bExamples.
