(* C16 -- Values flow through unchanged; evaluation is pure; internals stay hidden.
   Property theorems only; proofs are in proofs/C16Proofs.v.  What YAQL, Jinja, ujson and str() do
   to a value is not in the model (expression evaluation is the oracle [ev]); that part is tied by
   the differential test harness/props/c16.py on the real code. *)
From Coq Require Import String List Bool ZArith.
From Orq Require Import GenStatuses Base State Machines Conductor C16Proofs.
Import ListNotations.
Import C16Examples.
Open Scope string_scope.

(* ------------------------------------------------------------------ (a) merge_dicts, exactly *)

(* [F] lookup in the merged dict (right operand with unique keys, as every Python dict) *)
Theorem C16_merge_lookup : forall r l k, NoDup (keys r) ->
  dget k (merge_dicts l r) =
  match dget k r with
  | None => dget k l
  | Some v => match dget k l with Some lv => Some (merge_json lv v) | None => Some v end
  end.
Proof. exact dget_merge_dicts. Qed.
Print Assumptions C16_merge_lookup.

(* [F] non-dict values REPLACE, never merge *)
Theorem C16_merge_replace : forall l r, is_jdict r = false \/ is_jdict l = false -> merge_json l r = r.
Proof. exact merge_json_replace. Qed.
Print Assumptions C16_merge_replace.

(* [F] two dicts merge by the same loop, recursively *)
Theorem C16_merge_dicts_rec : forall r l, merge_json (JDict l) (JDict r) = JDict (merge_dicts l r).
Proof. exact merge_json_dicts_rec. Qed.
Print Assumptions C16_merge_dicts_rec.

(* [F] key order: left keys first in their order, then the new right keys in their order *)
Theorem C16_merge_key_order : forall r l, NoDup (keys r) ->
  keys (merge_dicts l r) = app (keys l) (filter (fun k => negb (dhas k l)) (keys r)).
Proof. exact keys_merge_dicts. Qed.
Print Assumptions C16_merge_key_order.

Theorem C16_merge_nil_r : forall l, merge_dicts l [] = l.
Proof. exact merge_dicts_nil_r. Qed.
Print Assumptions C16_merge_nil_r.

Theorem C16_merge_nil_l : forall r, NoDup (keys r) -> merge_dicts [] r = r.
Proof. exact merge_dicts_nil_l. Qed.
Print Assumptions C16_merge_nil_l.

Theorem C16_merge_disjoint : forall r l, NoDup (app (keys l) (keys r)) -> merge_dicts l r = app l r.
Proof. exact merge_dicts_disjoint. Qed.
Print Assumptions C16_merge_disjoint.

(* [F] key uniqueness is preserved (whatever the right operand) *)
Theorem C16_merge_keys_unique : forall r l, NoDup (keys l) -> NoDup (keys (merge_dicts l r)).
Proof. exact NoDup_keys_merge_dicts. Qed.
Print Assumptions C16_merge_keys_unique.

Example C16_ex_merge :
  merge_dicts [("w", JDict [("a", JInt 1); ("n", JDict [("x", JInt 1)])]); ("e", JDict [("k", JInt 1)]); ("s", zoo)]
              [("w", JDict [("b", JInt 2); ("n", JDict [("y", JInt 2)])]); ("e", JDict []); ("new", zoo); ("s", JStr "1")]
  = [("w", JDict [("a", JInt 1); ("n", JDict [("x", JInt 1); ("y", JInt 2)]); ("b", JInt 2)]);
     ("e", JDict [("k", JInt 1)]); ("s", JStr "1"); ("new", zoo)].
Proof. exact ex_merge. Qed.

Example C16_ex_merge_replace : merge_json zoo (JStr "1") = JStr "1" /\ merge_json (JInt 1) zoo = zoo
                               /\ merge_json (JList [zoo]) (JList []) = JList [].
Proof. exact ex_merge_replace. Qed.

(* ------------------------------------------------------ (b) literals pass through evaluate *)

(* [F] for every oracle that returns delimiter-free strings as they are, every JSON value none of
   whose strings (dict keys included) carries a delimiter, with unique keys in every dict, is
   returned by expr_base.evaluate unchanged in type and value, and the state is untouched *)
Theorem C16_evaluate_identity : forall ev,
  (forall s ctx, no_expr s = true -> ev s ctx = EvOk (JStr s)) ->
  forall v ctx c, literal v = true -> evaluate ev v ctx c = (c, Val v).
Proof. exact evaluate_identity. Qed.
Print Assumptions C16_evaluate_identity.

Example C16_ex_zoo_literal :
  literal zoo = true /\ no_expr "<% ctx().v %>" = false /\ no_expr "{{ ctx().v }}" = false.
Proof. exact ex_zoo_literal. Qed.

Example C16_ex_evaluate_identity : evaluate ev_toy zoo [("v", JInt 0)] c0 = (c0, Val zoo).
Proof. exact ex_evaluate_identity. Qed.

Example C16_ex_evaluate_reference :
  evaluate ev_toy (JDict [("x", JStr "<% ctx().v %>"); ("l", JList [JStr "<% ctx().v %>"; JStr "%s"])]) [("v", zoo)] c0
  = (c0, Val (JDict [("x", zoo); ("l", JList [zoo; JStr "%s"])])).
Proof. exact ex_evaluate_reference. Qed.

(* ------------------------------------------------------------------ (c) evaluation is pure *)

(* [F] evaluate never changes the conductor state, whatever the oracle returns or raises *)
Theorem C16_evaluate_pure : forall ev stmt ctx c, fst (evaluate ev stmt ctx c) = c.
Proof. exact evaluate_state_unchanged. Qed.
Print Assumptions C16_evaluate_pure.

(* [F] the context reaches the oracle as given: evaluate depends on the oracle only through its
   values at that very context (trivial in Gallina: values are immutable, the recursion passes
   ctx down unchanged; that the REAL evaluators do not mutate their argument is tested) *)
Theorem C16_evaluate_ctx_unchanged : forall ev ev' stmt ctx,
  (forall s, ev s ctx = ev' s ctx) -> forall c, evaluate ev stmt ctx c = evaluate ev' stmt ctx c.
Proof. exact evaluate_ctx_unchanged. Qed.
Print Assumptions C16_evaluate_ctx_unchanged.

(* --------------------------------------------------------------------------- (d) data path *)

(* [F] render_input stores every literal (runtime or default) value as it is *)
Theorem C16_render_input_literal : forall ev, ev_literal_ok ev -> forall specs runtime rolling errs c,
  all_literal (input_values specs runtime) = true ->
  render_input ev specs runtime rolling errs c = (c, Val (set_all (input_values specs runtime) rolling, errs)).
Proof. exact render_input_literal. Qed.
Print Assumptions C16_render_input_literal.

(* [F] workflow input -> contexts[0]: the lazily created workflow state gets exactly one new context *)
Theorem C16_ensure_ws_literal : forall ev, ev_literal_ok ev -> forall c, c_init c = false ->
  all_literal (input_values (wf_input (c_spec c)) (c_inputs c)) = true ->
  all_literal (wf_vars (c_spec c)) = true ->
  status_in (wstatus (c_ws c)) ABENDED_STATUSES = false ->
  exists c', ensure_ws ev c = (c', Val tt)
             /\ contexts (c_ws c') = app (contexts (c_ws c)) [init_ctx_of c].
Proof. exact ensure_ws_literal. Qed.
Print Assumptions C16_ensure_ws_literal.

(* [F] ... in which the input value is found unchanged under its name (a dict over a dict of the
   parent context is merged, see C16_merge_lookup: that case is excluded by the last hypothesis) *)
Theorem C16_init_ctx_holds_input : forall c n v,
  NoDup (map fst (wf_input (c_spec c))) -> NoDup (keys (c_parent c)) ->
  In (n, v) (input_values (wf_input (c_spec c)) (c_inputs c)) ->
  ~ In n (map fst (wf_vars (c_spec c))) ->
  (is_jdict v = false \/ forall pv, dget n (c_parent c) = Some pv -> is_jdict pv = false) ->
  dget n (init_ctx_of c) = Some v.
Proof. exact init_ctx_holds_input. Qed.
Print Assumptions C16_init_ctx_holds_input.

(* [F] contexts -> task context *)
Theorem C16_task_context_of_initial : forall ctxs d, nth_error ctxs 0 = Some d -> NoDup (keys d) ->
  get_task_context_from ctxs [0] [] = Val d.
Proof. exact task_context_of_initial. Qed.
Print Assumptions C16_task_context_of_initial.

Theorem C16_later_context_wins : forall ctxs i d0 di n v,
  nth_error ctxs 0 = Some d0 -> nth_error ctxs i = Some di ->
  NoDup (keys d0) -> NoDup (keys di) -> dget n di = Some v ->
  (is_jdict v = false \/ forall pv, dget n d0 = Some pv -> is_jdict pv = false) ->
  exists d, get_task_context_from ctxs [0; i] [] = Val d /\ dget n d = Some v.
Proof. exact later_context_wins. Qed.
Print Assumptions C16_later_context_wins.

Theorem C16_earlier_context_kept : forall ctxs i d0 di n,
  nth_error ctxs 0 = Some d0 -> nth_error ctxs i = Some di ->
  NoDup (keys d0) -> NoDup (keys di) -> dget n di = None ->
  exists d, get_task_context_from ctxs [0; i] [] = Val d /\ dget n d = dget n d0.
Proof. exact earlier_context_kept. Qed.
Print Assumptions C16_earlier_context_kept.

(* [F] publish: a literal lands unchanged in the delta; with unique names the delta IS the list *)
Theorem C16_render_vars_literal : forall ev, ev_literal_ok ev -> forall specs rolling rendered errs c,
  all_literal specs = true ->
  render_vars ev specs rolling rendered errs c = (c, Val (set_all specs rendered, errs)).
Proof. exact render_vars_literal. Qed.
Print Assumptions C16_render_vars_literal.

Theorem C16_publish_literal_delta : forall ev, ev_literal_ok ev -> forall specs rolling c,
  all_literal specs = true -> NoDup (map fst specs) ->
  render_vars ev specs rolling [] [] c = (c, Val (specs, [])).
Proof. exact render_vars_literal_delta. Qed.
Print Assumptions C16_publish_literal_delta.

Theorem C16_finalize_context_literal : forall ev, ev_literal_ok ev -> forall ts e in_ctx tr c,
  nth_error (ts_next ts) (e_ref e) = Some tr -> string_in (e_dst e) (tr_do tr) = true ->
  all_literal (tr_publish tr) = true ->
  finalize_context ev ts e in_ctx c = (c, Val (set_all (tr_publish tr) [], [])).
Proof. exact finalize_context_literal. Qed.
Print Assumptions C16_finalize_context_literal.

(* [F] output: literal outputs are stored unchanged (given the terminal context exists) *)
Theorem C16_render_output_literal : forall ev, ev_literal_ok ev -> forall c tctx, c_init c = true ->
  status_in (wstatus (c_ws c)) COMPLETED_STATUSES = true -> c_output c = None ->
  get_workflow_terminal_context c = (c, Val tctx) ->
  all_literal (wf_output (c_spec c)) = true ->
  render_workflow_output ev c =
  (match set_all (wf_output (c_spec c)) [] with [] => c | o => set_output c (Some o) end, Val tt).
Proof. exact render_output_literal. Qed.
Print Assumptions C16_render_output_literal.

(* [F] composition: runtime input -> contexts[0] -> task context -> the context offered with, and
   evaluated for, every task that reads [0] *)
Theorem C16_input_reaches_first_task : forall ev, ev_literal_ok ev -> forall c n v,
  c_init c = false -> contexts (c_ws c) = [] ->
  all_literal (input_values (wf_input (c_spec c)) (c_inputs c)) = true ->
  all_literal (wf_vars (c_spec c)) = true ->
  status_in (wstatus (c_ws c)) ABENDED_STATUSES = false ->
  NoDup (map fst (wf_input (c_spec c))) -> NoDup (keys (c_parent c)) ->
  In (n, v) (input_values (wf_input (c_spec c)) (c_inputs c)) ->
  ~ In n (map fst (wf_vars (c_spec c))) ->
  (is_jdict v = false \/ forall pv, dget n (c_parent c) = Some pv -> is_jdict pv = false) ->
  n <> "__current_task" -> n <> "__state" ->
  exists c1, ensure_ws ev c = (c1, Val tt)
    /\ nth_error (contexts (c_ws c1)) 0 = Some (init_ctx_of c)
    /\ dget n (init_ctx_of c) = Some v
    /\ get_task_context_from (contexts (c_ws c1)) [0] [] = Val (init_ctx_of c)
    /\ forall s s' c2 o, get_staged_task (c_ws c1) (s_id s) (s_route s) = Some s' -> s_in s' = [0] ->
         next_task_for ev s c1 = (c2, Val (Some o)) -> dget n (o_ctx o) = Some v.
Proof. exact input_reaches_first_task. Qed.
Print Assumptions C16_input_reaches_first_task.

Example C16_ex_input_stored :
  contexts (c_ws (fst (ensure_ws ev_toy c0))) = [[("v", zoo); ("d", zoo); ("lv", zoo)]]
  /\ init_ctx_of c0 = [("v", zoo); ("d", zoo); ("lv", zoo)].
Proof. exact ex_input_stored. Qed.

Example C16_ex_task_context :
  get_task_context_from [[("v", zoo); ("w", JDict [("a", JInt 1)])];
                         [("p", zoo); ("w", JDict [("b", JInt 2)]); ("v", JStr "null")]] [0; 1] []
  = Val [("v", JStr "null"); ("w", JDict [("a", JInt 1); ("b", JInt 2)]); ("p", zoo)].
Proof. exact ex_task_context. Qed.

Example C16_ex_first_offer :
  match (request_workflow_status ev_toy S_RUNNING ;;; get_next_tasks ev_toy)%monad c0 with
  | (_, Val [o]) => (dget "v" (o_ctx o), map a_input (o_actions o),
                     dhas "__current_task" (o_ctx o), dhas "__state" (o_ctx o))
  | _ => (None, [], false, false)
  end = (Some zoo, [JDict [("x", zoo); ("lit", zoo)]], true, true).
Proof. exact ex_first_offer. Qed.

Example C16_ex_finalize :
  finalize_context ev_toy t1_spec {| e_src := "t1"; e_dst := "t2"; e_key := 0; e_ref := 0; e_criteria := [] |}
                   [("v", zoo); ("__current_task", JNull); ("__state", JNull)] c0
  = (c0, Val ([("p", zoo); ("q", zoo)], [])).
Proof. exact ex_finalize. Qed.

Example C16_ex_output : c_output (fst (render_workflow_output ev_toy c_done)) = Some [("o", zoo)].
Proof. exact ex_output. Qed.

(* ------------------------------------------------------------------------- (e) internals *)

(* [F] the context handed to the evaluators for a task (and offered with it) holds the engine's
   internals __current_task and __state; user names are untouched by them *)
Theorem C16_private_task_ctx : forall t route res ctx0 w,
  dget "__current_task" (task_eval_ctx t route res ctx0 w) = Some (current_task_json t route res)
  /\ dhas "__state" (task_eval_ctx t route res ctx0 w) = true.
Proof. exact task_eval_ctx_internals. Qed.
Print Assumptions C16_private_task_ctx.

Theorem C16_task_ctx_user_names : forall t route res ctx0 w k, k <> "__current_task" -> k <> "__state" ->
  dget k (task_eval_ctx t route res ctx0 w) = dget k ctx0.
Proof. exact task_eval_ctx_user. Qed.
Print Assumptions C16_task_ctx_user_names.

Theorem C16_offer_ctx : forall ev s c c' o, next_task_for ev s c = (c', Val (Some o)) ->
  exists c0 ctx0, inbound_ctx_M s c c = (c0, Val ctx0)
                  /\ o_ctx o = task_eval_ctx (s_id s) (s_route s) None ctx0 (c_ws c).
Proof. exact next_task_for_ctx. Qed.
Print Assumptions C16_offer_ctx.

(* [F] for EVERY evaluator: a published delta (render_vars: vars, publish, output) contains only
   published names, and exactly those when no expression failed *)
Theorem C16_private : forall ev specs rolling c c' out errs,
  render_vars ev specs rolling [] [] c = (c', Val (out, errs)) ->
  (forall k, In k (keys out) -> In k (map fst specs))
  /\ (errs = [] -> forall n, In n (map fst specs) -> In n (keys out)).
Proof. exact published_names. Qed.
Print Assumptions C16_private.

(* [F] so no double-underscore name enters the context delta of a transition unless its publish
   names it (the model appends exactly this delta to contexts; conducting.py:1033) *)
Theorem C16_private_delta : forall ev ts e in_ctx c c' new_ctx errs,
  finalize_context ev ts e in_ctx c = (c', Val (new_ctx, errs)) ->
  (forall tr, nth_error (ts_next ts) (e_ref e) = Some tr ->
              forallb (fun n => negb (is_dunder n)) (map fst (tr_publish tr)) = true) ->
  forallb (fun n => negb (is_dunder n)) (keys new_ctx) = true.
Proof. exact no_dunder_published. Qed.
Print Assumptions C16_private_delta.

Example C16_ex_publish :
  render_vars ev_toy [("p", zoo); ("q", JStr "<% ctx().v %>"); ("__mine", JStr "%s"); ("bad", JStr "<% ctx().nope %>")]
              [("v", zoo); ("__state", JDict [("status", JStr "running")])] [] [] c0
  = (c0, Val ([("p", zoo); ("q", zoo); ("__mine", JStr "%s")],
              [{| x_cls := "YaqlEvaluationException"; x_msg := "unresolved"; x_expr := true |}])).
Proof. exact ex_publish. Qed.

Example C16_ex_task_eval_ctx :
  keys (task_eval_ctx "t1" 0 None [("v", zoo); ("w", JInt 1)] empty_ws) = ["v"; "w"; "__current_task"; "__state"]
  /\ dget "v" (task_eval_ctx "t1" 0 None [("v", zoo); ("w", JInt 1)] empty_ws) = Some zoo.
Proof. exact ex_task_eval_ctx. Qed.
