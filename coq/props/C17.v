(* C17 -- Rerun re-executes only what was asked and converges to the clean outcome.
   Property theorems only (proofs/C17Proofs.v). *)
From Coq Require Import String List Bool.
From Orq Require Import GenStatuses Base State Machines Conductor Api C18Proofs C17Proofs.
Import ListNotations.
Open Scope string_scope.

(* [F] admission 1: a rerun request on a workflow that is not completed is refused with an error and
   the conductor state is exactly as before *)
Theorem C17_refused_when_not_completed : forall ev reqs c, c_init c = true ->
  status_in (wstatus (c_ws c)) COMPLETED_STATUSES = false ->
  exists e, request_workflow_rerun ev reqs c = (c, Exc e) /\ x_cls e = "WorkflowIsActiveAndNotRerunableError".
Proof. exact rerun_refused_when_active. Qed.
Print Assumptions C17_refused_when_not_completed.

(* [F] admission 2: a request naming a task execution (task, route) that does not exist is refused with
   an error and the state is exactly as before *)
Theorem C17_refused_for_unknown_execution : forall ev reqs c, c_init c = true ->
  status_in (wstatus (c_ws c)) COMPLETED_STATUSES = true ->
  existsb (fun '(k, _) => negb (ahas tkey_eqb k (tasks (c_ws c)))) (reqs_dict reqs) = true ->
  exists e, request_workflow_rerun ev reqs c = (c, Exc e) /\ x_cls e = "InvalidTaskRerunRequest".
Proof. exact rerun_refused_for_unknown_task. Qed.
Print Assumptions C17_refused_for_unknown_execution.

(* [F] an accepted rerun moves the workflow to resuming and resets the output *)
Theorem C17_accepted_effect : forall ev reqs c c', request_workflow_rerun ev reqs c = (c', Val tt) ->
  wstatus (c_ws c') = S_RESUMING /\ c_output c' = None.
Proof. exact rerun_accepted_effect. Qed.
Print Assumptions C17_accepted_effect.

(* [F] a rerun (accepted or refused) only appends: nothing that had completed is removed or rewritten;
   re-execution shows up as new records *)
Theorem C17_appends_only : forall ev reqs c c' r, request_workflow_rerun ev reqs c = (c', r) -> R18 c c'.
Proof. exact rerun_appends_only. Qed.
Print Assumptions C17_appends_only.

(* NOT PROVED (tested by the twin-run monitor c17): exactly the requested tasks and what follows from
   them are re-executed; convergence to the clean outcome; never stuck after an accepted rerun (refuted
   on the unchanged tree by known findings D8 and D9). *)
