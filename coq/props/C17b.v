(* C17b -- what an accepted rerun does, exactly (on the model; every evaluator).  Property theorems only
   (proofs/RerunProofs.v).  Hypothesis throughout: c_init c = true (the lazy workflow state exists, as after any
   earlier API call); the exact equations for one candidate also say which kind of task it is.
   Vocabulary: [reqs_dict reqs] the request dictionary (later duplicates replace earlier ones, C17Proofs);
   [cand_of w d] the candidates; [rerun_rest] what the engine does once they are known; [cand_keys] the (id, route)
   keys of the candidate records; [outside K s] staged entry s has a key outside K. *)
From Coq Require Import String List Bool ZArith.
From Orq Require Import GenStatuses GenEvents GenTables Base State Machines Conductor Api F_tables C17Proofs C18Proofs
  NoInternalProofs RerunProofs.
Import ListNotations.
Open Scope string_scope.

(* ------------------------------------------------------------------ (a) the candidates *)

(* [F] an accepted rerun was asked of a completed workflow, for existing executions only; its candidates are the
   pure function [cand_of] of the state and the request dictionary, computed without touching the state *)
Theorem C17b_accepted_candidates : forall ev reqs c c', c_init c = true ->
  request_workflow_rerun ev reqs c = (c', Val tt) ->
  status_in (wstatus (c_ws c)) COMPLETED_STATUSES = true /\
  (forall k q, In (k, q) (reqs_dict reqs) -> ahas tkey_eqb k (tasks (c_ws c)) = true) /\
  rerun_rest ev (reqs_dict reqs) (cand_of (c_ws c) (reqs_dict reqs)) c = (c', Val tt).
Proof. exact rerun_accepted_inv. Qed.
Print Assumptions C17b_accepted_candidates.

(* [F] default request (no task named): for each (id, route) key, the LAST record in the history that is flagged
   terminal and has an abended status (failed, expired, abandoned) and that key.  (The pointer map is not consulted
   here; the re-execution itself then goes through the pointer of that key.) *)
Theorem C17b_default_candidates : forall w k i r,
  aget tkey_eqb k (default_cands w) = Some (i, r) <->
  exists L1 L2, get_terminal_tasks w = app L1 ((i, r) :: L2) /\
                ostatus_in (r_status r) ABENDED_STATUSES = true /\ rkey r = k /\
                forall j r', In (j, r') L2 -> ostatus_in (r_status r') ABENDED_STATUSES && tkey_eqb k (rkey r') = false.
Proof. exact default_cand_iff. Qed.
Theorem C17b_terminal_tasks : forall w i r,
  In (i, r) (get_terminal_tasks w) <-> nth_error (sequence w) i = Some r /\ r_term r = true.
Proof. exact terminal_tasks_In. Qed.
Print Assumptions C17b_default_candidates.
Print Assumptions C17b_terminal_tasks.

(* [F] explicit requests: the requested keys that survive collapsing, each with the record its pointer names.
   Collapsing (after the repair of W-R1): a single request always survives; otherwise request k, with sequence s = its
   record and everything downstream of it that already ran, is dropped iff s is a PROPER SUBSET of another request's
   sequence -- whatever other requests there are (Example three_requests_collapsed; before the repair an unrelated
   third request kept the downstream one alive) *)
Theorem C17b_collapsed : forall tasks_d seqs k s, In (k, s) (collapse tasks_d seqs) <->
  In (k, s) seqs /\ (length tasks_d = 1 \/ ~ exists k' s', In (k', s') seqs /\ proper_subset s s').
Proof. exact collapsed_iff. Qed.
Theorem C17b_proper_subset : forall s s', nat_list_proper_subset s s' = true <-> proper_subset s s'.
Proof. exact proper_subset_iff. Qed.
Theorem C17b_explicit_candidates : forall w tasks_d k i r, In (k, (i, r)) (explicit_cands w tasks_d) <->
  exists q, In (k, q) tasks_d /\ ahas tkey_eqb k (collapse tasks_d (seqs_of w tasks_d)) = true /\
            ws_task_idx w (rq_task q) (rq_route q) = Some i /\ nth_error (sequence w) i = Some r.
Proof. exact explicit_cand_iff. Qed.
Print Assumptions C17b_collapsed.
Print Assumptions C17b_proper_subset.
Print Assumptions C17b_explicit_candidates.

(* ------------------------------------------------------------------ (b) one candidate *)

(* [F] a task without retry policy that is not a staged with-items task: the state afterwards is
   [rerun_plain_state]: the old record loses its terminal flag (nothing else), the staged entry of the key (if any)
   its completed flag, the error log EVERY entry carrying the task id (any route, any execution); a record
   [new_rec] (same id, route, inbound contexts, predecessors; no status, no transition decisions, no published
   context, no retry bookkeeping) is appended and the pointer moved to it; a ready staged entry is appended; the
   terminal flag is cleared on every record of the branch downstream of the key.  With a retry policy the new
   record's retry bookkeeping comes from evaluating count/delay (tally 0, C13b); that case is not an equation *)
Theorem C17b_rerun_plain_exact : forall ev t route reset idx r ts c,
  ws_task_idx (c_ws c) t route = Some idx -> nth_error (sequence (c_ws c)) idx = Some r ->
  spec_get_task (c_spec c) t = Some ts ->
  (task_has_items ts = false \/ get_staged_task (c_ws c) t route = None) ->
  g_has_task (c_graph c) t = true -> g_task_has_retry (c_graph c) t = false ->
  request_task_rerun ev t route reset c = (rerun_plain_state t route idx r c, Val tt).
Proof. exact rerun_plain_exact. Qed.
Print Assumptions C17b_rerun_plain_exact.

(* [F] a with-items task whose staged entry is still there (it failed): nothing is appended and no pointer moves;
   in the staged entry the abended items (with reset_items: all items) become unset *)
Theorem C17b_rerun_items_exact : forall ev t route reset idx r ts c s0,
  ws_task_idx (c_ws c) t route = Some idx -> nth_error (sequence (c_ws c)) idx = Some r ->
  spec_get_task (c_spec c) t = Some ts -> task_has_items ts = true -> get_staged_task (c_ws c) t route = Some s0 ->
  request_task_rerun ev t route reset c = (rerun_items_state t route idx reset c, Val tt).
Proof. exact rerun_items_exact. Qed.
Print Assumptions C17b_rerun_items_exact.

(* ------------------------------------------------------------------ (c) nothing else; (d) what is offered next *)

(* [F] contexts and routes, graph and definition are untouched; the rerun log gets exactly one entry, the candidates'
   indices in dictionary order; staged entries whose key is not a candidate's are EXACTLY as before -- including
   whatever the first attempt left staged (stale joins, remediation branches: finding D21 lives here); the status is
   resuming and the output reset.  (Records: C17_appends_only -- id, route, inbound contexts and predecessors of every
   old record are kept and records are only appended; completed records keep every field but the terminal flag,
   C18b.) *)
Theorem C17b_accepted_frame : forall ev reqs c c', c_init c = true -> request_workflow_rerun ev reqs c = (c', Val tt) ->
  let cands := cand_of (c_ws c) (reqs_dict reqs) in
  contexts (c_ws c') = contexts (c_ws c) /\ routes (c_ws c') = routes (c_ws c) /\
  c_graph c' = c_graph c /\ c_spec c' = c_spec c /\ c_init c' = true /\
  reruns (c_ws c') = app (reruns (c_ws c)) [map (fun '(_, (i, _)) => i) cands] /\
  filter (outside (cand_keys cands)) (staged (c_ws c')) = filter (outside (cand_keys cands)) (staged (c_ws c)) /\
  wstatus (c_ws c') = S_RESUMING /\ c_output c' = None.
Proof. exact rerun_accepted_frame. Qed.
Print Assumptions C17b_accepted_frame.

(* [F] the next poll offers only ready, not-completed staged entries, each of a candidate's key or staged before *)
Theorem C17b_offers_after_rerun : forall ev reqs c c' c'' l, c_init c = true ->
  request_workflow_rerun ev reqs c = (c', Val tt) -> get_next_tasks ev c' = (c'', Val l) ->
  forall o, In o l -> exists s, In s (staged (c_ws c')) /\ s_ready s = true /\ s_completed s = false /\
    o_id o = s_id s /\ o_route o = s_route s /\
    (existsb (tkey_eqb (s_id s, s_route s)) (cand_keys (cand_of (c_ws c) (reqs_dict reqs))) = true \/ In s (staged (c_ws c))).
Proof. exact offers_after_rerun. Qed.
Print Assumptions C17b_offers_after_rerun.

(* ------------------------------------------------------------------ (e) finding D9, exact *)

(* [F] a rerun with no candidate is accepted and leaves exactly [empty_rerun_state]: one empty entry in the rerun log,
   terminal flags cleared on continuable records, output reset, status resuming -- nothing staged, nothing appended:
   the workflow is non-terminal with nothing to do *)
Theorem C17b_empty_rerun_accepted : forall ev reqs c, c_init c = true ->
  status_in (wstatus (c_ws c)) COMPLETED_STATUSES = true ->
  (forall k q, In (k, q) (reqs_dict reqs) -> ahas tkey_eqb k (tasks (c_ws c)) = true) ->
  cand_of (c_ws c) (reqs_dict reqs) = [] ->
  request_workflow_rerun ev reqs c = (empty_rerun_state c, Val tt).
Proof. exact empty_rerun_exact. Qed.
Print Assumptions C17b_empty_rerun_accepted.

(* ------------------------------------------------------------------ examples *)

Module C17bExamples.

Definition ev_lit (s : string) (ctx : dict) : evalres := EvOk (JStr s).
Definition plain nxt : task_spec :=
  {| ts_action := JStr "core.noop"; ts_input := JDict []; ts_with := None; ts_delay := JNull; ts_join := JNull; ts_next := nxt |}.
Definition tr d := {| tr_when := JNull; tr_publish := []; tr_do := d |}.
Definition node n := {| n_id := n; n_barrier := JNull; n_splits := None; n_retry := JNull |}.
Definition edge s d k := {| e_src := s; e_dst := d; e_key := k; e_ref := 0; e_criteria := [] |}.
Definition mk sp g : cstate :=
  {| c_spec := sp; c_graph := g; c_inputs := []; c_parent := []; c_init := false; c_ws := empty_ws;
     c_errors := []; c_log := []; c_output := None |}.
Definition act t st := OpEvent t 0 (EvAction st JNull).
Definition rq t := {| rq_task := t; rq_route := 0; rq_reset_items := false |}.
Definition view (c : cstate) :=
  (wstatus (c_ws c), map (fun r => (r_id r, r_status r, r_term r)) (sequence (c_ws c)),
   map (fun s => (s_id s, s_ready s)) (staged (c_ws c)), tasks (c_ws c), reruns (c_ws c)).
Definition keys (l : list cand) := map (fun '(k, (i, _)) => (k, i)) l.
Definition offered (r : result api_result) : list string := match r with Val (ROffers l) => map o_id l | _ => [] end.

(* a fork: t0 -> a, b; a failed terminally, b succeeded.  Default rerun: the candidate is a (record 1); a new record
   for a is appended, the pointer moves to it, a is staged ready and is the only offer; b is not repeated *)
Definition spec_f := {| wf_input := []; wf_vars := []; wf_output := [];
                        wf_tasks := [("t0", plain [tr ["a"; "b"]]); ("a", plain []); ("b", plain [])] |}.
Definition graph_f := {| g_nodes := [node "t0"; node "a"; node "b"]; g_edges := [edge "t0" "a" 0; edge "t0" "b" 0] |}.
Definition cf := run_ops ev_lit [OpRequest S_RUNNING; OpGetNext; act "t0" S_RUNNING; act "t0" S_SUCCEEDED; OpGetNext;
                                 act "a" S_RUNNING; act "b" S_RUNNING; act "a" S_FAILED; act "b" S_SUCCEEDED] (mk spec_f graph_f).
Example fork_default_rerun :
  view cf = (S_FAILED, [("t0", Some S_SUCCEEDED, false); ("a", Some S_FAILED, true); ("b", Some S_SUCCEEDED, true)], [],
             [(("t0", 0), 0); (("a", 0), 1); (("b", 0), 2)], []) /\
  keys (cand_of (c_ws cf) (reqs_dict [])) = [(("a", 0), 1)] /\
  view (run_ops ev_lit [OpRerun []] cf)
  = (S_RESUMING, [("t0", Some S_SUCCEEDED, false); ("a", Some S_FAILED, false); ("b", Some S_SUCCEEDED, true); ("a", None, false)],
     [("a", true)], [(("t0", 0), 0); (("a", 0), 3); (("b", 0), 2)], [[1]]) /\
  offered (snd (api_exec ev_lit OpGetNext (run_ops ev_lit [OpRerun []] cf))) = ["a"].
Proof. split; [vm_compute; reflexivity|]. split; [vm_compute; reflexivity|]. split; vm_compute; reflexivity. Qed.

(* the same rerun, as the equation of C17b_rerun_plain_exact says it *)
Example fork_rerun_is_plain_state : exists r,
  nth_error (sequence (c_ws cf)) 1 = Some r /\
  request_task_rerun ev_lit "a" 0 false cf = (rerun_plain_state "a" 0 1 r cf, Val tt).
Proof.
  eexists. split; [vm_compute; reflexivity|].
  eapply (C17b_rerun_plain_exact ev_lit "a" 0 false 1 _ (plain []) cf); try (vm_compute; reflexivity). left; reflexivity.
Qed.

(* t1 -> t2 (t2 failed), and an independent t3 (failed).  Requests for t1 and its downstream t2: t2 is collapsed --
   and so it is beside a request for the unrelated t3 (before the repair of W-R1 it was not) *)
Definition spec_c := {| wf_input := []; wf_vars := []; wf_output := [];
                        wf_tasks := [("t1", plain [tr ["t2"]]); ("t2", plain []); ("t3", plain [])] |}.
Definition graph_c := {| g_nodes := [node "t1"; node "t2"; node "t3"]; g_edges := [edge "t1" "t2" 0] |}.
Definition cc := run_ops ev_lit [OpRequest S_RUNNING; OpGetNext; act "t1" S_RUNNING; act "t3" S_RUNNING; act "t1" S_SUCCEEDED;
                                 OpGetNext; act "t2" S_RUNNING; act "t2" S_FAILED; act "t3" S_FAILED] (mk spec_c graph_c).
Example two_requests_collapsed :
  seqs_of (c_ws cc) (reqs_dict [rq "t1"; rq "t2"]) = [(("t1", 0), [0; 2]); (("t2", 0), [2])] /\
  keys (cand_of (c_ws cc) (reqs_dict [rq "t1"; rq "t2"])) = [(("t1", 0), 0)].
Proof. split; vm_compute; reflexivity. Qed.
Example three_requests_collapsed :
  keys (cand_of (c_ws cc) (reqs_dict [rq "t1"; rq "t2"; rq "t3"])) = [(("t1", 0), 0); (("t3", 0), 1)] /\
  offered (snd (api_exec ev_lit OpGetNext (run_ops ev_lit [OpRerun [rq "t1"; rq "t2"; rq "t3"]] cc))) = ["t1"; "t3"].
Proof. split; vm_compute; reflexivity. Qed.

(* finding D8: after `do: fail` the default candidate is the engine command's own record, and `fail` is offered *)
Definition spec_x := {| wf_input := []; wf_vars := []; wf_output := []; wf_tasks := [("t1", plain [tr ["fail"]])] |}.
Definition graph_x := {| g_nodes := [node "t1"; node "fail"]; g_edges := [edge "t1" "fail" 0] |}.
Definition cx := run_ops ev_lit [OpRequest S_RUNNING; OpGetNext; act "t1" S_RUNNING; act "t1" S_SUCCEEDED] (mk spec_x graph_x).
Example engine_command_is_a_candidate :
  keys (cand_of (c_ws cx) (reqs_dict [])) = [(("fail", 0), 1)] /\
  offered (snd (api_exec ev_lit OpGetNext (run_ops ev_lit [OpRerun []] cx))) = ["fail"].
Proof. split; vm_compute; reflexivity. Qed.

(* finding D9: a succeeded workflow, default rerun: no candidate, accepted, resuming with nothing staged *)
Definition spec_s := {| wf_input := []; wf_vars := []; wf_output := []; wf_tasks := [("t1", plain [])] |}.
Definition graph_s := {| g_nodes := [node "t1"]; g_edges := [] |}.
Definition cs := run_ops ev_lit [OpRequest S_RUNNING; OpGetNext; act "t1" S_RUNNING; act "t1" S_SUCCEEDED] (mk spec_s graph_s).
Example empty_rerun :
  cand_of (c_ws cs) (reqs_dict []) = [] /\
  request_workflow_rerun ev_lit [] cs = (empty_rerun_state cs, Val tt) /\
  view (empty_rerun_state cs) = (S_RESUMING, [("t1", Some S_SUCCEEDED, true)], [], [(("t1", 0), 0)], [[]]) /\
  offered (snd (api_exec ev_lit OpGetNext (empty_rerun_state cs))) = [].
Proof.
  split; [vm_compute; reflexivity|]. split; [|split; vm_compute; reflexivity].
  apply C17b_empty_rerun_accepted; [vm_compute; reflexivity|vm_compute; reflexivity|intros k q []|vm_compute; reflexivity].
Qed.

End C17bExamples.
