(* C18 -- Execution history is append-only; finished records never change.
   Property theorems only; proofs are in proofs/C18Proofs.v. *)
From Coq Require Import String List Bool.
From Orq Require Import GenStatuses Base State Machines Conductor Api C18Proofs.
Import ListNotations.

(* [F] for every expression evaluator, every state and every history of API calls (status requests,
   next-task queries, provider events -- conformant or not --, output rendering, reruns; the
   persist round trip is the subject of C05): the context snapshots and the routes of the state
   before are a prefix of those after, no task execution record is removed or moved, and the id,
   route, inbound context list and predecessor references of every existing record are unchanged.
   Holds also for calls that raise (R18 relates the state before to the state the exception left). *)
Theorem C18_append_only : forall ev ops c,
  forallb (fun op => negb (is_persist op)) ops = true -> R18 c (run_ops ev ops c).
Proof. exact history_append_only. Qed.
Print Assumptions C18_append_only.

(* one API call, including the state left behind by a call that raises *)
Theorem C18_append_only_step : forall ev op c c' r,
  is_persist op = false -> api_exec ev op c = (c', r) -> R18 c c'.
Proof. intros ev op c c' r H E. exact (api_exec_append_only ev op H c c' r E). Qed.
Print Assumptions C18_append_only_step.

(* non-vacuity: R18 really constrains -- it rejects dropping a record or changing its context list *)
Example C18_rejects_rewrite :
  let r := {| r_id := "a"; r_route := 0; r_in := [0]; r_out := None; r_prev := []; r_next := [];
              r_status := Some S_RUNNING; r_term := false; r_retry := None |} in
  let r' := {| r_id := "a"; r_route := 0; r_in := [0; 1]; r_out := None; r_prev := []; r_next := [];
               r_status := Some S_RUNNING; r_term := false; r_retry := None |} in
  ~ seq_grows [r] [r'] /\ ~ seq_grows [r] [] /\ seq_grows [r] [r_set_status r (Some S_SUCCEEDED); r'].
Proof.
  cbv zeta. repeat split.
  - intro H. destruct (H 0 _ eq_refl) as [x [Hx [_ [_ [Hin _]]]]]. simpl in Hx. inversion Hx; subst. simpl in Hin. discriminate.
  - intro H. destruct (H 0 _ eq_refl) as [x [Hx _]]. simpl in Hx. discriminate.
  - intros i r H. destruct i as [|[|i]]; simpl in H; inversion H; subst.
    eexists; split; [reflexivity|repeat split].
Qed.
