(* C18b -- C18, second half: once the outbound transitions of a task execution have been decided,
   its status and those decisions never change; a retried attempt is reopened before any transition
   is decided; a rerun appends a new record.  Property theorems only; proofs are in
   proofs/FrozenProofs.v.

   "Decided" = the record's status is completed at an API boundary (the call that completed it has
   either evaluated its transitions or reopened it for a retry before returning -- second group).
   "Frozen" = [same_decided]: id, route, inbound contexts, predecessors, status, transition
   decisions (r_next), published-context reference (r_out) and retry bookkeeping are equal; only the
   terminal flag r_term may change (a rerun resets it, a completed workflow sets it). *)
From Coq Require Import String List Bool ZArith.
From Orq Require Import GenStatuses GenEvents Base State Machines Conductor Api C18Proofs RetryProofs FrozenProofs.
Import ListNotations.
Open Scope string_scope.

(* [F] for every evaluator, state and history of API calls -- status requests, polls, events of every
   kind for every task (late, duplicate, malformed, for unknown tasks; also calls that raise),
   output rendering, reruns -- in which nobody injects the engine's internal retry event: a decided
   record with no retry left (no policy, a non-integer count, or tally >= count) stays frozen.
   (op_static excludes only OpPersist, the subject of C05, and the injected retry event.) *)
Theorem C18b_decided_record_frozen : forall ev ops c i r,
  nth_error (sequence (c_ws c)) i = Some r -> decided r -> ~ retry_open r ->
  forallb op_static ops = true ->
  exists r', nth_error (sequence (c_ws (run_ops ev ops c))) i = Some r' /\ same_decided r r'.
Proof. exact decided_record_frozen. Qed.
Print Assumptions C18b_decided_record_frozen.

(* [F] the general form, one call: whatever the record's retry budget, it stays frozen through any
   operation that is [op_safe] in the state it is applied to (unfolded below): every operation
   that is not an event; a persist on an initialised conductor; an event that
     - does not address the record (the pointer of its (task, route) is another index), or
     - addresses an engine command (those always get a record of their own), or
     - addresses it with a starting status while the task is staged again and that entry is not
       flagged completed (a loop iteration or a re-staged task: a NEW record is appended), or
     - is not the internal retry event and finds the record without a retry left. *)
Theorem C18b_decided_record_frozen_step : forall ev op c c' res i r,
  nth_error (sequence (c_ws c)) i = Some r -> decided r ->
  op_safe i r c op -> api_exec ev op c = (c', res) ->
  exists r', nth_error (sequence (c_ws c')) i = Some r' /\ same_decided r r'.
Proof. exact decided_record_frozen_step. Qed.
Print Assumptions C18b_decided_record_frozen_step.

Theorem C18b_decided_record_frozen_history : forall ev ops c i r,
  nth_error (sequence (c_ws c)) i = Some r -> decided r -> hist_safe i r ev ops c ->
  exists r', nth_error (sequence (c_ws (run_ops ev ops c))) i = Some r' /\ same_decided r r'.
Proof. exact decided_record_frozen_history. Qed.
Print Assumptions C18b_decided_record_frozen_history.

Theorem C18b_op_safe_unfold : forall i r0 c op,
  op_safe i r0 c op <->
  match op with
  | OpEvent t route evt => safe i r0 c t route evt
  | OpPersist => c_init c = true
  | _ => True
  end.
Proof. exact op_safe_unfold. Qed.
Print Assumptions C18b_op_safe_unfold.

Theorem C18b_safe_unfold : forall i r0 c t route evt,
  safe i r0 c t route evt <->
  (ws_task_idx (c_ws c) t route <> Some i \/ is_engine_command t = true \/
   (c_init c = true /\ status_in (ev_status evt) STARTING_STATUSES = true /\
   exists s, get_staged_task (c_ws c) t route = Some s /\ s_completed s = false) \/
   (is_retry_event evt = false /\ ~ retry_open r0)).
Proof. exact safe_unfold. Qed.
Print Assumptions C18b_safe_unfold.

(* every provider event (action and item events) qualifies as "not the internal retry event" *)
Theorem C18b_provider_event_not_retry : forall e, provider_event e = true -> is_retry_event e = false.
Proof. exact provider_event_not_retry. Qed.
Print Assumptions C18b_provider_event_not_retry.

(* [F] D33 (the retry of a completed task is evaluated only when the report changed its status): the hypothesis on
   the retries left is not needed.  For every evaluator, state and history of API calls in which nobody injects the
   engine's internal retry event (op_static: that and OpPersist, the subject of C05, are the only exclusions), a
   decided record stays frozen -- with or without a retry policy, whatever its tally *)
Theorem C18b_decided_record_frozen_always : forall ev ops c i r,
  nth_error (sequence (c_ws c)) i = Some r -> decided r -> forallb op_static ops = true ->
  exists r', nth_error (sequence (c_ws (run_ops ev ops c))) i = Some r' /\ same_decided r r'.
Proof. exact decided_record_frozen_always. Qed.
Print Assumptions C18b_decided_record_frozen_always.

(* [F] one call, general form: an event that addresses the record need only not be the internal retry event *)
Theorem C18b_decided_record_frozen_step_always : forall ev op c c' res i r,
  nth_error (sequence (c_ws c)) i = Some r -> decided r ->
  op_safe_w i c op -> api_exec ev op c = (c', res) ->
  exists r', nth_error (sequence (c_ws c')) i = Some r' /\ same_decided r r'.
Proof. exact decided_record_frozen_step_w. Qed.
Print Assumptions C18b_decided_record_frozen_step_always.
Theorem C18b_op_safe_w_unfold : forall i c op,
  op_safe_w i c op <->
  match op with
  | OpEvent t route evt =>
      ws_task_idx (c_ws c) t route <> Some i \/ is_engine_command t = true \/
      (c_init c = true /\ status_in (ev_status evt) STARTING_STATUSES = true /\
       exists s, get_staged_task (c_ws c) t route = Some s /\ s_completed s = false) \/
      is_retry_event evt = false
  | OpPersist => c_init c = true
  | _ => True
  end.
Proof. exact op_safe_w_spelled. Qed.
Print Assumptions C18b_op_safe_w_unfold.

(* The former refutation [R] of dropping the hypothesis ~ retry_open r is gone with the engine fix D33 (the retry
   of a completed task is evaluated only when the report changed its status).  Before the fix: a decided record
   (succeeded, transition to t2 decided and true, t2 staged) of a task with retries left was reopened by a DUPLICATE
   completion report of the same execution (retrying), and the next attempt rewrote its status (failed) and its
   decision (false).  Same definition and operation list now: the record keeps its status and its decision.
   Definition and operation list in proofs/FrozenProofs.v. *)
Theorem C18b_decided_record_kept_with_retries_left : exists r r',
  nth_error (sequence (c_ws (w_decided w_retry))) 0 = Some r /\ decided r /\ retry_open r /\
  forallb op_static (w_late :: w_ops3) = true /\
  nth_error (sequence (c_ws (run_ops ev_w (w_late :: w_ops3) (w_decided w_retry)))) 0 = Some r' /\
  r_status r = Some S_SUCCEEDED /\ r_status r' = Some S_SUCCEEDED /\
  r_next r = [(("t2", 0), true)] /\ r_next r' = [(("t2", 0), true)].
Proof. exact decided_record_kept_with_retries_left. Qed.
Print Assumptions C18b_decided_record_kept_with_retries_left.

(* ---- a retried attempt is reopened before any transition is decided ---- *)

(* [F] the call that delivers the retry event (the only event that takes a record to "retrying",
   third theorem) changes no record's transition decisions or published-context reference and,
   on an initialised conductor, appends no context snapshot: Rno relates the state before to the
   state after, also when the call raises *)
Theorem C18b_retry_call_decides_nothing : forall ev fuel t route c c' res,
  update_task_state_fuel ev fuel t route retry_event c = (c', res) -> Rno c c'.
Proof. exact retry_call_decides_nothing. Qed.
Print Assumptions C18b_retry_call_decides_nothing.

(* [F] a call of update_task_state whose completion step decides to retry (uts_prefix is the call
   up to and including that step) does nothing afterwards but make the retry call: over the whole
   call no transition is decided, for any event and any state *)
Theorem C18b_retry_branch_decides_nothing : forall ev fuel t route evt c c1 p ctx c' res,
  uts_prefix ev t route evt c = (c1, Val p) -> po_compl p = Some (ctx, true) ->
  update_task_state_fuel ev (S fuel) t route evt c = (c', res) -> Rno c c'.
Proof. exact retry_branch_decides_nothing. Qed.
Print Assumptions C18b_retry_branch_decides_nothing.

Theorem C18b_enters_retrying_only_by_retry_event : forall w r evt,
  task_process_event w r evt = Val (Some S_RETRYING) -> is_retry_event evt = true.
Proof. exact enters_retrying_only_by_retry_event. Qed.
Print Assumptions C18b_enters_retrying_only_by_retry_event.

(* ---- non-vacuity and the witnesses, by computation on the model ---- *)

Example C18b_w_decided_state :
  w_obs (w_decided w_retry)
  = ([(Some S_SUCCEEDED, [(("t2", 0), true)], Some (("t2", 0), 1), false)], S_RUNNING, ["t2"], 2).
Proof. exact w_decided_state. Qed.

(* D33: the duplicate report is absorbed (before the fix: retrying, t1 staged again; then failed, decision false) *)
Example C18b_w_late_report_absorbed :
  w_obs (run_ops ev_w [w_late] (w_decided w_retry))
  = ([(Some S_SUCCEEDED, [(("t2", 0), true)], Some (("t2", 0), 1), false)], S_RUNNING, ["t2"], 2).
Proof. exact w_late_report_absorbed. Qed.

Example C18b_w_decision_kept :
  w_obs (run_ops ev_w (w_late :: w_ops3) (w_decided w_retry))
  = ([(Some S_SUCCEEDED, [(("t2", 0), true)], Some (("t2", 0), 1), false)], S_RUNNING, ["t2"], 2).
Proof. exact w_decision_kept. Qed.

(* the same definition without a retry policy: the theorem's hypotheses hold and the duplicate
   reports leave the decided record alone *)
Example C18b_w_no_policy_frozen : exists r r',
  nth_error (sequence (c_ws (w_decided JNull))) 0 = Some r /\
  nth_error (sequence (c_ws (run_ops ev_w (w_late :: w_late :: w_ops3) (w_decided JNull)))) 0 = Some r' /\
  same_decided r r'.
Proof. exact w_no_policy_frozen. Qed.

(* with retries left, operations that do not address the record still leave it frozen *)
Example C18b_w_other_task_events_frozen : exists r r',
  nth_error (sequence (c_ws (w_decided w_retry))) 0 = Some r /\ retry_open r /\
  nth_error (sequence (c_ws (run_ops ev_w [OpGetNext; OpEvent "t2" 0 (EvAction S_RUNNING JNull);
                                            OpEvent "t2" 0 (EvAction S_SUCCEEDED JNull); OpRender]
                                     (w_decided w_retry)))) 0 = Some r' /\
  same_decided r r'.
Proof. exact w_other_task_events_frozen. Qed.

(* the injected internal retry event reopens a decided record even without a retry policy *)
Example C18b_w_injected_retry_event_reopens :
  (let p := api_exec ev_w (OpEvent "t1" 0 (EvEngine EV_TASK_RETRY_REQUESTED S_RETRYING)) (w_decided JNull) in
   (map r_status (sequence (c_ws (fst p))), match snd p with Exc e => x_cls e | Val _ => "" end))
  = ([Some S_RETRYING], "KeyError").
Proof. exact w_injected_retry_event_reopens. Qed.

(* a rerun leaves the decided record's status and decisions, resets its terminal flag, appends a record *)
Example C18b_w_rerun_resets_term_only :
  w_obs (run_ops ev_w [OpRerun []] (run_ops ev_w w_ops4 (w_decided w_retry)))
  = ([(Some S_SUCCEEDED, [(("t2", 0), true)], Some (("t2", 0), 1), false); (Some S_FAILED, [], None, false);
      (None, [], None, false)],
     S_RESUMING, ["t2"], 2).
Proof. exact w_rerun_resets_term_only. Qed.
