(* C19 -- Conducting is deterministic and asking for next tasks is a pure query.
   Property theorems only (proofs/C19Proofs.v). *)
From Coq Require Import String List Bool Sorted.
From Orq Require Import GenStatuses Base State Machines Conductor Api C19Proofs.
Import ListNotations.

(* Determinism proper is by construction: api_exec / run_ops are Gallina FUNCTIONS of the evaluator, the
   operation list and the state -- there is no hidden state, ordering of sets or address to depend on.
   What ties that to CPython (dict/set iteration order under different hash seeds) is the subprocess
   replay under several PYTHONHASHSEED values in harness/props/c19.py. *)

(* [F] stable order: whatever get_next_tasks returns, for every evaluator and state, is sorted by
   (task id, route) -- independent of the order in which entries were staged *)
Theorem C19_offers_sorted : forall ev c c' l, get_next_tasks ev c = (c', Val l) -> Sorted offer_le l.
Proof. exact offers_sorted. Qed.
Print Assumptions C19_offers_sorted.

(* [F] pure query where nothing may be offered: in pausing, paused, canceling, canceled and succeeded the
   call returns [] and the conductor state is EXACTLY the state before; asking again gives the same *)
Theorem C19_query_identity_when_held : forall ev c, c_init c = true ->
  In (wstatus (c_ws c)) [S_PAUSING; S_PAUSED; S_CANCELING; S_CANCELED; S_SUCCEEDED] ->
  get_next_tasks ev c = (c, Val []) /\
  (forall c1 r1, get_next_tasks ev c = (c1, r1) -> get_next_tasks ev c1 = (c1, r1)).
Proof. exact query_is_identity_when_nothing_to_offer. Qed.
Print Assumptions C19_query_identity_when_held.

(* NOT PROVED: idempotence of the query while running (the first call may initialise the item list of a
   with-items task and may fail the workflow on a rendering error; that a second call then changes nothing
   depends on the evaluator not reading that bookkeeping) -- tested by the double-query monitor c19. *)
