(* C19b -- C19, "asking for the next tasks repeatedly without an intervening event returns the same
   answer and leaves the persisted state as the first call left it".  Property theorems only;
   proofs are in proofs/QueryProofs.v.

   On the model (and on the engine) the clause is FALSE as stated, for two reasons, each with a
   witness below; it is PROVED with the two corresponding hypotheses.
   1. Every expression is rendered against a context that contains __state, the serialized workflow
      state, and the first query changes that state (it creates the item table of a with-items entry;
      a rendering failure fails the workflow).  An expression that reads the bookkeeping renders
      differently the second time.  Hypothesis: [state_blind ev] -- the evaluator's answers do not
      depend on the value of the __state entry.  (The offered context itself contains __state: answers
      are compared up to that entry, [ans_sim].)
   2. If a clean-up (run_on_fail) entry is staged while the workflow is not failed, a first query
      that fails the workflow answers [] and the second one, now in failed status, offers the clean-up.
      Hypothesis: [no_cleanup_pending c].  No history of API calls is known to produce such a state
      (clean-up flags are set in the call that runs the fail command); the witness is hand-made. *)
From Coq Require Import String List Bool ZArith.
From Orq Require Import GenStatuses GenEvents Base State Machines Conductor Api QueryProofs.
Import ListNotations.
Open Scope string_scope.

(* [F] every state-blind evaluator, every initialised state without pending clean-up, whatever the
   first query returns (offers, or an exception): the second query leaves the state EXACTLY as the first
   left it and returns the same exception, or the same offers -- ids, routes, rendered actions, delay,
   items_count, concurrency; contexts equal except at __state.  In particular the item table a first
   query creates is found and the same items are chosen; a repeated rendering failure does not grow
   the error log; a workflow failed by the first query stays as it is. *)
Theorem C19b_query_idempotent : forall ev, state_blind ev ->
  forall c c1 r1, c_init c = true -> no_cleanup_pending c ->
  get_next_tasks ev c = (c1, r1) ->
  exists r2, get_next_tasks ev c1 = (c1, r2) /\ ans_sim r1 r2.
Proof. exact query_idempotent. Qed.
Print Assumptions C19b_query_idempotent.

(* [F] the very first query, which creates the workflow state: the same, provided that creation does
   not raise (if it raises, the conductor is left half-created and the next call is a different one) *)
Theorem C19b_query_idempotent_from_creation : forall ev, state_blind ev ->
  forall c c0 c1 r1, ensure_ws ev c = (c0, Val tt) -> no_cleanup_pending c0 ->
  get_next_tasks ev c = (c1, r1) ->
  exists r2, get_next_tasks ev c1 = (c1, r2) /\ ans_sim r1 r2.
Proof. exact query_idempotent_from_creation. Qed.
Print Assumptions C19b_query_idempotent_from_creation.

Theorem C19b_state_blind_unfold : forall ev, state_blind ev <-> (forall s a b, sim a b -> ev s a = ev s b).
Proof. exact state_blind_unfold. Qed.
Print Assumptions C19b_state_blind_unfold.

Theorem C19b_sim_unfold : forall a b,
  sim a b <-> Forall2 (fun p q => fst p = fst q /\ (fst p = "__state" \/ snd p = snd q)) a b.
Proof. exact sim_unfold. Qed.
Print Assumptions C19b_sim_unfold.

Theorem C19b_ans_sim_unfold : forall r r',
  ans_sim r r' <-> match r, r' with
                   | Val l, Val l' => Forall2 offer_sim l l'
                   | Exc e, Exc e' => e = e'
                   | _, _ => False
                   end.
Proof. exact ans_sim_unfold. Qed.
Print Assumptions C19b_ans_sim_unfold.

Theorem C19b_offer_sim_unfold : forall o o',
  offer_sim o o' <->
  (o_id o' = o_id o /\ o_route o' = o_route o /\ o_actions o' = o_actions o /\ o_delay o' = o_delay o /\
   o_items_count o' = o_items_count o /\ o_concurrency o' = o_concurrency o /\ sim (o_ctx o) (o_ctx o')).
Proof. exact offer_sim_unfold. Qed.
Print Assumptions C19b_offer_sim_unfold.

(* the heart of it: what the query does to the item tables of the entries it visits is idempotent,
   and a second pass over the same entries changes nothing and returns the same results *)
Theorem C19b_steps_idempotent : forall ev, state_blind ev -> forall K x, (forall k, In k K -> kfound x k) ->
  fst (steps ev K (fst (steps ev K x))) = fst (steps ev K x) /\
  Forall2 res_sim (snd (steps ev K x)) (snd (steps ev K (fst (steps ev K x)))).
Proof. exact steps_idempotent. Qed.
Print Assumptions C19b_steps_idempotent.

(* [R] hypothesis 1 is needed: a with-items task whose action expression reads $__state.staged; the
   state is the same after both queries, the rendered actions differ.  Replayed on the engine with
   `message: <% $__state.staged.select($.get(items, "no item table")) %>`: first answer
   ['no item table'], second answer the item table. *)
Theorem C19b_query_not_idempotent_for_state_reading_expression :
  c_init q_c0 = true /\ no_cleanup_pending q_c0 /\
  let '(c1, r1) := get_next_tasks q_ev q_c0 in
  let '(c2, r2) := get_next_tasks q_ev c1 in
  c2 = c1 /\ q_actions r1 <> q_actions r2.
Proof. exact query_not_idempotent_for_state_reading_expression. Qed.
Print Assumptions C19b_query_not_idempotent_for_state_reading_expression.

(* [R] hypothesis 2 is needed (hand-made state) *)
Theorem C19b_query_not_idempotent_with_cleanup_staged :
  c_init q_c1 = true /\ ~ no_cleanup_pending q_c1 /\
  let '(c1, r1) := get_next_tasks q_ev q_c1 in
  let '(c2, r2) := get_next_tasks q_ev c1 in
  (match r1 with Val l => map o_id l | Exc _ => ["?"] end) = [] /\
  (match r2 with Val l => map o_id l | Exc _ => ["?"] end) = ["t2"].
Proof. exact query_not_idempotent_with_cleanup_staged. Qed.
Print Assumptions C19b_query_not_idempotent_with_cleanup_staged.

(* non-vacuity: a state-blind evaluator on the same with-items workflow: the first query creates the
   item table, the second changes nothing and answers the same *)
Example C19b_q_ev_blind_is_blind : state_blind q_ev_blind.
Proof. exact q_ev_blind_is_blind. Qed.

Example C19b_q_blind_query_creates_table_then_is_idempotent :
  let c0 := run_ops q_ev_blind [OpRequest S_RUNNING] (q_fresh {| g_nodes := [q_node "w"]; g_edges := [] |}) in
  let '(c1, r1) := get_next_tasks q_ev_blind c0 in
  let '(c2, r2) := get_next_tasks q_ev_blind c1 in
  map s_items (staged (c_ws c0)) = [None] /\ map s_items (staged (c_ws c1)) = [Some [S_UNSET; S_UNSET]] /\
  c2 = c1 /\ q_actions r1 = q_actions r2 /\ q_actions r1 = [[JStr "peek"; JStr "peek"]].
Proof. exact q_blind_query_creates_table_then_is_idempotent. Qed.
