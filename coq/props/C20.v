(* C20 -- Every documented shorthand means exactly its long form.
   Property theorems only; definitions (ival, text, denote, ok_val, render, ...) and proofs are in
   proofs/C20Proofs.v; the executable model of the shorthands is model/Params.v. *)
From Coq Require Import String Ascii List Bool ZArith.
From Orq Require Import GenParams Base State Params C20Proofs.
Import ListNotations.
Open Scope string_scope.

(* [P] inline name=value parameters.  An entry is (key, value, separator after it).  For every list
   of entries whose keys are non-empty runs of word characters, whose separators consist of blanks,
   commas and semicolons (every separator but the last one non-empty) and whose values are
     VInt   an optional minus and a digit run without leading zero        -> JInt
     VDec   the same followed by `.` and a non-empty digit run             -> JFloat <numeral>
     VBool  true / false in any letter case                                -> JBool
     VNull  null                                                           -> JNull
     VDq    content between double quotes: no double quote inside; not of the form {...}; no apostrophe at either end
            (nor apostrophe + newline at the end)                          -> JStr content
     VSq    content between apostrophes: no apostrophe inside; not of the form {...}         -> JStr content
     VYaql  <% body %>: no newline and no `%>` inside                       -> JStr text
     VJinja {{ body }}: no newline, no `}}` inside, not ending in `}`      -> JStr text
   parse_inline_params (preserve_order=True) of the rendered string is exactly the list of
   (key, denotation) pairs.  Missing from the class: bracket lists and quoted JSON objects (their
   denotation needs the JSON reader; see C20_inline_two_lists_refuted for lists), strings of the
   form {...} and double-quoted strings with an apostrophe at an end (refuted below). *)
Theorem C20_inline_roundtrip_partial : forall l : list entry,
  forallb entry_ok l = true -> seps_ok l = true ->
  parse_inline_params (render l) = denote_all l.
Proof. exact inline_roundtrip. Qed.
Print Assumptions C20_inline_roundtrip_partial.

(* [F] every integer z is in the class: its decimal text is the text of the entry value VZ z and
   the denotation is JInt z *)
Theorem C20_inline_int_is_Z : forall z : Z,
  ok_val (VZ z) = true /\ text (VZ z) = Z_to_string z /\ denote (VZ z) = JInt z.
Proof. exact VZ_spec. Qed.
Print Assumptions C20_inline_int_is_Z.

Example C20_inline_roundtrip_nonvacuous :
  forallb entry_ok sample_entries = true /\ seps_ok sample_entries = true /\
  render sample_entries =
    "msg=""hello, k=v; it's <b> in x"", n=-42; f=3.140 flag=TrUe ,; z=null  s='say ""hi"" [1, 2]',e=<% ctx().x + 1 %> j={{ ctx().y }}" /\
  parse_inline_params (render sample_entries) =
    [("msg", JStr "hello, k=v; it's <b> in x"); ("n", JInt (-42)); ("f", JFloat "3.140"); ("flag", JBool true);
     ("z", JNull); ("s", JStr "say ""hi"" [1, 2]"); ("e", JStr "<% ctx().x + 1 %>"); ("j", JStr "{{ ctx().y }}")].
Proof. exact sample_roundtrip. Qed.
Print Assumptions C20_inline_roundtrip_nonvacuous.

(* [R] the hypotheses on double-quoted strings cannot be dropped *)
Theorem C20_inline_dq_apostrophe_refuted : exists c,
  no_char ch_dq c = true /\ curly c = false /\
  parse_inline_params (render [("x", VDq c, "")]) <> [("x", JStr c)].
Proof. exact dq_apostrophe_refuted. Qed.
Print Assumptions C20_inline_dq_apostrophe_refuted.

Theorem C20_inline_curly_string_refuted : exists c,
  no_char ch_dq c = true /\ first_is ch_sq c = false /\ ends_with (str1 ch_sq) c = false /\
  parse_inline_params (render [("x", VDq c, "")]) <> [("x", JStr c)].
Proof. exact curly_string_refuted. Qed.
Print Assumptions C20_inline_curly_string_refuted.

(* [R] two bracket lists on one line are one string (the bracket alternative is greedy) *)
Theorem C20_inline_two_lists_refuted :
  parse_inline_params "x=[1]" = [("x", JList [JInt 1])] /\
  parse_inline_params "y=[2]" = [("y", JList [JInt 2])] /\
  parse_inline_params "x=[1] y=[2]" = [("x", JStr "[1] y=[2]")].
Proof. exact two_lists_refuted. Qed.
Print Assumptions C20_inline_two_lists_refuted.

(* [R] a decimal without integer part is matched by the float alternative but stays a string *)
Theorem C20_inline_leading_dot_refuted : exists fp, digits1 fp = true /\
  parse_inline_params ("x=." ++ fp) = [("x", JStr ("." ++ fp))].
Proof. exact leading_dot_refuted. Qed.
Print Assumptions C20_inline_leading_dot_refuted.

(* [F] comma-separated do: names without comma and without blanks at their ends, each surrounded
   by arbitrary blanks, come back exactly; in particular the `, ` form *)
Theorem C20_do : forall ps : list padded, ps <> [] -> forallb pad_ok ps = true ->
  split_do (join "," (map pad ps)) = map pad_name ps.
Proof. exact do_split. Qed.
Print Assumptions C20_do.

Theorem C20_do_comma_blank : forall names, names <> [] -> forallb name_ok names = true ->
  split_do (join ", " names) = names.
Proof. exact do_split_comma_blank. Qed.
Print Assumptions C20_do_comma_blank.

(* [F] the string form and the list form of do denote the same list of next tasks *)
Theorem C20_do_forms_agree : forall names, names <> [] -> forallb name_ok names = true ->
  (forall n, In n names -> n <> "") ->
  norm_do (DoStr (join ", " names)) = norm_do (DoList names).
Proof. exact do_forms_agree. Qed.
Print Assumptions C20_do_forms_agree.

(* [F] an omitted (or empty) do means continue, which is what the explicit forms mean *)
Theorem C20_do_default : norm_do DoAbsent = ["continue"] /\ norm_do (DoStr "") = ["continue"]
  /\ norm_do (DoList []) = ["continue"] /\ norm_do (DoStr "continue") = ["continue"]
  /\ norm_do (DoList ["continue"]) = ["continue"].
Proof. exact do_default. Qed.
Print Assumptions C20_do_default.

Example C20_do_nonvacuous :
  forallb pad_ok [("", "t1", " "); (" ", "task two", ""); ("  ", "continue", "  ")] = true /\
  split_do "t1 , task two,  continue  " = ["t1"; "task two"; "continue"] /\
  forallb name_ok ["a"; "b c"; "noop"] = true /\ split_do "a, b c, noop" = ["a"; "b c"; "noop"].
Proof. exact sample_do. Qed.
Print Assumptions C20_do_nonvacuous.

(* [F] with-items: "k1, k2 in E" gives the expression E (stripped) and the keys, for word keys
   none of which is the word `in`, and for EVERY E (E may itself contain " in ") *)
Theorem C20_with : forall keys E, keys <> [] -> forallb key_ok keys = true ->
  parse_items (join ", " keys ++ " in " ++ E) = (strip E, Some keys).
Proof. exact items_keys_expr. Qed.
Print Assumptions C20_with.

(* [F] general form: any key text K inside which (followed by " in") no " in " starts *)
Theorem C20_with_general : forall K E, clear_of_in K = true ->
  parse_items (K ++ " in " ++ E) = (strip E, Some (split_on "," (remove_char " " K))).
Proof. exact items_with_keys. Qed.
Print Assumptions C20_with_general.

Theorem C20_with_plain : forall E, find_sub " in " E = None -> parse_items E = (strip E, None).
Proof. exact items_plain. Qed.
Print Assumptions C20_with_plain.

(* [F] the string form of with is the mapping form {items: <string>} *)
Theorem C20_with_forms_agree : forall s, items_of_with (WithStr s) = items_of_with (WithMap s JNull).
Proof. exact with_forms_agree. Qed.
Print Assumptions C20_with_forms_agree.

(* [R] a key called `in` (not in first position) is cut at the wrong place *)
Theorem C20_with_key_in_refuted : exists keys E,
  forallb (fun k => word_key k) keys = true /\
  parse_items (join ", " keys ++ " in " ++ E) <> (strip E, Some keys).
Proof. exact key_in_refuted. Qed.
Print Assumptions C20_with_key_in_refuted.

(* [R] an items string that is one whole <% %> expression (it is matched as such by the expression
   alternative) but uses the word ` in ` inside is cut in the middle of the expression *)
Theorem C20_with_expr_in_refuted : exists E,
  m_value E = Some (E, "") /\ parse_items E <> (strip E, None).
Proof. exact expr_in_refuted. Qed.
Print Assumptions C20_with_expr_in_refuted.

Example C20_with_nonvacuous :
  forallb key_ok ["k1"; "k2"; "inner"] = true /\
  parse_items "k1, k2, inner in <% ctx().xs.where($ in ctx().ys) %> " =
    ("<% ctx().xs.where($ in ctx().ys) %>", Some ["k1"; "k2"; "inner"]) /\
  items_of_with (WithStr "a, b in <% ctx().xs %>")
    = {| it_expr := "<% ctx().xs %>"; it_keys := Some ["a"; "b"]; it_concurrency := JNull |}.
Proof. exact sample_with. Qed.
Print Assumptions C20_with_nonvacuous.

(* [F] action string: a name without blank and without `=`, a blank, and a rendered non-empty list
   of entries split into the name and the dict of the denotations (later duplicates overwrite) *)
Theorem C20_action : forall name (l : list entry),
  no_char " " name = true -> no_char "=" name = true ->
  l <> [] -> forallb entry_ok l = true -> seps_ok l = true ->
  split_action_res (name ++ String " " (render l)) = ActInline name (dict_of_pairs (denote_all l)).
Proof. exact action_split. Qed.
Print Assumptions C20_action.

Theorem C20_action_plain : forall s, parse_inline_dict s = [] -> split_action_res s = ActPlain s.
Proof. exact action_plain. Qed.
Print Assumptions C20_action_plain.

Example C20_action_nonvacuous :
  no_char " " "core.echo" = true /\ no_char "=" "core.echo" = true /\
  split_action ("core.echo" ++ String " " (render sample_entries)) =
    ("core.echo", dict_of_pairs (denote_all sample_entries)) /\
  split_action "core.local cmd=""ls"" cmd='pwd' n=1" = ("core.local", [("cmd", JStr "pwd"); ("n", JInt 1)]).
Proof. exact sample_action. Qed.
Print Assumptions C20_action_nonvacuous.
