"""Design-time evidence only (not part of the verification framework).

Minimal reproducers, against the real engine in /repo, for the defects D1..D12 that the
design exploration found and that DESIGN.md cites.  Run:
    PYTHONPATH=/repo PYTHONHASHSEED=0 /venv/bin/python /verif/design_probes/findings_repro.py
Each block prints one line "Dn <observed>"; nothing here is used by any check.
"""
import collections.abc  # noqa: F401  (yaql needs it imported first on py3.12)
import logging
import subprocess
import sys

from orquesta import conducting, events, requests, statuses as S
from orquesta.specs import native as specs

logging.disable(logging.CRITICAL)


def mk(wf, inputs=None):
    c = conducting.WorkflowConductor(specs.WorkflowSpec(wf), inputs=inputs)
    c.request_workflow_status(S.RUNNING)
    return c


def poll(c):
    """Reference provider: take the offers and acknowledge each action as running."""
    out = []
    for t in c.get_next_tasks():
        out.append(t["id"])
        for a in t["actions"]:
            if "item_id" in a:
                ev = events.TaskItemActionExecutionEvent(a["item_id"], S.RUNNING)
            else:
                ev = events.ActionExecutionEvent(S.RUNNING)
            c.update_task_state(t["id"], t["route"], ev)
    return out


def done(c, tid, st=S.SUCCEEDED, route=None, item=None, result=None):
    if route is None:  # the route of the execution of tid that is still open
        open_recs = [t for t in c.workflow_state.sequence
                     if t["id"] == tid and t.get("status") not in S.COMPLETED_STATUSES]
        route = open_recs[-1]["route"] if open_recs else 0
    if item is None:
        ev = events.ActionExecutionEvent(st, result=result)
    else:
        ev = events.TaskItemActionExecutionEvent(item, st, result=result, accumulated_result=[])
    c.update_task_state(tid, route, ev)


def seq(c):
    return [(t["id"], t.get("status")) for t in c.workflow_state.sequence]


FORK_JOIN = """
version: 1.0
vars: [{x: 0}]
output: [{x: <% ctx().x %>}]
tasks:
  a: {action: core.noop, next: [{publish: [{x: 1}], do: [b, c]}]}
  b: {action: core.noop, next: [{when: <% succeeded() %>, publish: [{x: 2}], do: [j]}]}
  c: {action: core.noop, next: [{when: <% succeeded() %>, do: [j]}]}
  j: {join: JOIN, action: core.noop EXTRA}
"""

def fj(join, extra=""):
    return FORK_JOIN.replace("JOIN", join).replace("EXTRA", extra)


# D1: join: N re-fires when a further satisfied branch arrives after the join has started.
c = mk(fj("1"))
poll(c); done(c, "a"); poll(c); done(c, "b"); poll(c); done(c, "j"); done(c, "c")
print("D1 join:1 offered again after late arrival:", poll(c), seq(c))

# D1': same trigger on a with-items join wipes the item bookkeeping -> KeyError escapes.
c = mk(fj("1", ', with: "<% list(1, 2) %>"'))
poll(c); done(c, "a"); poll(c); done(c, "b"); poll(c)
live_before = list(c.workflow_state.sequence[-1]["ctxs"]["in"])
done(c, "c")
try:
    done(c, "j", item=0)
    print("D1' no error")
except KeyError as e:
    print("D1' KeyError escapes update_task_state:", e)
# D3: the running record aliases the staged entry's lists -> a live record changes after the fact.
print("D3 running record ctxs.in before/after late arrival:", live_before, c.workflow_state.sequence[-1]["ctxs"]["in"])

# D2: run-time errors in retry.when / retry.count / retry.delay escape update_task_state.
for name, retry in (("when", "{count: 1, when: <% ctx().nope %>}"), ("count", "{count: <% ctx().nope %>}"),
                    ("delay", "{count: 1, delay: <% 'x' %>}")):
    c = mk("version: 1.0\ntasks:\n  a: {action: core.noop, retry: %s}\n" % retry)
    try:
        poll(c); done(c, "a", S.FAILED)
        print("D2 retry.%s contained; status" % name, c.get_workflow_status())
    except Exception as e:
        print("D2 retry.%s escapes as %s; status stays %s" % (name, type(e).__name__, c.get_workflow_status()))

# D4: a rejected status request still changes the status of an active with-items task.
c = mk("""
version: 1.0
tasks:
  w: {with: "<% list(1, 2) %>", action: core.noop}
  f: {action: core.noop}
""")
poll(c); done(c, "f", S.FAILED)
before = c.workflow_state.get_task("w", 0)["status"]
try:
    c.request_workflow_status(S.PAUSING)
except Exception as e:
    print("D4 pause on failed workflow rejected (%s) but task w went %s -> %s"
          % (type(e).__name__, before, c.workflow_state.get_task("w", 0)["status"]))

# D5a/D5b: completion reached through a workflow event (resume of a finished paused workflow).
NOJOIN = fj("all").replace("c: {action: core.noop, next: [{when: <% succeeded() %>", "c: {action: core.noop, next: [{when: <% failed() %>")
c = mk(NOJOIN)
poll(c); done(c, "a"); poll(c); c.request_workflow_status(S.PAUSING); done(c, "b"); done(c, "c")
c2 = mk(NOJOIN)
poll(c2); done(c2, "a"); poll(c2); done(c2, "b"); done(c2, "c")
print("D5b unpaused run ends", c2.get_workflow_status(), [e["message"][:20] for e in c2.errors], "| paused run is", c.get_workflow_status(), end=" ")
if c.get_workflow_status() == S.PAUSED:
    c.request_workflow_status(S.RESUMING)
print("then resume ->", c.get_workflow_status())
c = mk("""
version: 1.0
vars: [{x: 0}]
output: [{x: <% ctx().x %>}]
tasks:
  a: {action: core.noop, next: [{when: <% failed() %>, do: [noop]}]}
""")
poll(c); c.request_workflow_status(S.PAUSING); done(c, "a"); c.request_workflow_status(S.RESUMING)
c.render_workflow_output()
print("D5a resume-completed workflow:", c.get_workflow_status(), "output", c.get_workflow_output(),
      "errors", [e["message"][:60] for e in c.errors])

# D6: a fail command processed right after its parent put the workflow in 'paused' is ignored.
c = mk("""
version: 1.0
tasks:
  a: {action: core.noop, next: [{do: [b, fail]}]}
  b: {action: core.noop}
""")
poll(c); c.request_workflow_status(S.PAUSING); done(c, "a")
st_after = c.get_workflow_status()
c.request_workflow_status(S.RESUMING); poll(c); done(c, "b")
print("D6 after fail command while pausing:", st_after, "-> final", c.get_workflow_status(), seq(c))

# D7: inspection report order depends on the interpreter hash seed.
code = ("import collections.abc,logging;logging.disable(50);from orquesta.specs import native as s;"
        "r=s.WorkflowSpec({'version':1.0,'tasks':{'a':{'action':'core.echo','input':{'m1':'<% ctx().foo %> one',"
        "'m2':'<% ctx().foo %> two','m3':'{{ ctx().foo }} three'}}}}).inspect();"
        "print([e['expression'][-5:] for e in r['context']])")
outs = set()
for seed in ("1", "3", "4"):
    p = subprocess.run([sys.executable, "-c", code], capture_output=True, text=True,
                       env={"PYTHONPATH": "/repo", "PYTHONHASHSEED": seed})
    outs.add(p.stdout.strip().splitlines()[-1])
print("D7 distinct inspection reports over 3 hash seeds:", len(outs))

# D8/D9: rerun.
c = mk("""
version: 1.0
tasks:
  a: {action: core.noop, next: [{when: <% failed() %>, do: [fail]}, {when: <% succeeded() %>, do: [b]}]}
  b: {action: core.noop}
""")
poll(c); done(c, "a", S.FAILED)
c.request_workflow_rerun()
print("D8 default rerun after a fail command offers to the provider:", poll(c))
c = mk("version: 1.0\ntasks:\n  a: {action: core.noop}\n")
poll(c); done(c, "a")
c.request_workflow_rerun()
print("D9 rerun of a succeeded workflow accepted:", c.get_workflow_status(), "offers", poll(c))

# D10: cancellation that keeps a join from being satisfied ends in failed, not canceled.
c = mk(fj("all"))
poll(c); done(c, "a"); poll(c); c.request_workflow_status(S.CANCELING); done(c, "b"); done(c, "c", S.CANCELED)
print("D10 after cancel:", c.get_workflow_status(), [e["message"][:40] for e in c.errors])

# D11: a branch that merely inherited an old value overrides a newer one at the join.
for order in (("b", "c"), ("c", "b")):
    c = mk(fj("all"))
    poll(c); done(c, "a"); poll(c)
    for t in order:
        done(c, t)
    print("D11 arrival order", order, "-> join sees x =", c.get_next_tasks()[0]["ctx"]["x"])

# D12: unassigned variables inside retry are not reported by inspection.
r = specs.WorkflowSpec({"version": 1.0, "tasks": {"a": {"action": "core.noop", "retry": {"count": "<% ctx().nope %>"}}}}).inspect()
print("D12 inspection of retry.count referencing an unassigned variable:", r or "accepted")

# D13: get_task_sequence's BFS guard comes after the append, so only direct successors are found;
# rerunning an upstream task leaves the old downstream terminal record flagged and its stale
# context leaks into the output of the rerun.
RERUN_WF = """
version: 1.0
vars: [{y: "none"}]
output: [{y: <% ctx().y %>}]
tasks:
  a: {action: core.noop, next: [{do: [b]}]}
  b:
    action: core.noop
    next:
      - {when: "<% result() = 'first' %>", publish: [{y: "stale"}], do: [c]}
      - {when: "<% result() != 'first' %>", do: [c]}
  c: {action: core.noop, next: [{do: [d]}]}
  d: {action: core.noop}
"""


def run_chain(c, b_result, d_status):
    poll(c); done(c, "a"); poll(c); done(c, "b", result=b_result); poll(c); done(c, "c"); poll(c); done(c, "d", d_status)


c = mk(RERUN_WF)
run_chain(c, "first", S.FAILED)
c.request_workflow_rerun([requests.TaskRerunRequest.new("a", 0)])
run_chain(c, "second", S.SUCCEEDED)
c.render_workflow_output()
clean = mk(RERUN_WF)
run_chain(clean, "second", S.SUCCEEDED)
clean.render_workflow_output()
print("D13 output after rerun of upstream task:", c.get_workflow_output(), "| clean run:", clean.get_workflow_output())
