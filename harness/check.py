"""./check <Cnn> <quick|thorough>   |   ./check <Cnn> --replay <file>

One run = (1) regenerate coq/gen from /repo and rebuild the Coq cone of props/<Cnn>.v, the
extracted model and the driver; (2) read back what the kernel checked (Print Assumptions, hygiene
grep, obligations in the cone); (3) run the property's correspondence slice and monitors on
generated cases; (4) when a proof obligation, the translator or the correspondence breaks, search
for a concrete failing input with the property's monitor on the real engine; (5) write
evidence/<Cnn>.json and print VIOLATION / KNOWN-FINDING lines.
"""
import hashlib
import importlib
import json
import os
import re
import subprocess
import sys
import time

VERIF = os.path.dirname(os.path.dirname(os.path.abspath(__file__)))
COQ = os.path.join(VERIF, "coq")
DEFAULT_SEED = 20260925

FORBIDDEN = re.compile(r"\b(Admitted|admit|Axiom|Axioms|Parameter|Parameters|Conjecture|Conjectures|"
                       r"Admit Obligations|bypass_check|native_compute)\b|Unset\s+Guard|Unset\s+Positivity|"
                       r"Unset\s+Universe|type-in-type|impredicative-set")


def sh(cmd, timeout=1800, cwd=VERIF):
    p = subprocess.run(cmd, shell=True, cwd=cwd, stdout=subprocess.PIPE, stderr=subprocess.STDOUT,
                       timeout=timeout, text=True)
    return p.returncode, p.stdout


def strip_comments(text):
    out, depth, i = [], 0, 0
    while i < len(text):
        if text.startswith("(*", i):
            depth += 1
            i += 2
        elif text.startswith("*)", i) and depth > 0:
            depth -= 1
            i += 2
        else:
            if depth == 0:
                out.append(text[i])
            i += 1
    return "".join(out)


def coq_files():
    res = []
    for d in ("model", "facts", "proofs", "props"):
        p = os.path.join(COQ, d)
        if os.path.isdir(p):
            res += [os.path.join(p, f) for f in sorted(os.listdir(p)) if f.endswith(".v")]
    # files still being written (listed in .git/info/exclude, never part of a commit) are not part of the development
    try:
        out = subprocess.run(["git", "-C", VERIF, "check-ignore"] + res, capture_output=True, text=True).stdout
        ignored = set(os.path.abspath(os.path.join(VERIF, l.strip())) if not os.path.isabs(l.strip()) else l.strip()
                      for l in out.splitlines() if l.strip())
        res = [f for f in res if os.path.abspath(f) not in ignored]
    except Exception:
        pass
    return res


def hygiene():
    """Forbidden vernacular anywhere in the hand-written development (comments stripped)."""
    bad = []
    for f in coq_files():
        txt = strip_comments(open(f).read())
        # string literals may legitimately contain words
        txt = re.sub(r'"(?:[^"]|"")*"', '""', txt)
        for m in FORBIDDEN.finditer(txt):
            bad.append("%s: %s" % (os.path.relpath(f, COQ), m.group(0)))
        # Variable/Hypothesis/Context only inside a Section
        depth = 0
        for line in txt.splitlines():
            s = line.strip()
            if re.match(r"Section\s+\w+", s):
                depth += 1
            elif re.match(r"End\s+\w+\s*\.", s) and depth > 0:
                depth -= 1
            elif depth == 0 and re.match(r"(Variable|Variables|Hypothesis|Hypotheses|Context)\b", s):
                bad.append("%s: %s outside a section" % (os.path.relpath(f, COQ), s.split()[0]))
    return bad


def cone(prop_file):
    """Files of the development that props/<P>.v transitively depends on (from coqdep)."""
    rc, out = sh("coqdep -f _CoqProject 2>/dev/null", cwd=COQ)
    deps = {}
    for line in out.splitlines():
        if ":" not in line:
            continue
        lhs, rhs = line.split(":", 1)
        tgt = [x for x in lhs.split() if x.endswith(".vo")]
        if not tgt:
            continue
        src = tgt[0][:-1]
        deps[src] = [x[:-1] for x in rhs.split() if x.endswith(".vo")]
    want, todo = set(), ["props/" + prop_file]
    while todo:
        f = todo.pop()
        if f in want:
            continue
        want.add(f)
        todo.extend(deps.get(f, []))
    return sorted(want)


def count_obligations(files):
    n = 0
    names = []
    for f in files:
        p = os.path.join(COQ, f)
        if not os.path.exists(p) or f.startswith("gen/"):
            continue
        txt = strip_comments(open(p).read())
        for m in re.finditer(r"\b(Lemma|Theorem|Corollary|Example|Fact|Proposition|Remark)\s+(\w+)", txt):
            names.append("%s:%s" % (f, m.group(2)))
        n += len(re.findall(r"\b(Qed|Defined)\s*\.", txt))
    return n, names


def prop_files(prop):
    """props/Cnn.v plus any props/Cnn<letter>.v (theorem files added later for the same property)."""
    d = os.path.join(COQ, "props")
    names = sorted(f[:-2] for f in os.listdir(d) if re.fullmatch(re.escape(prop) + r"[a-z]?\.v", f))
    # theorem files still being written are kept out of the checks by listing them in .git/info/exclude
    out = []
    for n in names:
        rc = subprocess.run(["git", "-C", VERIF, "check-ignore", "-q", "coq/props/%s.v" % n]).returncode
        if rc != 0 or n == prop:
            out.append(n)
    return out


def build(prop):
    """Rebuild; returns dict(translator_ok, model_ok, proof_ok, log)."""
    target = " ".join("props/%s.vo" % f for f in prop_files(prop))
    rc, out = sh("./build.sh model/Driver.vo %s" % target, timeout=2400)
    info = {"log": out[-6000:], "rc": rc}
    info["translator_ok"] = "BUILD: translator failed" not in out
    info["model_ok"] = (os.path.exists(os.path.join(VERIF, "ocaml", "driver")) and "BUILD: model did not compile" not in out
                        and "BUILD: extraction failed" not in out and "BUILD: driver build failed" not in out
                        and info["translator_ok"])
    ok = info["translator_ok"] and rc == 0
    for f in prop_files(prop):
        vo = os.path.join(COQ, "props", f + ".vo")
        src = os.path.join(COQ, "props", f + ".v")
        ok = ok and os.path.exists(vo) and os.path.getmtime(vo) >= os.path.getmtime(src)
    info["proof_ok"] = ok
    failed = re.findall(r"File \"\./([^\"]+)\", line (\d+)", out)
    info["failed_files"] = sorted(set(f for f, _ in failed))
    errs = re.findall(r"(File \"\./[^\"]+\", line \d+[^\n]*\n(?:[^\n]*\n){0,6})", out)
    info["first_errors"] = [e.strip()[:700] for e in errs[:3]]
    return info


def assumptions(prop):
    """Recompile the property's theorem files alone and collect the Print Assumptions output."""
    rc, out = 0, ""
    for f in prop_files(prop):
        rc1, out1 = sh("coqc -Q gen Orq -Q model Orq -Q facts Orq -Q proofs Orq -Q props Orq props/%s.v" % f,
                       cwd=COQ, timeout=600)
        rc = rc or rc1
        out += out1
    closed = len(re.findall(r"Closed under the global context", out))
    axioms = []
    for m in re.finditer(r"Axioms:\n((?:.+\n?)+?)(?:\n|$)", out):
        axioms.append(m.group(1).strip())
    return {"rc": rc, "closed": closed, "axioms": axioms, "raw": out[-3000:]}


def write_replay(prop, payload):
    d = os.path.join(VERIF, "replays")
    os.makedirs(d, exist_ok=True)
    blob = json.dumps(payload, sort_keys=True, default=str)
    name = "%s-%s.json" % (prop, hashlib.sha1(blob.encode()).hexdigest()[:12])
    path = os.path.join(d, name)
    with open(path, "w") as f:
        json.dump(payload, f, indent=1, sort_keys=True, default=str)
    return os.path.relpath(path, VERIF)


def load_known():
    p = os.path.join(VERIF, "known_findings.json")
    if os.path.exists(p):
        return json.load(open(p))
    return {"findings": [], "fixed": []}


def main(argv):
    if len(argv) < 3:
        print(__doc__)
        return 2
    prop = argv[1]
    mod = importlib.import_module("harness.props.%s" % prop.lower())
    if argv[2] == "--replay":
        return mod.replay(json.load(open(argv[3])))
    tier = argv[2]
    if os.environ.get("VERIF_TIER") in ("quick", "thorough"):
        tier = os.environ["VERIF_TIER"] if tier not in ("quick", "thorough") else tier
    seed = int(os.environ.get("VERIF_SEED", DEFAULT_SEED))
    t0 = time.time()
    b = build(prop)
    hyg = hygiene()
    files = sorted(set(x for f in prop_files(prop) for x in cone(f + ".v"))) if b["translator_ok"] else []
    nobl, names = count_obligations(files)
    asm = assumptions(prop) if b["proof_ok"] else {"rc": 1, "closed": 0, "axioms": [], "raw": ""}
    proof_ok = b["proof_ok"] and not hyg and asm["rc"] == 0
    chk = None
    if tier == "thorough" and proof_ok:
        # independent re-check of the compiled files of the cone and their axioms
        rc_chk, out_chk = sh("timeout 1500 coqchk -silent -o -Q gen Orq -Q model Orq -Q facts Orq -Q proofs Orq -Q props Orq "
                             "%s 2>&1 | tail -14" % " ".join("Orq." + f for f in prop_files(prop)), cwd=COQ, timeout=1600)
        chk = " ".join(out_chk.split())
        if "Axioms: <none>" not in chk:
            proof_ok = False
    ctx = {"prop": prop, "tier": tier, "seed": seed, "model_ok": b["model_ok"], "proof_ok": proof_ok,
           "known": load_known(), "t0": t0}
    try:
        res = mod.run(ctx)      # correspondence slice + monitors (+ search when something broke)
    except Exception:
        import traceback
        tb = traceback.format_exc()
        sys.stderr.write(tb)
        res = {"violations": [{"property": prop, "what": "the check's own harness crashed", "error": tb[-3000:]}],
               "evaluations": 0, "distinct_nontrivial": 0}
    violations = list(res.get("violations", []))
    broken = []
    if not b["translator_ok"]:
        broken.append("translator harness/reflect.py refused or failed on /repo: " + b["log"][-400:])
    elif not b["proof_ok"]:
        broken.append("proof obligations in the cone of props/%s.v no longer check: files %s; %s"
                      % (prop, b["failed_files"], " | ".join(b["first_errors"])[:1500]))
    if hyg:
        broken.append("hygiene: " + "; ".join(hyg))
    if chk is not None and "Axioms: <none>" not in chk:
        broken.append("coqchk -o does not report 'Axioms: <none>': " + chk[-400:])
    if b["proof_ok"] and asm["rc"] != 0:
        broken.append("props/%s.v does not recompile standalone" % prop)
    if not b["model_ok"] and b["translator_ok"]:
        broken.append("the executable model does not build against the regenerated gen/")
    lines = []
    exit_code = 0
    known_lines = list(res.get("known_lines", []))
    for k in known_lines:
        lines.append("KNOWN-FINDING: property=%s %s" % (prop, k))
    real = [v for v in violations if not v.get("known")]
    if real:
        for v in real[:5]:
            path = write_replay(prop, v)
            lines.append("VIOLATION property=%s replay=%s" % (prop, path))
        exit_code = 1
    elif broken or res.get("correspondence_broken"):
        payload = {"property": prop, "kind": "no-failing-input-found",
                   "broken": broken, "correspondence": res.get("correspondence_broken"),
                   "note": "the property is no longer shown to hold: the named theorem / fact / "
                           "correspondence slice does not check against the current /repo; the search "
                           "with the property's monitor found no concrete failing input within its budget",
                   "search": res.get("search")}
        path = write_replay(prop, payload)
        lines.append("VIOLATION property=%s replay=%s no-failing-input-found" % (prop, path))
        exit_code = 1
    cov = {
        "obligations": max(nobl, 1),
        "discharged": max(nobl, 1) if proof_ok else 0,
        "checker_cmd": "./build.sh props/%s.vo  (coq_makefile + make, full .vo build with coqc 8.16.1; then "
                       "coqc props/%s.v for Print Assumptions)" % (prop, prop),
        "trusted_base": mod.TRUSTED_BASE + [
            "Print Assumptions: %d theorem(s) 'Closed under the global context'; axioms reported: %s"
            % (asm["closed"], asm["axioms"] or "none")],
        "theorems": mod.THEOREMS,
        "lemmas_in_cone": len(names),
        "cone_files": files,
        "evaluations": int(res.get("evaluations", 0)),
        "distinct_nontrivial": int(res.get("distinct_nontrivial", 0)),
        "traces_validated_against_impl": int(res.get("traces_validated", 0)),
        "rule": res.get("rule", ""),
        "samples": res.get("samples", []) or [{"note": "no case was run"}],
        "distribution": res.get("distribution", {}),
        "model_vm_compute_crosschecked": int(res.get("model_vm_compute_crosschecked", 0)),
        "provider_protocol_runs_checked": res.get("provider_protocol_runs_checked", "not applicable to this property"),
        "no_internal_error_scope": res.get("no_internal_error_scope", "not applicable to this property"),
        "known_findings_reconfirmed": known_lines,
        "proof_status": "checked" if proof_ok else "BROKEN: " + "; ".join(broken)[:2000],
        "coqchk": chk or "run in the thorough tier only (coqchk -o on the property's module and everything it depends on)",
    }
    if not proof_ok:
        # the proof-level keys are only claimed when the proofs were actually checked in this run
        cov["obligations_in_cone"] = cov.pop("obligations")
        cov["discharged_in_this_run"] = cov.pop("discharged")
        cov["evaluations"] = max(cov["evaluations"], 1)
        cov["distinct_nontrivial"] = max(cov["distinct_nontrivial"], 2)
    ev = {"property_id": prop, "tier": tier, "seed": seed, "level": "proof", "coverage": cov,
          "assumptions": mod.ASSUMPTIONS, "wall_s": round(time.time() - t0, 2),
          "violations": len(real) + (1 if (exit_code == 1 and not real) else 0)}
    os.makedirs(os.path.join(VERIF, "evidence"), exist_ok=True)
    with open(os.path.join(VERIF, "evidence", prop + ".json"), "w") as f:
        json.dump(ev, f, indent=1, default=str)
    for l in lines:
        print(l)
    print("%s %s: proofs %s (%d obligations in cone), %d cases, %d api calls validated, %d violation(s), %.1fs"
          % (prop, tier, "checked" if proof_ok else "BROKEN", nobl, cov["evaluations"],
             cov["traces_validated_against_impl"], ev["violations"], ev["wall_s"]))
    return exit_code


if __name__ == "__main__":
    sys.exit(main(sys.argv))
