"""Correspondence runner: generated (definition, history) cases through engine and model."""
import json
import multiprocessing
import os
import random
import sys
import time
import traceback

from harness import engine, progs, provider


def run_case(args):
    seed, fam, with_model = args
    rng = random.Random(seed)
    try:
        definition, inputs = progs.gen_definition(rng, fam)
    except Exception:
        return {"seed": seed, "error": "generator: " + traceback.format_exc()}
    out = {"seed": seed, "definition": definition, "inputs": inputs}
    sess = None
    try:
        sess = provider.Session(definition, inputs, with_model=with_model)
        oracle = progs.Oracle(seed, fam)
        try:
            progs.run_history(sess, rng, fam, oracle)
        except provider.Divergence as d:
            out["divergence"] = d.info
        out["ops"] = [op for op, _ in sess.trace]
        out["trace"] = sess.trace
        out["final_status"] = sess.status()
        out["evals"] = sess.model.evals if sess.model else 0
    except Exception:
        out["error"] = traceback.format_exc()
    finally:
        if sess:
            sess.close()
    return out


def summarize(r):
    """Features of a case for the distribution report."""
    f = {}
    if "trace" not in r:
        return f
    ops = r["ops"]
    f["calls"] = len(ops)
    f["kinds"] = {}
    for op in ops:
        f["kinds"][op[0]] = f["kinds"].get(op[0], 0) + 1
    f["raised"] = sum(1 for _, o in r["trace"] if o["raised"])
    f["final"] = r.get("final_status")
    last = r["trace"][-1][1]["state"]["state"] if r["trace"] else {}
    f["records"] = len(last.get("sequence", []))
    f["errors"] = len(r["trace"][-1][1]["state"]["errors"]) if r["trace"] else 0
    return f


def run_many(seeds, fam, with_model=True, procs=16):
    with multiprocessing.Pool(procs) as pool:
        return pool.map(run_case, [(s, fam, with_model) for s in seeds], chunksize=4)


if __name__ == "__main__":
    n = int(sys.argv[1]) if len(sys.argv) > 1 else 100
    base = int(sys.argv[2]) if len(sys.argv) > 2 else 0
    fam = progs.family()
    t0 = time.time()
    rs = run_many(range(base, base + n), fam)
    bad = [r for r in rs if "divergence" in r or "error" in r]
    finals = {}
    for r in rs:
        finals[r.get("final_status")] = finals.get(r.get("final_status"), 0) + 1
    print("cases", n, "bad", len(bad), "finals", finals, "calls", sum(len(r.get("ops", [])) for r in rs),
          "wall %.1fs" % (time.time() - t0))
    for r in bad[:8]:
        print("---- seed", r["seed"])
        if "error" in r:
            print(r["error"][-1500:])
        else:
            print(json.dumps(r["divergence"], default=str)[:1500])
            print(json.dumps(r["definition"])[:1500])
            print(json.dumps(r["ops"][-6:]))
