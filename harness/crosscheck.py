"""Cross-check of the extraction pipeline: a few cases are evaluated twice, by the extracted OCaml driver and
inside Coq with vm_compute (the evaluator being the finite table of answers recorded during the driver run).
A difference means the trusted base (extraction, driver glue, wire syntax) is broken -- it is reported as
such, not as a property violation."""
import os
import random
import shutil
import subprocess
import tempfile

from harness import engine, progs, provider

VERIF = os.path.dirname(os.path.dirname(os.path.abspath(__file__)))
COQ = os.path.join(VERIF, "coq")


def coq_str(s):
    if not all(32 <= ord(ch) < 127 or ch in "\n\t" for ch in s):
        raise ValueError("non-ascii")
    return '"' + s.replace('"', '""') + '"'


def coq_json(v):
    if v is None:
        return "JNull"
    if v is True:
        return "(JBool true)"
    if v is False:
        return "(JBool false)"
    if isinstance(v, int):
        return "(JInt (%d)%%Z)" % v
    if isinstance(v, float):
        return "(JFloat %s)" % coq_str(v.hex())
    if isinstance(v, str):
        return "(JStr %s)" % coq_str(v)
    if isinstance(v, list):
        return "(JList [%s])" % "; ".join(coq_json(x) for x in v)
    if isinstance(v, dict):
        return "(JDict [%s])" % "; ".join("(%s, %s)" % (coq_str(k), coq_json(x)) for k, x in v.items())
    raise ValueError(type(v))


class RecordingModel(engine.Model):
    def __init__(self, *a, **kw):
        self.table = []
        engine.Model.__init__(self, *a, evaluator=self._eval, **kw)

    def _eval(self, stmt, ctx):
        ans = engine.real_eval(stmt, ctx)
        self.table.append((stmt, ctx, ans))
        return ans


def one_case(seed, fam):
    rng = random.Random(seed)
    definition, inputs = progs.gen_definition(rng, fam)
    # ops from an adaptive engine-only run
    sess = provider.Session(definition, inputs, with_model=False)
    try:
        progs.run_history(sess, rng, fam, progs.Oracle(seed, fam), max_steps=14)
        ops = [op for op, _ in sess.trace]
    finally:
        sess.close()
    m = RecordingModel(definition, inputs)
    try:
        last = None
        for op in ops:
            last = m._call(["op", op])
        final = last[1]["state"] if last else None
    finally:
        m.close()
    return m.nspec, m.ngraph, inputs, ops, m.table, final


def coq_case(idx, nspec, ngraph, inputs, ops, table, final):
    rows = []
    for stmt, ctx, ans in table:
        if ans[0] == "ok":
            r = "EvOk %s" % coq_json(ans[1])
        else:
            r = "EvErr {| x_cls := %s; x_msg := %s; x_expr := %s |}" % (coq_str(ans[1]), coq_str(ans[2]),
                                                                      "true" if ans[3] else "false")
        rows.append("(%s, %s, %s)" % (coq_str(stmt), coq_json(ctx), r))
    return """
Definition table%(i)d : list (string * json * evalres) := [%(rows)s].
Definition ev%(i)d (s : string) (ctx : dict) : evalres :=
  match find (fun '(s', c', _) => String.eqb s s' && json_eqb (JDict ctx) c') table%(i)d with
  | Some (_, _, r) => r
  | None => EvErr {| x_cls := "TableMiss"; x_msg := s; x_expr := false |}
  end.
Definition result%(i)d : bool :=
  match start %(spec)s %(graph)s %(inputs)s (JDict []) with
  | Some c0 =>
      let c := fold_left (fun c op => fst (run_op ev%(i)d c op)) [%(ops)s] c0 in
      json_eqb (enc_cstate c) %(final)s
  | None => false
  end.
Eval vm_compute in ("CROSSCHECK", %(i)d, result%(i)d).
""" % {"i": idx, "rows": ";\n  ".join(rows), "spec": coq_json(nspec), "graph": coq_json(ngraph),
       "inputs": coq_json(inputs), "ops": "; ".join(coq_json(op) for op in ops), "final": coq_json(final)}


def run(seed, n=4):
    """Returns (cases checked, list of failures)."""
    fam = progs.family(n_tasks=(2, 4), steps=(6, 14), p_jinja=0.2, w_malformed=0.0)
    parts, checked = [], 0
    for i in range(n * 3):
        if checked >= n:
            break
        try:
            c = one_case(seed * 1000 + i, fam)
            parts.append(coq_case(checked, *c))
            checked += 1
        except ValueError:
            continue
    tmp = tempfile.mkdtemp(prefix="xchk_")
    try:
        path = os.path.join(tmp, "xcheck.v")
        with open(path, "w") as f:
            f.write("From Coq Require Import String List Bool ZArith.\n"
                    "From Orq Require Import Base State Machines Codec Conductor Decode Api Driver.\n"
                    "Import ListNotations.\nOpen Scope string_scope.\n" + "\n".join(parts))
        p = subprocess.run(["flock", "-s", os.path.join(COQ, ".lock"), "timeout", "300", "coqc", "-Q", os.path.join(COQ, "gen"), "Orq", "-Q",
                            os.path.join(COQ, "model"), "Orq", path], stdout=subprocess.PIPE, stderr=subprocess.STDOUT,
                           text=True, cwd=tmp)
        out = p.stdout
        ok = out.count("true)")
        fails = []
        if p.returncode != 0 or ok != checked:
            fails.append({"what": "in-Coq evaluation of the model and the extracted driver disagree (or the case file "
                                  "does not compile): the trusted base (extraction / driver glue) is broken",
                          "output": out[-1500:]})
        return checked, fails
    finally:
        shutil.rmtree(tmp, ignore_errors=True)


if __name__ == "__main__":
    import sys
    print(run(int(sys.argv[1]) if len(sys.argv) > 1 else 1))
