"""Runs the same operation list on the real engine (Impl) and on the extracted model (Model),
returning one canonical observation per operation."""
import collections.abc  # noqa: F401  (yaql on py3.12 needs it imported first)
import copy
import datetime
import json
import logging
import os
import subprocess

from harness import wire

logging.disable(logging.CRITICAL)

from orquesta import conducting, events, exceptions as exc, requests  # noqa: E402
from orquesta.expressions import base as expr_base  # noqa: E402
from orquesta.specs import native as native_specs  # noqa: E402

VERIF = os.path.dirname(os.path.dirname(os.path.abspath(__file__)))
DRIVER = os.path.join(VERIF, "ocaml", "driver")

BUILTIN_EXC = ("TypeError", "ValueError", "KeyError", "IndexError", "AttributeError")


# ----------------------------------------------------------------- canonical forms

def to_json(v):
    """Python value produced by the engine -> plain JSON value (tuples become lists)."""
    if v is None or isinstance(v, (bool, int, float, str)):
        return v
    if isinstance(v, (list, tuple)):
        return [to_json(x) for x in v]
    if isinstance(v, collections.abc.Mapping):
        return {(k if isinstance(k, str) else str(k)): to_json(x) for k, x in v.items()}
    if isinstance(v, (set, frozenset)):
        return sorted((to_json(x) for x in v), key=lambda x: json.dumps(x, sort_keys=True))
    if isinstance(v, (datetime.datetime, datetime.date)):
        return "<%s %s>" % (type(v).__name__, v.isoformat())      # engine-only runs with non-JSON inputs
    if hasattr(v, "__iter__"):
        return [to_json(x) for x in v]
    raise wire.WireError("engine value of type %s is not JSON" % type(v).__name__)


def canon_message(m):
    for b in BUILTIN_EXC:
        if m.startswith(b + ":"):
            return b + ":"
    # the JSON model has no tuples: the evaluator oracle hands a tuple over as a list
    return m.replace("Unable to use the value of type 'tuple' evaluated", "Unable to use the value of type 'list' evaluated")


def canon_errent(e):
    e = dict(e)
    if "message" in e:
        e["message"] = canon_message(e["message"])
    return e


def canon_state(s):
    s = copy.deepcopy(s)
    s["errors"] = [canon_errent(e) for e in s.get("errors", [])]
    s["log"] = [canon_errent(e) for e in s.get("log", [])]
    return s


def canon_offer(o):
    r = {"id": o["id"], "route": o["route"],
         "ctx": {k: v for k, v in o["ctx"].items() if k != "__state"},
         "actions": o["actions"]}
    for k in ("delay", "items_count", "concurrency"):
        if k in o:
            r[k] = o[k]
    return to_json(r)


def canon_raised(cls, msg):
    if cls in BUILTIN_EXC:
        return [cls, ""]
    return [cls, msg]


def dumps_sorted(v):
    return json.dumps(v, sort_keys=True, default=lambda x: "<%s>" % type(x).__name__)


# ------------------------------------------------------------- normalised spec/graph

def _pairs(lst):
    out = []
    for item in lst or []:
        if isinstance(item, dict):
            (k, v), = list(item.items())[:1]
            out.append([k, v])
        else:
            out.append([item, None])
    return out


def norm_spec(wf_spec):
    """What the conductor reads from the spec objects, as data (see coq/model/State.v)."""
    tasks = []
    for name in wf_spec.tasks.keys():
        ts = wf_spec.tasks.get_task(name)
        w = None
        if ts.has_items():
            its = ts.get_items_spec()
            items = its.items
            if " in " not in items:
                expr, keys = items.strip(), None
            else:
                expr = items[items.index(" in ") + 4:].strip()
                keys = items[: items.index(" in ")].replace(" ", "").split(",")
            w = {"expr": expr, "keys": keys, "concurrency": getattr(its, "concurrency", None)}
        nxt = []
        for tr in getattr(ts, "next") or []:
            do = getattr(tr, "do") or []
            if isinstance(do, str):
                do = [x.strip() for x in do.split(",")]
            nxt.append({"when": getattr(tr, "when") or None,
                        "publish": _pairs(getattr(tr, "publish") or []),
                        "do": list(do)})
        tasks.append([name, {"action": ts.action, "input": getattr(ts, "input", {}), "with": w,
                             "delay": getattr(ts, "delay", None), "join": getattr(ts, "join", None),
                             "next": nxt}])
    return {"input": _pairs(getattr(wf_spec, "input")), "vars": _pairs(getattr(wf_spec, "vars")),
            "output": _pairs(getattr(wf_spec, "output")), "tasks": tasks}


def norm_graph(graph):
    g = graph._graph
    nodes = [{"id": n, "barrier": d.get("barrier"), "splits": d.get("splits"), "retry": d.get("retry")}
             for n, d in g.nodes(data=True)]
    edges = [{"src": s, "dst": d, "key": k, "ref": a.get("ref"), "criteria": a.get("criteria") or []}
             for s, d, k, a in g.edges(keys=True, data=True)]
    return {"nodes": nodes, "edges": edges}


# ------------------------------------------------------------------------ the engine

def _mk_event(e):
    if e[0] == "action":
        return events.ActionExecutionEvent(e[1], result=e[2])
    if e[0] == "item":
        return events.TaskItemActionExecutionEvent(e[1], e[2], result=e[3], accumulated_result=e[4])
    raise ValueError(e)


class Impl(object):
    def __init__(self, definition, inputs=None, parent=None):
        self.spec = native_specs.WorkflowSpec(copy.deepcopy(definition))
        self.c = conducting.WorkflowConductor(self.spec, context=copy.deepcopy(parent) or None,
                                              inputs=copy.deepcopy(inputs) or None)

    def dynamic_state(self):
        s = self.c.serialize()
        return to_json({k: s[k] for k in ("input", "context", "state", "log", "errors", "output")})

    def apply(self, op):
        kind = op[0]
        raised, result = None, None
        try:
            if kind == "serialize":
                self.c.serialize()
            elif kind == "request_status":
                self.c.request_workflow_status(op[1])
            elif kind == "get_next":
                result = [canon_offer(o) for o in self.c.get_next_tasks()]
            elif kind == "event":
                self.c.update_task_state(op[1], op[2], _mk_event(op[3]))
            elif kind == "render":
                self.c.render_workflow_output()
            elif kind == "rerun":
                reqs = [requests.TaskRerunRequest.new(t, r, b) for t, r, b in op[1]]
                self.c.request_workflow_rerun(reqs)
            elif kind == "persist":
                self.c = conducting.WorkflowConductor.deserialize(self.c.serialize())
            else:
                raise ValueError("unknown op %r" % (op,))
        except Exception as e:  # noqa: E722 - the exception class is the observation
            raised = canon_raised(type(e).__name__, str(e))
        return {"raised": raised, "result": result, "state": canon_state(self.dynamic_state()),
                "aliased": self.shared_containers()}

    def shared_containers(self):
        """Python aliasing is outside the Gallina model (values there are immutable): this looks for it directly.
        Within the live workflow state, the BOOKKEEPING containers -- the lists and dicts of task records
        (ctxs.in, prev, next, retry), of staged entries (ctxs.in, prev, items, retry), the route lists and the rerun
        lists -- must each be reachable along one path only; two paths to the same object mean that a later in-place
        update of one silently changes the other (and that a persisted and a live conductor will diverge)."""
        ws = getattr(self.c, "_workflow_state", None)
        if ws is None:
            return []
        seen, shared = {}, []

        def visit(o, path):
            if isinstance(o, (list, dict)):
                k = id(o)
                if k in seen:
                    shared.append([seen[k], path])
                    return
                seen[k] = path
                it = o.items() if isinstance(o, dict) else enumerate(o)
                for kk, v in it:
                    visit(v, "%s.%s" % (path, kk))
        for i, r in enumerate(ws.sequence):
            for f in ("ctxs", "prev", "next", "retry"):
                if f in r:
                    visit(r[f], "sequence[%d].%s" % (i, f))
        for i, st in enumerate(ws.staged):
            for f in ("ctxs", "prev", "retry"):
                if f in st:
                    visit(st[f], "staged[%d].%s" % (i, f))
            # the item table is created as [{"status": null}] * n (one dict n times) and its entries are only ever
            # replaced, never updated in place: only the list itself is tracked
            if "items" in st:
                k = id(st["items"])
                if k in seen:
                    shared.append([seen[k], "staged[%d].items" % i])
                seen[k] = "staged[%d].items" % i
        visit(ws.routes, "routes")
        visit(ws.reruns, "reruns")
        visit(ws.tasks, "tasks")
        return shared[:5]


# ------------------------------------------------------------------------- the model

def real_eval(stmt, ctx):
    try:
        return ["ok", to_json(expr_base.evaluate(stmt, ctx))]
    except Exception as e:
        return ["err", type(e).__name__, str(e), isinstance(e, exc.ExpressionEvaluationException)]


class Model(object):
    def __init__(self, definition, inputs=None, parent=None, evaluator=real_eval):
        spec = native_specs.WorkflowSpec(copy.deepcopy(definition))
        cond = conducting.WorkflowConductor(spec)
        self.nspec = to_json(norm_spec(spec))
        self.ngraph = to_json(norm_graph(cond.graph))
        self.evaluator = evaluator
        self.evals = 0
        self.nonexpr_errors = []   # evaluator failures that were not ExpressionEvaluationExceptions
        self.p = subprocess.Popen([DRIVER], stdin=subprocess.PIPE, stdout=subprocess.PIPE)
        r = self._call(["init", self.nspec, self.ngraph, inputs or {}, parent or {}])
        if r != ["ok"]:
            raise RuntimeError("model refused the definition: %r" % (r,))

    def _call(self, msg):
        wire.write_msg(self.p.stdin, wire.dumps(msg))
        while True:
            r = wire.loads(wire.read_msg(self.p.stdout))
            if r and r[0] == "eval":
                self.evals += 1
                ans = self.evaluator(r[1], r[2])
                if ans[0] == "err" and not ans[3]:
                    self.nonexpr_errors.append((r[1], ans[1], ans[2]))
                wire.write_msg(self.p.stdin, wire.dumps(ans))
                continue
            return r

    def apply(self, op):
        r = self._call(["op", op])
        if not r or r[0] != "ret":
            raise RuntimeError("model driver failed on %r: %r" % (op, r))
        out = r[1]
        raised = out["raised"]
        if raised is not None:
            raised = canon_raised(raised[0], raised[1])
        result = out["result"]
        if op[0] == "get_next" and result is not None:
            result = [canon_offer(o) for o in result]
        return {"raised": raised, "result": result, "state": canon_state(out["state"])}

    def close(self):
        try:
            wire.write_msg(self.p.stdin, wire.dumps(["quit"]))
        except Exception:
            pass
        try:
            self.p.stdin.close()
            self.p.stdout.close()
        except Exception:
            pass
        self.p.wait()


def first_difference(a, b, path=""):
    """Smallest path at which two JSON values differ (for reports)."""
    if type(a) != type(b) and not (isinstance(a, (int, float)) and isinstance(b, (int, float))
                                   and not isinstance(a, bool) and not isinstance(b, bool)):
        return path, a, b
    if isinstance(a, dict):
        for k in sorted(set(a) | set(b)):
            if k not in a or k not in b:
                return path + "." + k, a.get(k, "<absent>"), b.get(k, "<absent>")
            d = first_difference(a[k], b[k], path + "." + k)
            if d:
                return d
        return None
    if isinstance(a, list):
        if len(a) != len(b):
            return path + ".len", len(a), len(b)
        for i, (x, y) in enumerate(zip(a, b)):
            d = first_difference(x, y, "%s[%d]" % (path, i))
            if d:
                return d
        return None
    if a != b:
        return path, a, b
    return None


def run_both(definition, inputs, ops, parent=None):
    """Apply ops to engine and model in lock step; return (observations, first divergence)."""
    impl = Impl(definition, inputs, parent)
    model = Model(definition, inputs, parent)
    obs = []
    try:
        for i, op in enumerate(ops):
            a = impl.apply(op)
            b = model.apply(op)
            obs.append(a)
            if dumps_sorted(a) != dumps_sorted(b):
                return obs, {"step": i, "op": op, "diff": first_difference(a, b)}
        return obs, None
    finally:
        model.close()
