"""Witness programs of the known findings (known_findings.json) and the trigger predicates that decide
whether a violation found by a monitor is one of them.  A witness returns a string describing what
fails when the defect still reproduces on the current /repo, or None."""
import collections.abc  # noqa: F401
import logging

logging.disable(logging.CRITICAL)

from orquesta import conducting, events, statuses as S  # noqa: E402
from orquesta.specs import native as specs  # noqa: E402

COMMANDS = ("continue", "fail", "noop", "retry")


def _mk(wf, inputs=None):
    c = conducting.WorkflowConductor(specs.WorkflowSpec(wf), inputs=inputs)
    c.request_workflow_status(S.RUNNING)
    return c


def _poll(c):
    out = []
    for t in c.get_next_tasks():
        out.append(t["id"])
        for a in t["actions"]:
            if "item_id" in a:
                ev = events.TaskItemActionExecutionEvent(a["item_id"], S.RUNNING)
            else:
                ev = events.ActionExecutionEvent(S.RUNNING)
            c.update_task_state(t["id"], t["route"], ev)
    return out


def _done(c, tid, st=S.SUCCEEDED, route=0, result=None):
    c.update_task_state(tid, route, events.ActionExecutionEvent(st, result=result))


FORK_JOIN = """
version: 1.0
vars: [{x: 0}]
output: [{x: <% ctx().x %>}]
tasks:
  a: {action: core.noop, next: [{publish: [{x: 1}], do: [b, c]}]}
  b: {action: core.noop, next: [{when: <% succeeded() %>, publish: [{x: 2}], do: [j]}]}
  c: {action: core.noop, next: [{when: <% succeeded() %>, do: [j]}]}
  j: {join: JOIN, action: core.noop}
"""


def witness_D1():
    c = _mk(FORK_JOIN.replace("JOIN", "1"))
    _poll(c); _done(c, "a"); _poll(c); _done(c, "b"); _poll(c); _done(c, "j"); _done(c, "c")
    again = _poll(c)
    if "j" in again:
        return "join: 1 over two branches ran, then was offered again when the second branch arrived"
    return None


def witness_D5a():
    c = _mk("""
version: 1.0
vars: [{x: 0}]
output: [{x: <% ctx().x %>}]
tasks:
  a: {action: core.noop, next: [{publish: [{x: 1}], do: [b]}]}
  b: {action: core.noop}
""")
    _poll(c); _done(c, "a"); c.request_workflow_status(S.CANCELING)
    c.render_workflow_output()
    if c.get_workflow_status() == S.CANCELED and c.get_workflow_output() is None and c.errors:
        return "canceled while b was staged: no terminal task, output rendered against an empty context (%s)" \
               % c.errors[0]["message"][:60]
    return None


def witness_D8():
    c = _mk("""
version: 1.0
tasks:
  a: {action: core.noop, next: [{when: <% failed() %>, do: [fail]}, {when: <% succeeded() %>, do: [b]}]}
  b: {action: core.noop}
""")
    _poll(c); _done(c, "a", S.FAILED)
    c.request_workflow_rerun()
    offered = [t["id"] for t in c.get_next_tasks()]
    if "fail" in offered:
        return "default rerun after a fail command offers the engine command 'fail' to the provider"
    return None


def witness_D9():
    c = _mk("version: 1.0\ntasks:\n  a: {action: core.noop}\n")
    _poll(c); _done(c, "a")
    c.request_workflow_rerun()
    if c.get_workflow_status() == S.RESUMING and not c.get_next_tasks():
        return "rerun of a succeeded workflow accepted: status resuming, nothing offered, nothing in flight"
    return None


def witness_D11():
    seen = []
    for order in (("b", "c"), ("c", "b")):
        c = _mk(FORK_JOIN.replace("JOIN", "all"))
        _poll(c); _done(c, "a"); _poll(c)
        for t in order:
            _done(c, t)
        seen.append(c.get_next_tasks()[0]["ctx"]["x"])
    if seen[0] != seen[1]:
        return "join sees x=%r when b reports first and x=%r when c reports first (c only inherited x=1)" % tuple(seen)
    return None


def witness_D21():
    wf = """
version: 1.0
tasks:
  a: {action: core.noop, next: [{when: <% result() = 'x' %>, do: [j]}, {when: <% succeeded() %>, do: [b]}]}
  b: {action: core.noop, next: [{when: <% failed() %>, do: [j]}]}
  j: {join: all, action: core.noop}
"""
    c = _mk(wf)
    _poll(c); _done(c, "a"); _poll(c); _done(c, "b", S.FAILED)
    first = c.get_workflow_status()
    c.request_workflow_rerun()
    _poll(c); _done(c, "b", S.SUCCEEDED); _poll(c)
    clean = _mk(wf)
    _poll(clean); _done(clean, "a"); _poll(clean); _done(clean, "b", S.SUCCEEDED); _poll(clean)
    if first == S.FAILED and c.get_workflow_status() != clean.get_workflow_status():
        return ("b failed and staged the join j; after rerun b succeeds but the stale partially satisfied j stays staged: "
                "the workflow ends %s, the clean run ends %s" % (c.get_workflow_status(), clean.get_workflow_status()))
    return None


def witness_D24():
    c = _mk("""
version: 1.0
tasks:
  w: {with: {items: "<% list(1, 2, 3) %>", concurrency: 1}, action: core.noop}
  k: {action: core.noop}
""")
    _poll(c)
    _done(c, "k", S.CANCELED)                       # a task ends canceled: the workflow becomes canceling
    c.update_task_state("w", 0, events.TaskItemActionExecutionEvent(0, S.SUCCEEDED, result=1, accumulated_result=[1]))
    if c.get_workflow_status() == S.CANCELING and not c.get_next_tasks():
        return ("task k ended canceled, the in-flight item of with-items task w reported: workflow stays canceling with "
                "nothing in flight and nothing offered (w is still running with unoffered items)")
    return None


def witness_D25():
    c = _mk("""
version: 1.0
tasks:
  w: {with: "<% list(1, 2) %>", action: core.noop}
""")
    _poll(c)
    ev = events.TaskItemActionExecutionEvent
    c.update_task_state("w", 0, ev(0, S.SUCCEEDED, result=1, accumulated_result=[1]))
    c.update_task_state("w", 0, ev(1, S.PENDING, accumulated_result=[1, None]))
    c.update_task_state("w", 0, ev(1, S.SUCCEEDED, result=2, accumulated_result=[1, 2]))
    t = c.workflow_state.get_task("w", 0)
    if t["status"] == S.PAUSED and c.get_workflow_status() == S.PAUSED:
        return ("item 1 of with-items task w went pending (task paused) and then succeeded: the completion is ignored, "
                "the task stays paused with every item done")
    return None


def witness_D35():
    def run(pause):
        c = _mk("""
version: 1.0
tasks:
  t1: {with: {items: "<% list(1, 2) %>"}, action: core.noop}
  t0: {action: core.noop}
""")
        c.get_next_tasks()
        c.update_task_state("t0", 0, events.ActionExecutionEvent(S.RUNNING))
        ev = events.TaskItemActionExecutionEvent
        c.update_task_state("t1", 0, ev(0, S.RUNNING))
        c.update_task_state("t1", 0, ev(1, S.RUNNING))
        if pause:
            c.request_workflow_status(S.PAUSING)
        c.update_task_state("t1", 0, ev(0, S.CANCELED, accumulated_result=[None]))
        c.update_task_state("t0", 0, events.ActionExecutionEvent(S.FAILED))
        c.update_task_state("t1", 0, ev(1, S.SUCCEEDED, result=1, accumulated_result=[None, 1]))
        return c.get_workflow_status()
    a, b = run(False), run(True)
    if a == S.CANCELED and b == S.FAILED:
        return ("an item of with-items task t1 is canceled, then t0 fails: the workflow ends canceled; with a pause "
                "requested before, the canceled item is ignored (no row for it from pausing) and it ends failed")
    return None


WITNESS = {"D35": witness_D35, "D25": witness_D25, "D24": witness_D24, "D21": witness_D21, "D1": witness_D1, "D5a": witness_D5a, "D8": witness_D8, "D9": witness_D9, "D11": witness_D11}


def reconfirm(known, prop):
    """KNOWN-FINDING lines for the findings that list prop and still reproduce."""
    lines = []
    for f in known.get("findings", []):
        if prop in f.get("properties", []) and f["id"] in WITNESS:
            try:
                w = WITNESS[f["id"]]()
            except Exception as e:  # the witness itself must never break a check
                w = None
            if w:
                lines.append("%s %s" % (f["id"], w))
    return lines


# ------------------------------------------------------------------ trigger predicates on traces

def count_joins_below_inbound(definition):
    """tasks with join: N where N < number of distinct inbound tasks"""
    tasks = definition.get("tasks", {})
    inbound = {t: set() for t in tasks}
    for t, sp in tasks.items():
        for tr in sp.get("next") or []:
            do = tr.get("do") or []
            if isinstance(do, str):
                do = [x.strip() for x in do.split(",")]
            for d in do:
                if d in inbound:
                    inbound[d].add(t)
    return [t for t, sp in tasks.items()
            if isinstance(sp.get("join"), int) and not isinstance(sp.get("join"), bool) and sp["join"] < len(inbound[t])]


def trig_late_join_arrival(sess, upto=None):
    js = count_joins_below_inbound(sess.definition)
    if not js:
        return False
    prev = None
    for i, (op, obs) in enumerate(sess.trace):
        if upto is not None and i > upto:
            break
        st = obs["state"]["state"]
        if prev is not None:
            for s in st["staged"]:
                if s["id"] in js and ("%s__r%s" % (s["id"], s["route"])) in prev["tasks"]:
                    was = [p for p in prev["staged"] if p["id"] == s["id"] and p["route"] == s["route"]]
                    if not was or was[0]["prev"] != s["prev"]:
                        return True
        prev = st
    return False


def trig_completed_without_terminal(sess, upto=None):
    for i, (op, obs) in enumerate(sess.trace):
        if upto is not None and i > upto:
            break
        st = obs["state"]["state"]
        if st["status"] in ("succeeded", "failed", "canceled", "timeout", "abandoned") \
                and not any(r.get("term") for r in st["sequence"]):
            return True
    return False


def trig_rerun_of_command(sess, upto=None):
    for i, (op, obs) in enumerate(sess.trace):
        if upto is not None and i > upto:
            break
        if op[0] == "rerun" and obs["raised"] is None:
            st = obs["state"]["state"]
            last = (st.get("reruns") or [[]])[-1]
            if any(st["sequence"][k]["id"] in COMMANDS for k in last if k < len(st["sequence"])):
                return True
    return False


def trig_empty_rerun(sess, upto=None):
    for i, (op, obs) in enumerate(sess.trace):
        if upto is not None and i > upto:
            break
        if op[0] == "rerun" and obs["raised"] is None:
            st = obs["state"]["state"]
            ready = [s for s in st["staged"] if s["ready"] and not s.get("completed")]
            act = [r for r in st["sequence"] if r.get("status") in
                   ("requested", "scheduled", "delayed", "running", "resuming", "pausing", "canceling", "paused", "pending")]
            if not ready and not act:
                return True
    return False


def trig_rerun_of_transitioned(sess, upto=None):
    """an accepted rerun re-executes a record whose first attempt already took a transition"""
    for i, (op, obs) in enumerate(sess.trace):
        if upto is not None and i > upto:
            break
        if op[0] == "rerun" and obs["raised"] is None:
            st = obs["state"]["state"]
            last = (st.get("reruns") or [[]])[-1]
            if any(any(st["sequence"][k]["next"].values()) for k in last if k < len(st["sequence"])):
                return True
    return False


def trig_idle_items_while_held(sess, upto=None):
    """the workflow is canceling/pausing (because a task, not a request, made it so) while a with-items task is
    still running with items that were never offered and none active: nothing will ever report for it"""
    for i, (op, obs) in enumerate(sess.trace):
        if upto is not None and i > upto:
            break
        st = obs["state"]["state"]
        if st["status"] in ("canceling", "pausing"):
            for s in st["staged"]:
                items = [x["status"] for x in s.get("items", [])]
                key = "%s__r%s" % (s["id"], s["route"])
                if items and "null" in items and not any(x in ("requested", "scheduled", "delayed", "running", "resuming",
                                                                "pausing", "canceling") for x in items) \
                        and key in st["tasks"] and st["sequence"][st["tasks"][key]].get("status") in ("running",):
                    return True
    return False


def trig_paused_items_task_done(sess, upto=None):
    """a with-items task is paused although none of its items is pending/paused/active any more"""
    for i, (op, obs) in enumerate(sess.trace):
        if upto is not None and i > upto:
            break
        st = obs["state"]["state"]
        for s in st["staged"]:
            items = [x["status"] for x in s.get("items", [])]
            key = "%s__r%s" % (s["id"], s["route"])
            # the paused row of the task table accepts no item event: neither a completion nor a resume of the item
            # that was paused or pending is taken into account, so the task stays paused with no item dormant
            if items and key in st["tasks"] and st["sequence"][st["tasks"][key]].get("status") == "paused" \
                    and (not any(x in ("paused", "pending") for x in items)
                         or any(x in ("running", "resuming", "requested", "scheduled", "delayed", "pausing", "canceling")
                                for x in items)):
                return True
    return False


TRIGGERS = {"D25": trig_paused_items_task_done, "D24": trig_idle_items_while_held, "D21": trig_rerun_of_transitioned, "D1": trig_late_join_arrival, "D5a": trig_completed_without_terminal,
            "D8": trig_rerun_of_command, "D9": trig_empty_rerun}
