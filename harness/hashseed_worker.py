"""Replays stored cases in a fresh interpreter (its PYTHONHASHSEED is set by the caller) and prints one
digest per artefact per case: graph, inspection report, every per-step observation, errors, output."""
import collections.abc  # noqa: F401
import copy
import hashlib
import json
import sys

from harness import engine
from orquesta.specs import native as native_specs
from orquesta import conducting


def dig(v):
    return hashlib.sha1(json.dumps(v, sort_keys=False, default=str).encode()).hexdigest()[:16]


def main():
    cases = json.load(open(sys.argv[1]))
    out = []
    for c in cases:
        r = {}
        try:
            spec = native_specs.WorkflowSpec(copy.deepcopy(c["definition"]))
            r["inspect"] = dig(spec.inspect())
            cond = conducting.WorkflowConductor(spec)
            r["graph"] = dig(cond.graph.serialize())
            im = engine.Impl(c["definition"], c.get("inputs"))
            steps = []
            for op in c["ops"]:
                o = im.apply(op)
                # key order of dicts is part of what is compared (no sorting): iteration-order dependence shows here
                steps.append(dig([o["raised"], o["result"], o["state"]]))
            r["steps"] = steps
            r["final"] = dig(im.c.serialize())
        except Exception as e:
            r["error"] = "%s: %s" % (type(e).__name__, e)
        out.append(r)
    json.dump(out, sys.stdout)


if __name__ == "__main__":
    main()
