"""Property monitors over engine traces.  A monitor takes a finished Session (engine side only is
read: sess.trace = [(op, observation)], sess.tags, sess.inflight_log, sess.definition) and returns a
list of violations {what, step, ...}.  Every clause is either the conclusion of a proved theorem
or a literal clause of the property text; monitors are used to search for concrete failing
inputs and as tests of the clauses that are not proved."""
from harness import engine

COMPLETED = ("succeeded", "failed", "timeout", "abandoned", "canceled")
ACTIVE = ("requested", "scheduled", "delayed", "running", "resuming", "pausing", "canceling")
RUNNING_ST = ("requested", "scheduled", "delayed", "running", "resuming", "retrying")
ABENDED = ("failed", "timeout", "abandoned")


def wf_status(obs):
    return obs["state"]["state"]["status"]


def states(sess):
    return [o["state"] for _, o in sess.trace]


def c04(sess):
    """Terminal statuses are final; no offers after them; late reports absorbed; rejected requests inert."""
    out = []
    prev = None
    for i, (op, obs) in enumerate(sess.trace):
        if prev is not None:
            sb, sa = wf_status(prev), wf_status(obs)
            accepted_rerun = op[0] == "rerun" and obs["raised"] is None
            if sb in ("failed", "canceled") and sa != sb and not accepted_rerun:
                out.append({"what": "terminal status %s changed to %s by %s" % (sb, sa, op[0]), "step": i})
            if sb == "succeeded" and sa not in ("succeeded", "failed") and not accepted_rerun:
                out.append({"what": "succeeded changed to %s by %s" % (sa, op[0]), "step": i})
            if op[0] == "get_next" and sb in ("succeeded", "canceled") and obs["result"]:
                out.append({"what": "tasks offered in status %s: %s" % (sb, [o["id"] for o in obs["result"]]),
                            "step": i})
            if op[0] == "get_next" and sb == "failed" and obs["result"]:
                flagged = set((s["id"], s["route"]) for s in prev["state"]["state"]["staged"]
                              if s.get("run_on_fail"))
                bad = [o["id"] for o in obs["result"] if (o["id"], o["route"]) not in flagged]
                if bad:
                    out.append({"what": "failed workflow offers tasks that are not clean-up tasks: %s" % bad,
                                "step": i})
            if sess.tags[i] == "report" and sb in ("failed", "canceled", "succeeded") and obs["raised"]:
                out.append({"what": "late report in status %s raised %s" % (sb, obs["raised"]), "step": i})
            if op[0] == "request_status" and obs["raised"] is not None:
                if engine.dumps_sorted(prev["state"]) != engine.dumps_sorted(obs["state"]):
                    d = engine.first_difference(prev["state"], obs["state"])
                    out.append({"what": "rejected status request %s (%s) changed the persisted state at %s"
                                        % (op[1], obs["raised"][0], d[0] if d else "?"), "step": i})
        prev = obs
    return out
