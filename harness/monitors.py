"""Property monitors over engine traces.  A monitor takes a finished Session (engine side only is
read: sess.trace = [(op, observation)], sess.tags, sess.inflight_log, sess.definition) and returns a
list of violations {what, step, ...}.  Every clause is either the conclusion of a proved theorem
or a literal clause of the property text; monitors are used to search for concrete failing
inputs and as tests of the clauses that are not proved."""
from harness import engine

COMPLETED = ("succeeded", "failed", "timeout", "abandoned", "canceled")
ACTIVE = ("requested", "scheduled", "delayed", "running", "resuming", "pausing", "canceling")
RUNNING_ST = ("requested", "scheduled", "delayed", "running", "resuming", "retrying")
ABENDED = ("failed", "timeout", "abandoned")


def wf_status(obs):
    return obs["state"]["state"]["status"]


def states(sess):
    return [o["state"] for _, o in sess.trace]


def c04(sess):
    """Terminal statuses are final; no offers after them; late reports absorbed; rejected requests inert."""
    out = []
    prev = None
    for i, (op, obs) in enumerate(sess.trace):
        if prev is not None:
            sb, sa = wf_status(prev), wf_status(obs)
            accepted_rerun = op[0] == "rerun" and obs["raised"] is None
            if sb in ("failed", "canceled") and sa != sb and not accepted_rerun:
                out.append({"what": "terminal status %s changed to %s by %s" % (sb, sa, op[0]), "step": i})
            if sb == "succeeded" and sa not in ("succeeded", "failed") and not accepted_rerun:
                out.append({"what": "succeeded changed to %s by %s" % (sa, op[0]), "step": i})
            if op[0] == "get_next" and sb in ("succeeded", "canceled") and obs["result"]:
                out.append({"what": "tasks offered in status %s: %s" % (sb, [o["id"] for o in obs["result"]]),
                            "step": i})
            if op[0] == "get_next" and sb == "failed" and obs["result"]:
                flagged = set((s["id"], s["route"]) for s in prev["state"]["state"]["staged"]
                              if s.get("run_on_fail"))
                bad = [o["id"] for o in obs["result"] if (o["id"], o["route"]) not in flagged]
                if bad:
                    out.append({"what": "failed workflow offers tasks that are not clean-up tasks: %s" % bad,
                                "step": i})
            if sess.tags[i] == "report" and sb in ("failed", "canceled", "succeeded") and obs["raised"]:
                out.append({"what": "late report in status %s raised %s" % (sb, obs["raised"]), "step": i})
            if op[0] == "request_status" and obs["raised"] is not None:
                if engine.dumps_sorted(prev["state"]) != engine.dumps_sorted(obs["state"]):
                    d = engine.first_difference(prev["state"], obs["state"])
                    out.append({"what": "rejected status request %s (%s) changed the persisted state at %s"
                                        % (op[1], obs["raised"][0], d[0] if d else "?"), "step": i})
        prev = obs
    return out


CONFORMANT = ("boot", "poll", "ack", "ack-empty", "report", "request", "render", "rerun", "persist")


def c18(sess):
    """History is append-only; started records keep id/route/ctxs.in/prev; decided records are frozen."""
    out = []
    prev = None
    for i, (op, obs) in enumerate(sess.trace):
        cur = obs["state"]["state"]
        if prev is not None:
            for name in ("contexts", "routes"):
                a, b = prev[name], cur[name]
                if len(b) < len(a) or b[: len(a)] != a:
                    out.append({"what": "%s is not an extension of the previous %s after %s" % (name, name, op[0]),
                                "step": i})
            a, b = prev["sequence"], cur["sequence"]
            if len(b) < len(a):
                out.append({"what": "task execution records were removed by %s" % op[0], "step": i})
            for k in range(min(len(a), len(b))):
                ra, rb = a[k], b[k]
                for f in ("id", "route", "prev"):
                    if ra[f] != rb[f]:
                        out.append({"what": "record %d (%s): field %s changed from %r to %r after %s"
                                            % (k, ra["id"], f, ra[f], rb[f], op[0]), "step": i})
                if ra["ctxs"]["in"] != rb["ctxs"]["in"]:
                    out.append({"what": "record %d (%s): inbound contexts changed from %r to %r after %s"
                                        % (k, ra["id"], ra["ctxs"]["in"], rb["ctxs"]["in"], op[0]), "step": i})
                if sess.tags[i] in CONFORMANT and ra.get("next"):
                    if ra.get("status") != rb.get("status") or ra["next"] != rb["next"]:
                        out.append({"what": "record %d (%s) whose transitions were decided changed: status %s->%s, "
                                            "next %r->%r after %s" % (k, ra["id"], ra.get("status"), rb.get("status"),
                                                                      ra["next"], rb["next"], op[0]), "step": i})
        prev = cur
    return out


# ---------------------------------------------------------------- relational monitors (twin runs)

def _mk_sim(definition, inputs, oracle, sched, **kw):
    from harness import provider, sim
    sess = provider.Session(definition, inputs, with_model=False)
    return sim.Sim(sess, oracle, sched, **kw)


def c08_scenario(definition, inputs, oracle, scheds):
    """Same scenario under several completion orders: the final status must agree; when succeeded,
    so must the executed-record multiset, the published snapshots (as a multiset) and the output."""
    finals = []
    for sc in scheds:
        sm = _mk_sim(definition, inputs, oracle, sc)
        try:
            sm.run()
            finals.append((sc, sm.final(), [op for op, _ in sm.s.trace]))
        finally:
            sm.s.close()
    out = []
    base_sc, base, base_ops = finals[0]
    for sc, f, ops in finals[1:]:
        if f["status"] != base["status"]:
            out.append({"what": "final status depends on completion order: %s vs %s" % (base["status"], f["status"]),
                        "ops": ops, "ops_other": base_ops, "step": len(ops) - 1})
        elif f["status"] == "succeeded":
            for k in ("records", "published", "output"):
                if f[k] != base[k]:
                    out.append({"what": "%s depends on completion order: %r vs %r" % (k, base[k], f[k]),
                                "ops": ops, "ops_other": base_ops, "step": len(ops) - 1})
                    break
    return out, finals


def _case_oracle(sess):
    from harness import progs
    return progs.Oracle(sess.case_seed, sess.fam, per_task=True)


def c08(sess):
    """Order independence of the outcome (engine only; the session's own history is the model tie)."""
    scheds = [11, 12, 13] if sess.fam.get("tier") != "thorough" else [11, 12, 13, 14, 15, 16, 17, 18]
    vs, finals = c08_scenario(sess.definition, sess.inputs, _case_oracle(sess), scheds)
    sess.rel_features = {"orders_distinct": len(set(repr([o for o in f[2] if o[0] == "event"]) for f in finals)),
                         "succeeded": finals[0][1]["status"] == "succeeded",
                         "records": len(finals[0][1]["records"])}
    return vs


def _held_checks(sm, what_held, statuses_held):
    """No offers while held; transitional exactly while something is in flight."""
    out = []
    s = sm.s
    prev = None
    for i, (op, obs) in enumerate(s.trace):
        if prev is not None:
            sb = wf_status(prev)
            if op[0] == "get_next" and sb in statuses_held and obs["result"]:
                out.append({"what": "tasks offered while %s: %s" % (sb, [o["id"] for o in obs["result"]]),
                            "step": i})
        prev = obs
    return out


def c09(sess):
    """Pause at sampled positions + resume at rest vs. the unpaused run of the same scenario."""
    from harness import sim
    oracle = _case_oracle(sess)
    out = []
    base = _mk_sim(sess.definition, sess.inputs, oracle, 7)
    try:
        base.run()
        bf = base.final()
        n_events = base.events
    finally:
        base.s.close()
    positions = list(range(0, n_events + 1))
    if sess.fam.get("tier") != "thorough" and len(positions) > 5:
        step = max(1, len(positions) // 5)
        positions = positions[::step][:5] + [positions[-1]]
    feats = {"positions": len(positions), "resumed": 0, "paused_with_inflight": 0}
    for k in positions:
        tw = _mk_sim(sess.definition, sess.inputs, oracle, 7, controls={k: "pausing"})
        try:
            tw.run()
            tf = tw.final()
            ops = [op for op, _ in tw.s.trace]
            out.extend(dict(v, ops=ops[: v["step"] + 1]) for v in _held_checks(tw, "paused", ("pausing", "paused")))
            # paused exactly when the last in-flight action has reported
            prev = None
            for i, (op, obs) in enumerate(tw.s.trace):
                if prev is not None and tw.s.tags[i] == "report" and wf_status(prev) == "pausing":
                    infl = tw.s.inflight_log[i]
                    sa = wf_status(obs)
                    if infl:
                        feats["paused_with_inflight"] += 1
                    if not infl and sa == "pausing":
                        out.append({"what": "still pausing although the last in-flight action has reported",
                                    "step": i, "ops": ops[: i + 1]})
                    if infl and sa == "paused":
                        out.append({"what": "paused while %d action(s) are still in flight" % len(infl),
                                    "step": i, "ops": ops[: i + 1]})
                prev = obs
            if tw.resumed and not tw.completed_by_request or tw.resumed:
                feats["resumed"] += 1
                known = "D5a" if trig_no_terminal(tw.s) else None
                if tf["status"] != bf["status"]:
                    v = {"what": "pause before event %d and resume changed the final status: %s (unpaused) vs %s"
                                 % (k, bf["status"], tf["status"]), "step": len(ops) - 1, "ops": ops}
                    if known:
                        v["known"] = known
                    out.append(v)
                elif tf["status"] == "succeeded":
                    for key in ("records", "output", "errors"):
                        if tf[key] != bf[key]:
                            v = {"what": "pause before event %d and resume changed %s: %r (unpaused) vs %r"
                                         % (k, key, bf[key], tf[key]), "step": len(ops) - 1, "ops": ops}
                            if known:
                                v["known"] = known
                            out.append(v)
                            break
        finally:
            tw.s.close()
    sess.rel_features = feats
    return out


def trig_no_terminal(s):
    from harness import findings
    return findings.trig_completed_without_terminal(s)


def c10(sess):
    """Cancel at sampled positions: no offers afterwards, canceling while in flight, canceled at the end,
    never succeeded, output rendering keeps canceled and does not raise."""
    oracle = _case_oracle(sess)
    out = []
    base = _mk_sim(sess.definition, sess.inputs, oracle, 7)
    try:
        base.run()
        n_events = base.events
    finally:
        base.s.close()
    positions = list(range(0, n_events + 1))
    if sess.fam.get("tier") != "thorough" and len(positions) > 5:
        step = max(1, len(positions) // 5)
        positions = positions[::step][:5] + [positions[-1]]
    feats = {"positions": len(positions), "canceled_with_inflight": 0, "accepted": 0}
    for k in positions:
        for req in (("canceling",) if k % 2 == 0 else ("canceled",)):
            tw = _mk_sim(sess.definition, sess.inputs, oracle, 7, controls={k: req})
            try:
                tw.run()
                ops = [op for op, _ in tw.s.trace]
                accepted_at = None
                for i, (op, obs) in enumerate(tw.s.trace):
                    if op[0] == "request_status" and op[1] == req and obs["raised"] is None and i > 0:
                        accepted_at = i
                        break
                if accepted_at is None:
                    continue
                feats["accepted"] += 1
                failed_before = wf_status(tw.s.trace[accepted_at - 1][1]) == "failed"
                prev = None
                for i, (op, obs) in enumerate(tw.s.trace):
                    if i >= accepted_at and not failed_before:
                        sa = wf_status(obs)
                        if op[0] == "get_next" and obs["result"] and sa != "failed":
                            out.append({"what": "task offered after cancellation: %s" % [o["id"] for o in obs["result"]],
                                        "step": i, "ops": ops[: i + 1]})
                        if sa == "succeeded":
                            out.append({"what": "canceled workflow ended succeeded", "step": i, "ops": ops[: i + 1]})
                        if sa not in ("canceling", "canceled", "failed"):
                            out.append({"what": "status %s after an accepted cancel" % sa, "step": i, "ops": ops[: i + 1]})
                        infl = tw.s.inflight_log[i]
                        if tw.s.tags[i] in ("report", "request"):
                            if infl:
                                feats["canceled_with_inflight"] += 1
                            if infl and sa == "canceled":
                                out.append({"what": "canceled while %d action(s) are still in flight" % len(infl),
                                            "step": i, "ops": ops[: i + 1]})
                            if not infl and sa == "canceling":
                                out.append({"what": "still canceling although nothing is in flight", "step": i,
                                            "ops": ops[: i + 1]})
                        if op[0] == "render" and obs["raised"]:
                            out.append({"what": "rendering the output of a canceled workflow raised %s" % obs["raised"],
                                        "step": i, "ops": ops[: i + 1]})
                    prev = obs
                fin = tw.final()
                if not failed_before and fin["status"] == "failed":
                    # failed is acceptable only for a reason other than the cancellation itself
                    errs = tw.s.trace[-1][1]["state"]["errors"]
                    if any("UnreachableJoinError" in e.get("message", "") for e in errs):
                        out.append({"what": "canceled workflow turned into failed by the unreachable-join check",
                                    "step": len(ops) - 1, "ops": ops})
                if fin["status"] == "canceled" and fin["output"] is None and sess.definition.get("output"):
                    v = {"what": "canceled workflow rendered no output although output is defined (errors: %s)"
                                 % [e.get("message", "")[:50] for e in tw.s.trace[-1][1]["state"]["errors"]][:2],
                         "step": len(ops) - 1, "ops": ops}
                    if trig_no_terminal(tw.s):
                        v["known"] = "D5a"
                    out.append(v)
            finally:
                tw.s.close()
    sess.rel_features = feats
    return out


def _is_eval_error(msg):
    return "EvaluationException" in msg or "VariableUndefinedError" in msg or "VariableInaccessibleError" in msg


def c11(sess):
    """Expression errors never escape; they are logged naming the task; the workflow fails (or stays canceled)."""
    out = []
    prev = None
    if sess.model is not None and sess.model.nonexpr_errors:
        stmt, cls, msg = sess.model.nonexpr_errors[0]
        out.append({"what": "the evaluator failed with %s (not an ExpressionEvaluationException) on %r: the hypothesis of "
                            "theorem C11_contained does not hold for the real evaluator" % (cls, stmt),
                    "step": len(sess.trace) - 1})
    for i, (op, obs) in enumerate(sess.trace):
        r = obs["raised"]
        # any exception class an evaluator call can produce (the evaluators wrap failures; an unwrapped
        # StopIteration / ZeroDivisionError / RecursionError can only come out of an expression)
        if r is not None and ("Evaluation" in r[0] or r[0] in ("VariableUndefinedError", "VariableInaccessibleError",
                                                              "RecursionError", "StopIteration", "ZeroDivisionError")):
            out.append({"what": "%s escaped %s: %s" % (r[0], op[0], r[1][:120]), "step": i})
        if prev is not None:
            old = set(engine.dumps_sorted(e) for e in prev["state"]["errors"])
            new = [e for e in obs["state"]["errors"] if engine.dumps_sorted(e) not in old]
            evs = [e for e in new if _is_eval_error(e.get("message", ""))]
            if evs:
                st = wf_status(obs)
                if st not in ("failed", "canceled"):
                    out.append({"what": "an expression error was logged (%s) but the workflow is %s"
                                        % (evs[0]["message"][:80], st), "step": i})
                if op[0] in ("event", "get_next") and any("task_id" not in e for e in evs):
                    out.append({"what": "expression error logged without naming the task: %s"
                                        % evs[0]["message"][:80], "step": i})
            if wf_status(prev) in ("failed",) and op[0] == "get_next" and obs["result"]:
                flagged = set((s["id"], s["route"]) for s in prev["state"]["state"]["staged"] if s.get("run_on_fail"))
                if any((o["id"], o["route"]) not in flagged for o in obs["result"]):
                    out.append({"what": "task offered after the workflow failed", "step": i})
        prev = obs
    return out
