"""Property monitors over engine traces.  A monitor takes a finished Session (engine side only is
read: sess.trace = [(op, observation)], sess.tags, sess.inflight_log, sess.definition) and returns a
list of violations {what, step, ...}.  Every clause is either the conclusion of a proved theorem
or a literal clause of the property text; monitors are used to search for concrete failing
inputs and as tests of the clauses that are not proved."""
import re

from harness import engine

COMPLETED = ("succeeded", "failed", "timeout", "abandoned", "canceled")
ACTIVE = ("requested", "scheduled", "delayed", "running", "resuming", "pausing", "canceling")
RUNNING_ST = ("requested", "scheduled", "delayed", "running", "resuming", "retrying")
ABENDED = ("failed", "timeout", "abandoned")


def wf_status(obs):
    return obs["state"]["state"]["status"]


def states(sess):
    return [o["state"] for _, o in sess.trace]


def c04(sess):
    """Terminal statuses are final; no offers after them; late reports absorbed; rejected requests inert."""
    out = []
    prev = None
    for i, (op, obs) in enumerate(sess.trace):
        if prev is not None:
            sb, sa = wf_status(prev), wf_status(obs)
            accepted_rerun = op[0] == "rerun" and obs["raised"] is None
            if sb in ("failed", "canceled") and sa != sb and not accepted_rerun:
                out.append({"what": "terminal status %s changed to %s by %s" % (sb, sa, op[0]), "step": i})
            if sb == "succeeded" and sa not in ("succeeded", "failed") and not accepted_rerun:
                out.append({"what": "succeeded changed to %s by %s" % (sa, op[0]), "step": i})
            if op[0] == "get_next" and sb in ("succeeded", "canceled") and obs["result"]:
                out.append({"what": "tasks offered in status %s: %s" % (sb, [o["id"] for o in obs["result"]]),
                            "step": i})
            if op[0] == "get_next" and sb == "failed" and obs["result"]:
                flagged = set((s["id"], s["route"]) for s in prev["state"]["state"]["staged"]
                              if s.get("run_on_fail"))
                bad = [o["id"] for o in obs["result"] if (o["id"], o["route"]) not in flagged]
                if bad:
                    out.append({"what": "failed workflow offers tasks that are not clean-up tasks: %s" % bad,
                                "step": i})
            if sess.tags[i] == "report" and sb in ("failed", "canceled", "succeeded") and obs["raised"]:
                out.append({"what": "late report in status %s raised %s" % (sb, obs["raised"]), "step": i})
            if op[0] == "request_status" and obs["raised"] is not None:
                if engine.dumps_sorted(prev["state"]) != engine.dumps_sorted(obs["state"]):
                    d = engine.first_difference(prev["state"], obs["state"])
                    out.append({"what": "rejected status request %s (%s) changed the persisted state at %s"
                                        % (op[1], obs["raised"][0], d[0] if d else "?"), "step": i})
        prev = obs
    return out


CONFORMANT = ("boot", "poll", "ack", "ack-empty", "report", "request", "render", "rerun", "persist", "query1", "query2")


def inspection_clean(sess):
    """Does WorkflowSpec.inspect() accept the definition of this case (cached on the session)?"""
    if not hasattr(sess, "_inspect_clean"):
        import copy
        from orquesta.specs import native as native_specs
        try:
            sess._inspect_clean = not native_specs.WorkflowSpec(copy.deepcopy(sess.definition)).inspect()
        except Exception:
            sess._inspect_clean = False
    return sess._inspect_clean


def first_raw(sess):
    """Index of the first API call that is not part of a protocol-conformant provider operation."""
    for i, t in enumerate(sess.tags):
        if t not in CONFORMANT:
            return i
    return len(sess.tags)


def c18(sess):
    """History is append-only; started records keep id/route/ctxs.in/prev; decided records are frozen."""
    out = []
    prev = None
    for i, (op, obs) in enumerate(sess.trace):
        cur = obs["state"]["state"]
        if prev is not None:
            for name in ("contexts", "routes"):
                a, b = prev[name], cur[name]
                if len(b) < len(a) or b[: len(a)] != a:
                    out.append({"what": "%s is not an extension of the previous %s after %s" % (name, name, op[0]),
                                "step": i})
            a, b = prev["sequence"], cur["sequence"]
            if len(b) < len(a):
                out.append({"what": "task execution records were removed by %s" % op[0], "step": i})
            for k in range(min(len(a), len(b))):
                ra, rb = a[k], b[k]
                for f in ("id", "route", "prev"):
                    if ra[f] != rb[f]:
                        out.append({"what": "record %d (%s): field %s changed from %r to %r after %s"
                                            % (k, ra["id"], f, ra[f], rb[f], op[0]), "step": i})
                if ra["ctxs"]["in"] != rb["ctxs"]["in"]:
                    out.append({"what": "record %d (%s): inbound contexts changed from %r to %r after %s"
                                        % (k, ra["id"], ra["ctxs"]["in"], rb["ctxs"]["in"], op[0]), "step": i})
                if sess.tags[i] in CONFORMANT and ra.get("next"):
                    if ra.get("status") != rb.get("status") or ra["next"] != rb["next"]:
                        out.append({"what": "record %d (%s) whose transitions were decided changed: status %s->%s, "
                                            "next %r->%r after %s" % (k, ra["id"], ra.get("status"), rb.get("status"),
                                                                      ra["next"], rb["next"], op[0]), "step": i})
        prev = cur
    return out


# ---------------------------------------------------------------- relational monitors (twin runs)

def _mk_sim(definition, inputs, oracle, sched, **kw):
    from harness import provider, sim
    sess = provider.Session(definition, inputs, with_model=False)
    return sim.Sim(sess, oracle, sched, **kw)


def c08_scenario(definition, inputs, oracle, scheds):
    """Same scenario under several completion orders: the final status must agree; when succeeded,
    so must the executed-record multiset, the published snapshots (as a multiset) and the output."""
    finals = []
    for sc in scheds:
        sm = _mk_sim(definition, inputs, oracle, sc)
        try:
            sm.run()
            finals.append((sc, sm.final(), [op for op, _ in sm.s.trace]))
        finally:
            sm.s.close()
    out = []
    base_sc, base, base_ops = finals[0]
    for sc, f, ops in finals[1:]:
        if f["status"] != base["status"]:
            out.append({"what": "final status depends on completion order: %s vs %s" % (base["status"], f["status"]),
                        "ops": ops, "ops_other": base_ops, "step": len(ops) - 1})
        elif f["status"] == "succeeded":
            for k in ("records", "published", "output"):
                if f[k] != base[k]:
                    out.append({"what": "%s depends on completion order: %r vs %r" % (k, base[k], f[k]),
                                "ops": ops, "ops_other": base_ops, "step": len(ops) - 1})
                    break
    return out, finals


def _case_oracle(sess):
    from harness import progs
    return progs.Oracle(sess.case_seed, sess.fam, per_task=True)


def c08(sess):
    """Order independence of the outcome (engine only; the session's own history is the model tie)."""
    scheds = [11, 12, 13] if sess.fam.get("tier") != "thorough" else [11, 12, 13, 14, 15, 16, 17, 18]
    vs, finals = c08_scenario(sess.definition, sess.inputs, _case_oracle(sess), scheds)
    sess.rel_features = {"orders_distinct": len(set(repr([o for o in f[2] if o[0] == "event"]) for f in finals)),
                         "succeeded": finals[0][1]["status"] == "succeeded",
                         "records": len(finals[0][1]["records"])}
    # thorough tier: every completion order of small scenarios (exhaustive when it fits the cap)
    if sess.fam.get("tier") == "thorough" and len(finals[0][1]["executed"]) <= 6:
        from harness import provider, sim
        oracle = _case_oracle(sess)
        allf, exhaustive = sim.all_orders(
            lambda: provider.Session(sess.definition, sess.inputs, with_model=False), oracle, cap=150)
        sess.rel_features["all_orders"] = len(allf)
        sess.rel_features["all_orders_exhaustive"] = exhaustive
        base = allf[0][1]
        for script, f, ops in allf[1:]:
            if f["status"] != base["status"]:
                vs.append({"what": "final status depends on completion order (exhaustive enumeration): %s vs %s"
                                   % (base["status"], f["status"]), "ops": ops, "ops_other": allf[0][2], "step": len(ops) - 1})
                break
            if f["status"] == "succeeded" and any(f[k] != base[k] for k in ("records", "published", "output")):
                k = [k for k in ("records", "published", "output") if f[k] != base[k]][0]
                vs.append({"what": "%s depends on completion order (exhaustive enumeration): %r vs %r" % (k, base[k], f[k]),
                           "ops": ops, "ops_other": allf[0][2], "step": len(ops) - 1})
                break
    return vs


def _held_checks(sm, what_held, statuses_held):
    """No offers while held; transitional exactly while something is in flight."""
    out = []
    s = sm.s
    prev = None
    for i, (op, obs) in enumerate(s.trace):
        if prev is not None:
            sb = wf_status(prev)
            if op[0] == "get_next" and sb in statuses_held and obs["result"]:
                out.append({"what": "tasks offered while %s: %s" % (sb, [o["id"] for o in obs["result"]]),
                            "step": i})
        prev = obs
    return out


def c09(sess):
    """Pause at sampled positions + resume at rest vs. the unpaused run of the same scenario."""
    from harness import sim
    oracle = _case_oracle(sess)
    out = []
    base = _mk_sim(sess.definition, sess.inputs, oracle, 7)
    try:
        base.run()
        bf = base.final()
        n_events = base.events
    finally:
        base.s.close()
    positions = list(range(0, n_events + 1))
    if sess.fam.get("tier") != "thorough" and len(positions) > 5:
        step = max(1, len(positions) // 5)
        positions = positions[::step][:5] + [positions[-1]]
    feats = {"positions": len(positions), "resumed": 0, "paused_with_inflight": 0}
    for k in positions:
        tw = _mk_sim(sess.definition, sess.inputs, oracle, 7, controls={k: "pausing"})
        try:
            tw.run()
            tf = tw.final()
            ops = [op for op, _ in tw.s.trace]
            out.extend(dict(v, ops=ops[: v["step"] + 1]) for v in _held_checks(tw, "paused", ("pausing", "paused")))
            # paused exactly when the last in-flight action has reported
            prev = None
            for i, (op, obs) in enumerate(tw.s.trace):
                if prev is not None and tw.s.tags[i] == "report" and wf_status(prev) == "pausing":
                    infl = tw.s.inflight_log[i]
                    sa = wf_status(obs)
                    if infl:
                        feats["paused_with_inflight"] += 1
                    if not infl and sa == "pausing":
                        out.append({"what": "still pausing although the last in-flight action has reported",
                                    "step": i, "ops": ops[: i + 1]})
                    if infl and sa == "paused":
                        out.append({"what": "paused while %d action(s) are still in flight" % len(infl),
                                    "step": i, "ops": ops[: i + 1]})
                prev = obs
            if tw.resumed and not tw.completed_by_request or tw.resumed:
                feats["resumed"] += 1
                known = "D5a" if trig_no_terminal(tw.s) else None
                if tf["status"] != bf["status"]:
                    v = {"what": "pause before event %d and resume changed the final status: %s (unpaused) vs %s"
                                 % (k, bf["status"], tf["status"]), "step": len(ops) - 1, "ops": ops}
                    if known:
                        v["known"] = known
                    out.append(v)
                elif tf["status"] == "succeeded":
                    for key in ("records", "output", "errors"):
                        if tf[key] != bf[key]:
                            v = {"what": "pause before event %d and resume changed %s: %r (unpaused) vs %r"
                                         % (k, key, bf[key], tf[key]), "step": len(ops) - 1, "ops": ops}
                            if known:
                                v["known"] = known
                            out.append(v)
                            break
        finally:
            tw.s.close()
    sess.rel_features = feats
    return out


def trig_no_terminal(s):
    from harness import findings
    return findings.trig_completed_without_terminal(s)


def c10(sess):
    """Cancel at sampled positions: no offers afterwards, canceling while in flight, canceled at the end,
    never succeeded, output rendering keeps canceled and does not raise."""
    oracle = _case_oracle(sess)
    out = []
    base = _mk_sim(sess.definition, sess.inputs, oracle, 7)
    try:
        base.run()
        n_events = base.events
    finally:
        base.s.close()
    positions = list(range(0, n_events + 1))
    if sess.fam.get("tier") != "thorough" and len(positions) > 5:
        step = max(1, len(positions) // 5)
        positions = positions[::step][:5] + [positions[-1]]
    feats = {"positions": len(positions), "canceled_with_inflight": 0, "accepted": 0}
    for k in positions:
        for req in (("canceling",) if k % 2 == 0 else ("canceled",)):
            tw = _mk_sim(sess.definition, sess.inputs, oracle, 7, controls={k: req})
            try:
                tw.run()
                ops = [op for op, _ in tw.s.trace]
                accepted_at = None
                for i, (op, obs) in enumerate(tw.s.trace):
                    if op[0] == "request_status" and op[1] == req and obs["raised"] is None and i > 0:
                        accepted_at = i
                        break
                if accepted_at is None:
                    continue
                feats["accepted"] += 1
                failed_before = wf_status(tw.s.trace[accepted_at - 1][1]) == "failed"
                prev = None
                for i, (op, obs) in enumerate(tw.s.trace):
                    if i >= accepted_at and not failed_before:
                        sa = wf_status(obs)
                        if op[0] == "get_next" and obs["result"] and sa != "failed":
                            out.append({"what": "task offered after cancellation: %s" % [o["id"] for o in obs["result"]],
                                        "step": i, "ops": ops[: i + 1]})
                        if sa == "succeeded":
                            out.append({"what": "canceled workflow ended succeeded", "step": i, "ops": ops[: i + 1]})
                        if sa not in ("canceling", "canceled", "failed"):
                            out.append({"what": "status %s after an accepted cancel" % sa, "step": i, "ops": ops[: i + 1]})
                        infl = tw.s.inflight_log[i]
                        if tw.s.tags[i] in ("report", "request"):
                            if infl:
                                feats["canceled_with_inflight"] += 1
                            if infl and sa == "canceled":
                                out.append({"what": "canceled while %d action(s) are still in flight" % len(infl),
                                            "step": i, "ops": ops[: i + 1]})
                            if not infl and sa == "canceling":
                                out.append({"what": "still canceling although nothing is in flight", "step": i,
                                            "ops": ops[: i + 1]})
                        if op[0] == "render" and obs["raised"]:
                            out.append({"what": "rendering the output of a canceled workflow raised %s" % obs["raised"],
                                        "step": i, "ops": ops[: i + 1]})
                    prev = obs
                fin = tw.final()
                if not failed_before and fin["status"] == "failed":
                    # failed is acceptable only for a reason other than the cancellation itself
                    errs = tw.s.trace[-1][1]["state"]["errors"]
                    if any("UnreachableJoinError" in e.get("message", "") for e in errs):
                        out.append({"what": "canceled workflow turned into failed by the unreachable-join check",
                                    "step": len(ops) - 1, "ops": ops})
                if fin["status"] == "canceled" and fin["output"] is None and sess.definition.get("output"):
                    v = {"what": "canceled workflow rendered no output although output is defined (errors: %s)"
                                 % [e.get("message", "")[:50] for e in tw.s.trace[-1][1]["state"]["errors"]][:2],
                         "step": len(ops) - 1, "ops": ops}
                    if trig_no_terminal(tw.s):
                        v["known"] = "D5a"
                    out.append(v)
            finally:
                tw.s.close()
    sess.rel_features = feats
    return out


def _is_eval_error(msg):
    return "EvaluationException" in msg or "VariableUndefinedError" in msg or "VariableInaccessibleError" in msg


def c11(sess):
    """Expression errors never escape; they are logged naming the task; the workflow fails (or stays canceled)."""
    out = []
    prev = None
    if sess.model is not None and sess.model.nonexpr_errors:
        stmt, cls, msg = sess.model.nonexpr_errors[0]
        out.append({"what": "the evaluator failed with %s (not an ExpressionEvaluationException) on %r: the hypothesis of "
                            "theorem C11_contained does not hold for the real evaluator" % (cls, stmt),
                    "step": len(sess.trace) - 1})
    for i, (op, obs) in enumerate(sess.trace):
        r = obs["raised"]
        # any exception class an evaluator call can produce (the evaluators wrap failures; an unwrapped
        # StopIteration / ZeroDivisionError / RecursionError can only come out of an expression)
        if r is not None and ("Evaluation" in r[0] or r[0] in ("VariableUndefinedError", "VariableInaccessibleError",
                                                              "RecursionError", "StopIteration", "ZeroDivisionError")):
            out.append({"what": "%s escaped %s: %s" % (r[0], op[0], r[1][:120]), "step": i})
        if prev is not None:
            old = set(engine.dumps_sorted(e) for e in prev["state"]["errors"])
            new = [e for e in obs["state"]["errors"] if engine.dumps_sorted(e) not in old]
            evs = [e for e in new if _is_eval_error(e.get("message", ""))]
            if evs:
                st = wf_status(obs)
                if st not in ("failed", "canceled"):
                    out.append({"what": "an expression error was logged (%s) but the workflow is %s"
                                        % (evs[0]["message"][:80], st), "step": i})
                if op[0] in ("event", "get_next") and any("task_id" not in e for e in evs):
                    out.append({"what": "expression error logged without naming the task: %s"
                                        % evs[0]["message"][:80], "step": i})
            if wf_status(prev) in ("failed",) and op[0] == "get_next" and obs["result"]:
                flagged = set((s["id"], s["route"]) for s in prev["state"]["state"]["staged"] if s.get("run_on_fail"))
                if any((o["id"], o["route"]) not in flagged for o in obs["result"]):
                    out.append({"what": "task offered after the workflow failed", "step": i})
        prev = obs
    return out


COMMANDS = ("continue", "fail", "noop", "retry")


def _def_edges(definition):
    """(src, dst) pairs and roots read straight from the definition (independent of the composer)."""
    tasks = definition.get("tasks", {})
    edges = set()
    for t, sp in tasks.items():
        for tr in sp.get("next") or []:
            do = tr.get("do") or ["continue"]
            if isinstance(do, str):
                do = [x.strip() for x in do.split(",")]
            for d in do:
                edges.add((t, d))
    targets = set(d for _, d in edges)
    roots = set(t for t in tasks if t not in targets)
    return edges, roots


def c01(sess):
    """Offers come from ready staged entries; a started record is justified by completed predecessors whose
    transition into it is satisfied, or it is a root (or a copy made by rerun)."""
    out = []
    edges, roots = _def_edges(sess.definition)
    prev = None
    rerun_copies = set()
    for i, (op, obs) in enumerate(sess.trace):
        st = obs["state"]["state"]
        if prev is not None:
            pst = prev["state"]["state"]
            if op[0] == "get_next" and obs["result"] and sess.tags[i] in CONFORMANT:
                ready = set((s["id"], s["route"]) for s in pst["staged"] if s["ready"] and not s.get("completed"))
                for o in obs["result"]:
                    if (o["id"], o["route"]) not in ready and pst["status"] != "null":
                        out.append({"what": "task %s (route %d) offered without a ready staged entry"
                                            % (o["id"], o["route"]), "step": i})
            if op[0] == "rerun" and obs["raised"] is None:
                for k in range(len(pst["sequence"]), len(st["sequence"])):
                    rerun_copies.add(k)
            # justification of every record created by this call
            for k in range(len(pst["sequence"]), len(st["sequence"])):
                r = st["sequence"][k]
                if k in rerun_copies:
                    continue
                if not r["prev"]:
                    if r["id"] not in roots:
                        out.append({"what": "record %d of %s has no predecessor but %s is not a start task"
                                            % (k, r["id"], r["id"]), "step": i})
                    continue
                for trid, j in r["prev"].items():
                    src = trid.rsplit("__t", 1)[0]
                    if j >= len(st["sequence"]):
                        out.append({"what": "record %d of %s refers to a predecessor index out of range" % (k, r["id"]),
                                    "step": i})
                        continue
                    p = st["sequence"][j]
                    key = trid.rsplit("__t", 1)[1]
                    nxt = p["next"].get("%s__t%s" % (r["id"], key))
                    if p["id"] != src or (src, r["id"]) not in edges:
                        out.append({"what": "record %d of %s claims predecessor %s through %s which is not a transition "
                                            "of the definition" % (k, r["id"], p["id"], trid), "step": i})
                    elif p.get("status") not in COMPLETED:
                        out.append({"what": "record %d of %s started although its predecessor %s (record %d) is %s"
                                            % (k, r["id"], p["id"], j, p.get("status")), "step": i})
                    elif nxt is not True:
                        out.append({"what": "record %d of %s started through transition %s of %s whose condition is "
                                            "recorded as %r" % (k, r["id"], key, p["id"], nxt), "step": i})
        prev = obs
    return out


def c12(sess):
    """With-items: window, once, in order, drain before complete, quiet when held."""
    out = []
    tasks = sess.definition.get("tasks", {})
    prev = None
    offered = {}          # (task, route, record count, retry tally) -> set of item ids offered
    dormant_seen = set()  # (task, route) of with-items executions in which some item reported paused / pending
    stop = first_raw(sess)
    for i, (op, obs) in enumerate(sess.trace):
        if i >= stop:
            break
        st = obs["state"]["state"]
        if prev is not None:
            pst = prev["state"]["state"]
            if op[0] == "get_next" and obs["result"] and sess.tags[i] in CONFORMANT:
                for o in obs["result"]:
                    if "items_count" not in o:
                        continue
                    ids = [a["item_id"] for a in o["actions"]]
                    stg = [s for s in st["staged"] if s["id"] == o["id"] and s["route"] == o["route"]]
                    items = [it["status"] for it in stg[0].get("items", [])] if stg else []
                    if ids != sorted(ids):
                        out.append({"what": "items of %s offered out of index order: %r" % (o["id"], ids), "step": i})
                    unset = [k for k, x in enumerate(items) if x == "null"]
                    if ids and ids != unset[: len(ids)]:
                        out.append({"what": "items offered %r are not the first unset items %r of %s"
                                            % (ids, unset, o["id"]), "step": i})
                    conc = o.get("concurrency")
                    # the limit is the declared one, read in the context the task is rendered with
                    w = tasks.get(o["id"], {}).get("with")
                    decl = w.get("concurrency") if isinstance(w, dict) else None
                    m = re.fullmatch(r"(?:<%|\{\{) ctx\(\)\.(\w+) (?:%>|\}\})", decl) if isinstance(decl, str) else None
                    if m and m.group(1) in (o.get("ctx") or {}):
                        want = o["ctx"][m.group(1)]
                        if isinstance(want, int) and not isinstance(want, bool) and conc != max(want, 1):
                            out.append({"what": "%s offered with concurrency %r; its declared limit %s is %r in the "
                                                "task's context" % (o["id"], conc, decl, want), "step": i})
                    elif isinstance(decl, int) and not isinstance(decl, bool) and conc != max(decl, 1):
                        out.append({"what": "%s offered with concurrency %r, declared %r" % (o["id"], conc, decl), "step": i})
                    if isinstance(conc, int) and not isinstance(conc, bool) and ids:
                        active = len([x for x in items if x in ACTIVE])
                        if len(ids) + active > max(conc, 1):
                            out.append({"what": "%d items offered with %d active exceeds concurrency %d of %s"
                                                % (len(ids), active, conc, o["id"]), "step": i})
                    recs = [r for r in st["sequence"] if r["id"] == o["id"] and r["route"] == o["route"]]
                    tally = (recs[-1].get("retry") or {}).get("tally", 0) if recs else 0
                    seen = offered.setdefault((o["id"], o["route"], len(recs), tally), set())
                    dup = [k for k in ids if k in seen]
                    if dup and not any(x[0] == "rerun" for x, _ in sess.trace[: i]):
                        out.append({"what": "items %r of %s offered a second time" % (dup, o["id"]), "step": i})
                    seen.update(ids)
            if op[0] == "get_next" and obs["result"] and pst["status"] in ("pausing", "paused", "canceling", "canceled"):
                out.append({"what": "actions offered while %s" % pst["status"], "step": i})
            # the window at every state: active items <= literal concurrency.  An item whose action reported paused or
            # pending gives its slot up (the engine's window counts active items only); when it wakes up again the
            # count can exceed the limit by design, so the clause is about executions in which no item was dormant.
            if op[0] == "event" and op[3][0] == "item" and op[3][2] in ("paused", "pending"):
                dormant_seen.add((op[1], op[2]))
            for s in st["staged"]:
                w = tasks.get(s["id"], {}).get("with")
                if isinstance(w, dict) and isinstance(w.get("concurrency"), int) and "items" in s \
                        and (s["id"], s["route"]) not in dormant_seen \
                        and sess.tags[i] in CONFORMANT:
                    active = len([x for x in s["items"] if x["status"] in ACTIVE])
                    if active > max(w["concurrency"], 1):
                        out.append({"what": "%d items of %s active with concurrency %d" % (active, s["id"], w["concurrency"]),
                                    "step": i})
            # drain before complete / succeeded iff all items succeeded
            if op[0] == "event" and op[3][0] == "item" and sess.tags[i] in CONFORMANT:
                t, rt = op[1], op[2]
                key = "%s__r%s" % (t, rt)
                if key in st["tasks"] and key in pst["tasks"]:
                    ra, rb = pst["sequence"][pst["tasks"][key]], st["sequence"][st["tasks"][key]]
                    if ra.get("status") not in COMPLETED and rb.get("status") in COMPLETED:
                        ps = [s for s in pst["staged"] if s["id"] == t and s["route"] == rt]
                        if ps and "items" in ps[0]:
                            items = [x["status"] for x in ps[0]["items"]]
                            if op[3][1] < len(items):
                                items[op[3][1]] = op[3][2]
                            if any(x in ACTIVE for x in items):
                                out.append({"what": "with-items task %s completed (%s) while items are active: %r"
                                                    % (t, rb.get("status"), items), "step": i})
                            if rb.get("status") == "succeeded" and any(x != "succeeded" for x in items):
                                out.append({"what": "with-items task %s succeeded with item statuses %r" % (t, items),
                                            "step": i})
        prev = obs
    return out


def c13(sess):
    """Retry: tally <= count; the retried attempt decides no transition; re-offers carry the retry delay."""
    out = []
    prev = None
    entries = {}
    stop = first_raw(sess)
    for i, (op, obs) in enumerate(sess.trace):
        if i >= stop:
            break
        st = obs["state"]["state"]
        # The bound is on executions: a record (one visit) enters `retrying` at most count times.  The
        # engine's own tally is only required to count at least those entries; it may run ahead of them
        # (an event the task machine ignores while the record is retrying is counted too, which costs the
        # task retries but never adds an execution), so tally > count alone is not a violation.
        if prev is not None:
            pseq = prev["state"]["state"]["sequence"]
            for k, r in enumerate(st["sequence"]):
                was = pseq[k].get("status") if k < len(pseq) else None
                if r.get("status") == "retrying" and was != "retrying":
                    entries[k] = entries.get(k, 0) + 1
                    rt = r.get("retry") or {}
                    cnt = rt.get("count")
                    if isinstance(cnt, int) and not isinstance(cnt, bool) and entries[k] > max(cnt, 0):
                        out.append({"what": "record %d of %s retried %d times with count %d" % (k, r["id"], entries[k], cnt),
                                    "step": i})
                    if rt.get("tally", 0) < entries[k]:
                        out.append({"what": "record %d of %s retried %d times but its tally is %r"
                                            % (k, r["id"], entries[k], rt.get("tally")), "step": i})
        if prev is not None:
            pst = prev["state"]["state"]
            for k in range(min(len(pst["sequence"]), len(st["sequence"]))):
                ra, rb = pst["sequence"][k], st["sequence"][k]
                ta = (ra.get("retry") or {}).get("tally", 0)
                tb = (rb.get("retry") or {}).get("tally", 0)
                if tb > ta and sess.tags[i] in CONFORMANT:
                    if rb.get("status") != "retrying":
                        out.append({"what": "tally of %s increased but its status is %s" % (rb["id"], rb.get("status")), "step": i})
                    if rb["next"] != ra["next"] or len(st["contexts"]) != len(pst["contexts"]):
                        out.append({"what": "a transition or publish fired for the retried attempt of %s" % rb["id"], "step": i})
                    if tb > ta + 1:
                        out.append({"what": "tally of %s increased by %d in one call" % (rb["id"], tb - ta), "step": i})
            if op[0] == "get_next" and obs["result"] and sess.tags[i] in CONFORMANT:
                for o in obs["result"]:
                    sg = [s for s in pst["staged"] if s["id"] == o["id"] and s["route"] == o["route"]]
                    if len(sg) == 1 and "retry" in sg[0]:
                        want = sg[0]["retry"].get("delay") or 0
                        if o.get("delay") != want:
                            out.append({"what": "retry of %s offered with delay %r, configured %r" % (o["id"], o.get("delay"), want),
                                        "step": i})
        prev = obs
    return out


def c17(sess):
    """Rerun: admission and immediate effect on the session's own history; convergence on a twin simulation."""
    from harness import findings, sim
    out = []
    prev = None
    for i, (op, obs) in enumerate(sess.trace):
        if prev is not None and op[0] == "rerun":
            pst, st = prev["state"]["state"], obs["state"]["state"]
            if obs["raised"] is None:
                if pst["status"] not in COMPLETED:
                    out.append({"what": "rerun accepted while the workflow was %s" % pst["status"], "step": i})
                missing = [q for q in op[1] if ("%s__r%s" % (q[0], q[1])) not in pst["tasks"]]
                if missing:
                    out.append({"what": "rerun accepted for task executions that do not exist: %r" % missing, "step": i})
                if st["status"] != "resuming" or obs["state"]["output"] is not None:
                    out.append({"what": "accepted rerun left status %s / output %r" % (st["status"], obs["state"]["output"]),
                                "step": i})
                ready = [s for s in st["staged"] if s["ready"] and not s.get("completed")]
                act = [r for r in st["sequence"] if r.get("status") in ACTIVE + ("paused", "pending")]
                if not ready and not act:
                    out.append({"what": "accepted rerun left the workflow resuming with nothing to do", "step": i})
            else:
                if engine.dumps_sorted(prev["state"]) != engine.dumps_sorted(obs["state"]):
                    d = engine.first_difference(prev["state"], obs["state"])
                    out.append({"what": "refused rerun (%s) changed the state at %s" % (obs["raised"][0], d[0] if d else "?"),
                                "step": i})
        prev = obs
    # ---- convergence twin
    fam = sess.fam
    if fam.get("twin"):
        oracle = _case_oracle(sess)
        base = _mk_sim(sess.definition, sess.inputs, oracle, 5)
        feats = {"base_failed": False, "rerun_accepted": False, "converged": False}
        try:
            base.run()
            bf = base.final()
            if bf["status"] == "failed" and base.s.trace[-1][1]["state"]["state"]["sequence"]:
                feats["base_failed"] = True
                abended = set((k[0], k[2]) for k in base.executed if k[4] in ABENDED + ("canceled",))
                bad = set()

                class Fixed(object):
                    """Outcomes of the clean twin and of the continuation: as in the failed run, except that the
                    actions the rerun re-executes succeed."""
                    def outcome(self, key, attempt):
                        stt, res = oracle.outcome(key, 0)
                        if (key[0], key[2]) in bad:
                            return ("succeeded", res)
                        return (stt, res)
                obs = base.s.rerun([])
                if obs["raised"] is None:
                    st_after = obs["state"]["state"]
                    rerun_ids = set(st_after["sequence"][k]["id"] for k in (st_after.get("reruns") or [[]])[-1]
                                    if k < len(st_after["sequence"]))
                    bad.update(a for a in abended if a[0] in rerun_ids)
                if obs["raised"] is None:
                    feats["rerun_accepted"] = True
                    cont = sim.Sim(base.s, Fixed(), 5)
                    cont.finish = dict(base.finish)
                    cont.time = base.time
                    # continue: same loop as run() without the boot
                    cont_run(cont)
                    rf = cont.final()
                    clean = _mk_sim(sess.definition, sess.inputs, Fixed(), 5)
                    try:
                        clean.run()
                        cf = clean.final()
                    finally:
                        clean.s.close()
                    ops = [o for o, _ in base.s.trace]
                    known = None
                    if findings.trig_rerun_of_command(base.s):
                        known = "D8"
                    elif findings.trig_empty_rerun(base.s):
                        known = "D9"
                    elif findings.trig_rerun_of_transitioned(base.s):
                        known = "D21"
                    elif findings.trig_idle_items_while_held(base.s) or findings.trig_idle_items_while_held(clean.s):
                        known = "D24"
                    if rf["status"] != cf["status"]:
                        v = {"what": "after the default rerun with all re-executed actions succeeding the workflow ends %s; "
                                     "the clean run ends %s" % (rf["status"], cf["status"]), "step": len(ops) - 1, "ops": ops}
                        if known:
                            v["known"] = known
                        out.append(v)
                    elif rf["status"] == "succeeded" and rf["output"] != cf["output"]:
                        v = {"what": "output after rerun %r differs from the clean run %r" % (rf["output"], cf["output"]),
                             "step": len(ops) - 1, "ops": ops}
                        if known:
                            v["known"] = known
                        out.append(v)
                    else:
                        feats["converged"] = True
        finally:
            base.s.close()
        sess.rel_features = feats
    return out


def cont_run(sm):
    """Continue a simulation after a rerun (no boot)."""
    s = sm.s
    idle = 0
    while sm.events < sm.max_events:
        offers = sm._poll()
        if not s.inflight:
            idle = 0 if offers else idle + 1
            if idle >= 2 or s.status() in COMPLETED:
                break
            continue
        idle = 0
        key = min(s.inflight, key=lambda k: (sm.finish.get(k, 0), repr(k)))
        sm.time = max(sm.time, sm.finish.get(key, 0))
        stt, res = sm.oracle.outcome(key, s.inflight[key])
        s.report(key, stt, res)
        sm.executed.append((key[0], key[1], key[2], s.inflight.get(key, 0), stt))
        sm.events += 1
    s.render()


RUNTIME_ERROR = re.compile(r"^[A-Za-z_]+(Exception|Error): ")


def c02(sess):
    """Truthfulness of the reported status against the tasks and the provider's in-flight set."""
    out = []
    stop = first_raw(sess)
    prev = None
    fail_since_rerun = False
    for i, (op, obs) in enumerate(sess.trace):
        if i >= stop:
            break
        st = obs["state"]["state"]
        status = st["status"]
        infl = sess.inflight_log[i]
        pointed = set(st["tasks"].values())
        recs = [(k, r) for k, r in enumerate(st["sequence"]) if k in pointed]
        boundary = sess.tags[i] in ("report", "request", "render", "rerun", "persist", "boot") or \
            (sess.tags[i] in ("ack", "ack-empty") and (i + 1 == len(sess.tags) or sess.tags[i + 1] not in ("ack", "ack-empty")))
        if op[0] == "rerun" and obs["raised"] is None:
            fail_since_rerun = False
        if prev is not None and len(st["sequence"]) > len(prev["state"]["state"]["sequence"]):
            if any(r["id"] == "fail" for r in st["sequence"][len(prev["state"]["state"]["sequence"]):]):
                fail_since_rerun = True
        if boundary:
            if status == "succeeded":
                act = [r["id"] for _, r in recs if r.get("status") in ACTIVE]
                if act:
                    out.append({"what": "workflow succeeded while task executions are active: %r" % act, "step": i})
                ready = [s["id"] for s in st["staged"] if s["ready"] and not s.get("completed")]
                if ready:
                    out.append({"what": "workflow succeeded while tasks are waiting to run: %r" % ready, "step": i})
                # dormant (paused / pending) item actions do not keep a with-items task from completing -- the
                # engine's rule, the same notion of "in flight" as in the paused / canceled clauses below
                act0 = sess.active_log[i] if hasattr(sess, "active_log") else infl
                if act0:
                    out.append({"what": "workflow succeeded while %d action(s) are in flight" % len(act0), "step": i})
                unhandled = [r["id"] for _, r in recs if r.get("status") in ABENDED and not any(r["next"].values())
                             and r["id"] not in COMMANDS]
                if unhandled:
                    out.append({"what": "workflow succeeded although the failure of %r was not handled by any transition"
                                        % unhandled, "step": i})
                if fail_since_rerun:
                    out.append({"what": "workflow succeeded although a fail command ran", "step": i})
                # a runtime error (an expression that failed to evaluate, a bad delay/count/concurrency value ...)
                # is logged as "<ExceptionClass>: ..."; task failures are logged as "Execution failed. ..."
                rt = [e["message"][:80] for e in obs["state"].get("errors") or []
                      if RUNTIME_ERROR.match(e.get("message") or "")]
                if rt and not sess.fam.get("w_rerun"):
                    out.append({"what": "workflow succeeded although a runtime error was logged: %r" % rt[:2], "step": i})
            # an action that reported paused / pending is dormant, not in flight (C03 names it as a reason for paused)
            act_infl = sess.active_log[i] if hasattr(sess, "active_log") else infl
            if status in ("paused", "canceled") and act_infl:
                out.append({"what": "workflow %s while %d action(s) are in flight" % (status, len(act_infl)), "step": i})
            if status in ("pausing", "canceling") and not infl:
                out.append({"what": "workflow %s although no action is in flight" % status, "step": i})
        # failure is absorbing
        if prev is not None and sess.tags[i] == "report" and op[3][1] in ABENDED:
            sb = wf_status(prev)
            key = "%s__r%s" % (op[1], op[2])
            if key in st["tasks"]:
                r = st["sequence"][st["tasks"][key]]
                handled = any(r["next"].values())
                retried = r.get("status") in ("retrying",) or r.get("status") not in ABENDED
                if not handled and not retried and sb in ("running", "pausing", "paused", "resuming") \
                        and status != "failed":
                    out.append({"what": "task %s failed with no matching transition but the workflow is %s" % (op[1], status),
                                "step": i})
        prev = obs
    return out


def c03(sess):
    """Quiescence implies a resting status (side-effect-free poll at every quiescent point)."""
    out = []
    if not inspection_clean(sess):
        return out
    stop = first_raw(sess)
    pause_requested = False
    idx = 0
    probes = dict((p[0], p) for p in getattr(sess, "probes", []))
    for i, (op, obs) in enumerate(sess.trace):
        if i >= stop:
            break
        if op[0] == "request_status" and op[1] in ("pausing", "paused") and obs["raised"] is None:
            pause_requested = True
        if any(r.get("status") in ("paused", "pending", "pausing") for r in obs["state"]["state"]["sequence"]) or \
                any(x["status"] in ("paused", "pending", "pausing") for s in obs["state"]["state"]["staged"]
                    for x in s.get("items", [])):
            pause_requested = True      # a task-level pause is a legitimate reason as well
        if i in probes:
            _, status, offers, after = probes[i]
            st = obs["state"]["state"]
            if offers is False:
                if status in ("running", "resuming", "pausing", "canceling", "requested", "scheduled", "delayed") \
                        and after == status:
                    out.append({"what": "workflow is %s with no action in flight and nothing on offer" % status, "step": i})
                if status == "paused" and not pause_requested and \
                        not any(r.get("status") in ("paused", "pending") for r in st["sequence"]):
                    out.append({"what": "workflow is paused without a pause request or a paused/pending task", "step": i})
    return out


def _publisher_of(token):
    """tokens are tk_<task>_<n>"""
    if isinstance(token, str) and token.startswith("tk_"):
        parts = token.split("_")
        if len(parts) >= 3:
            return parts[1]
    return None


def _tokens(v, acc):
    if isinstance(v, str):
        if v.startswith("tk_"):
            acc.append(v)
    elif isinstance(v, list):
        for x in v:
            _tokens(x, acc)
    elif isinstance(v, dict):
        for x in v.values():
            _tokens(x, acc)
    return acc


def _ancestors(seq, prev_map):
    """task ids reachable backwards through prev pointers from a prev map {trid: idx}"""
    seen, todo, ids = set(), list(prev_map.values()), set()
    while todo:
        k = todo.pop()
        if k in seen or k >= len(seq):
            continue
        seen.add(k)
        ids.add(seq[k]["id"])
        todo.extend(seq[k]["prev"].values())
    return ids


def c06(sess):
    """Taint oracle: every token visible in an offered task's context / rendered inputs was published by a
    causal ancestor of that task (ancestry through prev pointers); inline action tokens of the task itself
    and workflow vars are excluded by construction (tokens only come from publishes and inline inputs)."""
    out = []
    stop = first_raw(sess)
    prev = None
    for i, (op, obs) in enumerate(sess.trace):
        if i >= stop:
            break
        if prev is not None and op[0] == "get_next" and obs["result"]:
            pst = prev["state"]["state"]
            for o in obs["result"]:
                sg = [s for s in pst["staged"] if s["id"] == o["id"] and s["route"] == o["route"]]
                if len(sg) != 1:
                    continue
                anc = _ancestors(pst["sequence"], sg[0]["prev"])
                key = "%s__r%s" % (o["id"], o["route"])
                if key in pst["tasks"]:      # retry / rerun / loop: earlier executions of the task itself
                    anc |= _ancestors(pst["sequence"], {"self": pst["tasks"][key]})
                toks = _tokens({k: v for k, v in o["ctx"].items() if not k.startswith("__")}, [])
                for tk in toks:
                    pub = _publisher_of(tk)
                    if pub is not None and pub not in anc:
                        out.append({"what": "task %s (route %d) sees %r published by %s, which is not one of its causal "
                                            "ancestors %s" % (o["id"], o["route"], tk, pub, sorted(anc)), "step": i})
                        break
        prev = obs
    return out


def c07(sess):
    """Joins: offered only when the barrier is satisfied on the offered route; once per (task, route) unless
    rerun/loop; a completed workflow with a partially satisfied unsatisfiable join is failed with an error."""
    out = []
    stop = first_raw(sess)
    tasks = sess.definition.get("tasks", {})
    edges, _roots = _def_edges(sess.definition)
    inbound = {}
    for (a, b) in edges:
        inbound.setdefault(b, set()).add(a)
    prev = None
    reran = False
    for i, (op, obs) in enumerate(sess.trace):
        if i >= stop:
            break
        st = obs["state"]["state"]
        if op[0] == "rerun" and obs["raised"] is None:
            reran = True
        if prev is not None:
            pst = prev["state"]["state"]
            if op[0] == "get_next" and obs["result"]:
                for o in obs["result"]:
                    j = tasks.get(o["id"], {}).get("join")
                    if j is None:
                        continue
                    srcs = inbound.get(o["id"], set())
                    need = len(srcs) if j == "all" else int(j)
                    # satisfied sources on the route the join is staged on (routes of the arrivals are the same
                    # route for a join that is not itself behind a split)
                    sg = [s for s in pst["staged"] if s["id"] == o["id"] and s["route"] == o["route"]]
                    got = set()
                    if sg:
                        for trid, k in sg[0]["prev"].items():
                            if k < len(pst["sequence"]):
                                p = pst["sequence"][k]
                                if p.get("status") in COMPLETED and any(
                                        v and t.rsplit("__t", 1)[0] == o["id"] for t, v in p["next"].items()):
                                    got.add(p["id"])
                    if len(got) < need:
                        out.append({"what": "join %s offered with %d of %d required inbound tasks satisfied (%s)"
                                            % (o["id"], len(got), need, sorted(got)), "step": i})
            # a completed, non-canceled workflow with an unready staged join must be failed with the error logged
            if st["status"] in ("succeeded",) and sess.tags[i] in CONFORMANT:
                pend = [s["id"] for s in st["staged"] if not s["ready"] and tasks.get(s["id"], {}).get("join") is not None]
                if pend:
                    out.append({"what": "workflow succeeded while the partially satisfied join(s) %r never ran" % pend,
                                "step": i})
            if st["status"] == "failed" and pst["status"] not in ("failed",) and sess.tags[i] in ("report",):
                pend = [s for s in st["staged"] if not s["ready"] and tasks.get(s["id"], {}).get("join") is not None]
                errs = [e for e in obs["state"]["errors"] if "UnreachableJoinError" in e.get("message", "")]
                unhandled = any(r.get("status") in ABENDED and r["id"] not in COMMANDS
                                and not any(v and not t.startswith("continue__t") for t, v in r["next"].items())
                                for r in st["sequence"])
                has_fail_cmd = any(r["id"] == "fail" for r in st["sequence"])
                other_err = [e for e in obs["state"]["errors"] if "UnreachableJoinError" not in e.get("message", "")
                             and "Execution failed" not in e.get("message", "")]
                if pend and not errs and not unhandled and not has_fail_cmd and not other_err:
                    out.append({"what": "workflow failed with joins %r pending but no unreachable-join error was logged"
                                        % [s["id"] for s in pend], "step": i})
        prev = obs
    # once per (task, route) for join: all tasks in acyclic, rerun-free histories
    if not reran:
        last = sess.trace[min(stop, len(sess.trace)) - 1][1]["state"]["state"] if sess.trace and stop > 0 else None
        if last:
            seen = {}
            for r in last["sequence"]:
                if tasks.get(r["id"], {}).get("join") == "all":
                    seen[(r["id"], r["route"])] = seen.get((r["id"], r["route"]), 0) + 1
            for (t, rt), n in seen.items():
                if n > 1 and not sess.fam.get("p_loop"):
                    out.append({"what": "join: all task %s ran %d times on route %d" % (t, n, rt),
                                "step": min(stop, len(sess.trace)) - 1})
    return out


def c19(sess):
    """Asking twice without an intervening event: same answer, and the state stays as the first call left it."""
    out = []
    for i in range(1, len(sess.trace)):
        if sess.tags[i] == "query2" and sess.tags[i - 1] == "query1":
            a, b = sess.trace[i - 1][1], sess.trace[i][1]
            if engine.dumps_sorted(a["result"]) != engine.dumps_sorted(b["result"]):
                out.append({"what": "second get_next_tasks answered differently: %r then %r"
                                    % ([o["id"] for o in a["result"] or []], [o["id"] for o in b["result"] or []]), "step": i})
            elif engine.dumps_sorted(a["state"]) != engine.dumps_sorted(b["state"]):
                d = engine.first_difference(a["state"], b["state"])
                out.append({"what": "second get_next_tasks changed the persisted state at %s" % (d[0] if d else "?"), "step": i})
        if sess.trace[i][0][0] == "get_next" and sess.trace[i][1]["result"]:
            ids = [(o["id"], o["route"]) for o in sess.trace[i][1]["result"]]
            if ids != sorted(ids):
                out.append({"what": "offers are not sorted by (id, route): %r" % ids, "step": i})
    return out
