"""Property monitors over engine traces.  A monitor takes a finished Session (engine side only is
read: sess.trace = [(op, observation)], sess.tags, sess.inflight_log, sess.definition) and returns a
list of violations {what, step, ...}.  Every clause is either the conclusion of a proved theorem
or a literal clause of the property text; monitors are used to search for concrete failing
inputs and as tests of the clauses that are not proved."""
from harness import engine

COMPLETED = ("succeeded", "failed", "timeout", "abandoned", "canceled")
ACTIVE = ("requested", "scheduled", "delayed", "running", "resuming", "pausing", "canceling")
RUNNING_ST = ("requested", "scheduled", "delayed", "running", "resuming", "retrying")
ABENDED = ("failed", "timeout", "abandoned")


def wf_status(obs):
    return obs["state"]["state"]["status"]


def states(sess):
    return [o["state"] for _, o in sess.trace]


def c04(sess):
    """Terminal statuses are final; no offers after them; late reports absorbed; rejected requests inert."""
    out = []
    prev = None
    for i, (op, obs) in enumerate(sess.trace):
        if prev is not None:
            sb, sa = wf_status(prev), wf_status(obs)
            accepted_rerun = op[0] == "rerun" and obs["raised"] is None
            if sb in ("failed", "canceled") and sa != sb and not accepted_rerun:
                out.append({"what": "terminal status %s changed to %s by %s" % (sb, sa, op[0]), "step": i})
            if sb == "succeeded" and sa not in ("succeeded", "failed") and not accepted_rerun:
                out.append({"what": "succeeded changed to %s by %s" % (sa, op[0]), "step": i})
            if op[0] == "get_next" and sb in ("succeeded", "canceled") and obs["result"]:
                out.append({"what": "tasks offered in status %s: %s" % (sb, [o["id"] for o in obs["result"]]),
                            "step": i})
            if op[0] == "get_next" and sb == "failed" and obs["result"]:
                flagged = set((s["id"], s["route"]) for s in prev["state"]["state"]["staged"]
                              if s.get("run_on_fail"))
                bad = [o["id"] for o in obs["result"] if (o["id"], o["route"]) not in flagged]
                if bad:
                    out.append({"what": "failed workflow offers tasks that are not clean-up tasks: %s" % bad,
                                "step": i})
            if sess.tags[i] == "report" and sb in ("failed", "canceled", "succeeded") and obs["raised"]:
                out.append({"what": "late report in status %s raised %s" % (sb, obs["raised"]), "step": i})
            if op[0] == "request_status" and obs["raised"] is not None:
                if engine.dumps_sorted(prev["state"]) != engine.dumps_sorted(obs["state"]):
                    d = engine.first_difference(prev["state"], obs["state"])
                    out.append({"what": "rejected status request %s (%s) changed the persisted state at %s"
                                        % (op[1], obs["raised"][0], d[0] if d else "?"), "step": i})
        prev = obs
    return out


CONFORMANT = ("boot", "poll", "ack", "ack-empty", "report", "request", "render", "rerun", "persist")


def c18(sess):
    """History is append-only; started records keep id/route/ctxs.in/prev; decided records are frozen."""
    out = []
    prev = None
    for i, (op, obs) in enumerate(sess.trace):
        cur = obs["state"]["state"]
        if prev is not None:
            for name in ("contexts", "routes"):
                a, b = prev[name], cur[name]
                if len(b) < len(a) or b[: len(a)] != a:
                    out.append({"what": "%s is not an extension of the previous %s after %s" % (name, name, op[0]),
                                "step": i})
            a, b = prev["sequence"], cur["sequence"]
            if len(b) < len(a):
                out.append({"what": "task execution records were removed by %s" % op[0], "step": i})
            for k in range(min(len(a), len(b))):
                ra, rb = a[k], b[k]
                for f in ("id", "route", "prev"):
                    if ra[f] != rb[f]:
                        out.append({"what": "record %d (%s): field %s changed from %r to %r after %s"
                                            % (k, ra["id"], f, ra[f], rb[f], op[0]), "step": i})
                if ra["ctxs"]["in"] != rb["ctxs"]["in"]:
                    out.append({"what": "record %d (%s): inbound contexts changed from %r to %r after %s"
                                        % (k, ra["id"], ra["ctxs"]["in"], rb["ctxs"]["in"], op[0]), "step": i})
                if sess.tags[i] in CONFORMANT and ra.get("next"):
                    if ra.get("status") != rb.get("status") or ra["next"] != rb["next"]:
                        out.append({"what": "record %d (%s) whose transitions were decided changed: status %s->%s, "
                                            "next %r->%r after %s" % (k, ra["id"], ra.get("status"), rb.get("status"),
                                                                      ra["next"], rb["next"], op[0]), "step": i})
        prev = cur
    return out


# ---------------------------------------------------------------- relational monitors (twin runs)

def _mk_sim(definition, inputs, oracle, sched, **kw):
    from harness import provider, sim
    sess = provider.Session(definition, inputs, with_model=False)
    return sim.Sim(sess, oracle, sched, **kw)


def c08_scenario(definition, inputs, oracle, scheds):
    """Same scenario under several completion orders: the final status must agree; when succeeded,
    so must the executed-record multiset, the published snapshots (as a multiset) and the output."""
    finals = []
    for sc in scheds:
        sm = _mk_sim(definition, inputs, oracle, sc)
        try:
            sm.run()
            finals.append((sc, sm.final(), [op for op, _ in sm.s.trace]))
        finally:
            sm.s.close()
    out = []
    base_sc, base, base_ops = finals[0]
    for sc, f, ops in finals[1:]:
        if f["status"] != base["status"]:
            out.append({"what": "final status depends on completion order: %s vs %s" % (base["status"], f["status"]),
                        "ops": ops, "ops_other": base_ops, "step": len(ops) - 1})
        elif f["status"] == "succeeded":
            for k in ("records", "published", "output"):
                if f[k] != base[k]:
                    out.append({"what": "%s depends on completion order: %r vs %r" % (k, base[k], f[k]),
                                "ops": ops, "ops_other": base_ops, "step": len(ops) - 1})
                    break
    return out, finals
