"""Structured generators of workflow definitions and provider histories.  Every random choice
comes from one random.Random seeded by the case seed, so a case replays exactly from its seed
(and every case is also stored explicitly - definition, inputs, operations - in replays)."""
import random

from harness import provider

COMPLETED = ("succeeded", "failed", "timeout", "abandoned", "canceled")

DEFAULT_FAMILY = dict(
    n_tasks=(2, 7), fanout=(1, 2), p_second_transition=0.35, p_when=0.6, p_publish=0.4,
    p_join=0.5, p_join_count=0.35, p_items=0.15, p_retry=0.12, p_cmd=0.15, p_delay=0.08,
    p_loop=0.0, p_bad=0.0, p_jinja=0.25, p_inline=0.15, p_dictval=0.2, p_input=0.3,
    p_output=0.8, p_late_join=0.0, unique_writers=False,
    # history
    steps=(8, 60), w_poll=5, w_report=6, w_ctrl=0.8, w_persist=0.6, w_render=0.3, w_rerun=0.5,
    w_malformed=0.15, p_fail=0.2, p_other_abend=0.04, p_intermediate=0.08, p_item_fail=0.15,
)


def family(**kw):
    f = dict(DEFAULT_FAMILY)
    f.update(kw)
    return f


class Lang(object):
    def __init__(self, jinja):
        self.jinja = jinja

    def e(self, yaql, jinja=None):
        if self.jinja:
            return "{{ %s }}" % (jinja if jinja is not None else yaql)
        return "<%% %s %%>" % yaql

    def ctx(self, var):
        return self.e("ctx().%s" % var)

    def ctxf(self, var):
        return self.e("ctx(%s)" % var, "ctx('%s')" % var)

    def eq(self, a, b):
        return self.e("%s = %s" % (a, b), "%s == %s" % (a, b))


def gen_definition(rng, fam):
    """A native-v1 definition as a dict, plus runtime inputs."""
    L = Lang(rng.random() < fam["p_jinja"])
    n = rng.randint(*fam["n_tasks"])
    names = ["t%02d" % i for i in range(n)]
    wf = {"version": 1.0}
    vars_ = [{"x": 0}, {"y": "y0"}, {"lst": [1, 2, 3][: rng.randint(0, 3)] if rng.random() < 0.3 else [1, 2, 3]},
             {"n": 0}, {"d": 1}, {"neg": -1}, {"ks": "k0"}]
    if rng.random() < fam["p_dictval"]:
        vars_.append({"dv": {"a": 1}})
    else:
        vars_.append({"dv": "plain"})
    inputs = {}
    if rng.random() < fam["p_input"]:
        wf["input"] = ["a", {"b": 7}]
        if rng.random() < 0.7:
            inputs["a"] = rng.choice([1, "s", [1, 2], {"k": "v"}, None, True])
        if rng.random() < 0.3:
            inputs["b"] = rng.choice([2, "t"])
        vars_.append({"ab": L.ctx("b")})
    wf["vars"] = vars_
    tasks = {}
    inbound = {t: set() for t in names}
    cmds = ["noop", "fail", "continue"]
    tok = [0]
    writers = []

    def bad():
        return rng.choice([L.ctx("nope"), L.e("ctx().x.k.z"), L.e("1 + 'a'", "1 + 'a'"), L.e("nofunc(1)"),
                           L.e("list().first()", "[] | first | int"), L.e("1 / 0"), L.e("list(1)[5]", "[1][5].k"),
                           L.e("dict(a=>1).b.c", "{'a': 1}.b.c"), L.e("int('x')", "'x' | int(base=99)"),
                           # two failing expressions in one text: which one is reported must not depend on anything
                           L.ctx("nope1") + " / " + L.ctx("nope2")])

    def maybe_bad(v):
        return bad() if rng.random() < fam["p_bad"] else v

    if rng.random() < fam["p_bad"] * 1.5:
        vars_.append({"bv": bad()})         # a workflow variable that fails to render

    def token(t):
        tok[0] += 1
        return "tk_%s_%d" % (t, tok[0])

    def pub_value(t):
        if rng.random() < 0.04:
            # a dict whose KEY is an expression: a string key (ks is never re-published, so it stays "k0"; keys that
            # evaluate to other hashable values are outside the model), or -- as a failing expression -- a list
            if rng.random() < fam["p_bad"] * 4:
                if L.jinja and rng.random() < 0.5:
                    return {"{{ (ctx().lst, 1) }}": 1}      # a tuple is hashable only if its members are
                return {L.ctx("lst"): 1}
            return {L.ctx("ks"): token(t)}
        r = rng.random()
        if r < 0.45:
            return token(t)
        if r < 0.6:
            return L.ctx(rng.choice(["x", "y"]))
        if r < 0.7:
            return L.e("result()")
        if r < 0.8:
            return {"k_%s" % t: token(t)}
        if r < 0.9:
            return rng.choice([1, 2, True, None, [1, "a"]])
        return "pre " + L.ctx("y") + " post"

    def when():
        if fam.get("p_pub_dict") and rng.random() < 0.12:
            # sensitive to what has been merged into the dict variable so far
            return L.e("len(ctx().dv) > 1", "ctx().dv | length > 1")
        r = rng.random()
        if r < 0.4:
            return L.e("succeeded()")
        if r < 0.6:
            return L.e("failed()")
        if r < 0.7:
            return L.e("completed()")
        if r < 0.85:
            return L.eq("result()", "'a'")
        if r < 0.9:
            return L.eq("ctx().x", "0")
        if r < 0.94:
            # conditions whose value is not a boolean: truthiness decides ([] / "" / 0 / null are false)
            return rng.choice([L.ctx("lst"), L.e("result()"), L.ctx("x"), L.ctx("n"), L.e("ctx().get('z')"),
                               L.ctx("dv")])
        if r < 0.955 and fam.get("p_pub_dict"):
            # sensitive to what has been merged into the dict variable so far
            return L.e("len(ctx().dv) > 1", "ctx().dv | length > 1")
        if r < 0.985:
            # a filter pipeline: its value is a (possibly empty) sequence, truthiness decides
            return rng.choice([L.e("ctx().lst.where($ > 5)", "ctx().lst | select('gt', 5)"),
                               L.e("ctx().lst.where($ > 1)", "ctx().lst | select('gt', 1)"),
                               L.e("ctx().lst.where($ > 5)", "ctx().lst | reject('lt', 9)")])
        return L.e("succeeded() and ctx().n < 5")

    for i, t in enumerate(names):
        spec = {}
        # action
        r = rng.random()
        if r < fam["p_inline"]:
            spec["action"] = 'core.echo m="%s" k=%d' % (token(t), rng.randint(-2, 9))
        elif r < 0.55:
            spec["action"] = "core.noop"
        else:
            spec["action"] = "core.echo"
            spec["input"] = {"m": maybe_bad(rng.choice([L.ctx("x"), L.ctxf("y"), token(t), L.ctx("dv")]))}
        if rng.random() < fam["p_delay"]:
            spec["delay"] = maybe_bad(rng.choice([2, L.ctx("d")]))
        # with items
        if rng.random() < fam["p_items"]:
            form = rng.random()
            conc = rng.choice([None, None, 1, 2, 3, L.ctx("d"), 0, L.ctx("d"), L.ctx("neg"), L.ctx("n")]
                              + [L.ctx("d")] * fam.get("w_conc_var", 0))
            if form < 0.4:
                w = {"items": maybe_bad(L.ctx("lst"))}
                spec["input"] = {"m": L.e("item()")}
            elif form < 0.7:
                w = {"items": "i in " + maybe_bad(L.ctx("lst"))}
                spec["input"] = {"m": L.e("item(i)")}
            else:
                w = {"items": maybe_bad(L.e("list(1, 2)", "[1, 2]"))}
                spec["input"] = {"m": L.e("item()")}
            spec["action"] = "core.echo"
            if conc is not None:
                w["concurrency"] = maybe_bad(conc)
            elif rng.random() < 0.5:
                w = w["items"]
            spec["with"] = w
        # retry
        if rng.random() < fam["p_retry"]:
            rt = {"count": maybe_bad(rng.choice([0, 1, 2, L.ctx("d")]))}
            if rng.random() < 0.5:
                rt["when"] = maybe_bad(rng.choice([L.e("failed()"), L.e("completed()"), L.eq("result()", "'b'")]))
            if rng.random() < 0.4:
                rt["delay"] = maybe_bad(rng.choice([1, L.ctx("d")]))
            spec["retry"] = rt
        # transitions
        later = names[i + 1:]
        nxt = []
        ntr = 0
        if later or rng.random() < fam["p_cmd"]:
            ntr = 1 + (1 if rng.random() < fam["p_second_transition"] else 0) + (1 if rng.random() < 0.1 else 0)
        for _ in range(ntr):
            tr = {}
            if rng.random() < fam["p_when"]:
                tr["when"] = maybe_bad(when())
            if rng.random() < fam["p_publish"]:
                pubs = []
                for _ in range(rng.randint(1, 2)):
                    if fam.get("unique_writers"):
                        var = "w_%s_%d" % (t, len(nxt))
                        writers.append(var)
                    else:
                        var = rng.choice(["x", "y", "z", "dv", "d"])
                    if rng.random() < fam.get("p_pub_dict", 0.0):
                        # dict values under one variable, published again and again: merged key by key downstream
                        pubs.append({"dv": {"k_%s_%d" % (t, len(nxt)): token(t)}})
                    elif var == "d":
                        # the variable that concurrency / delay / retry count expressions read, changed on the way
                        pubs.append({var: "2" if rng.random() < fam["p_bad"] * 2 else rng.choice([2, 3, 0])})
                    else:
                        pubs.append({var: maybe_bad(pub_value(t))})
                if rng.random() < fam.get("p_pub_d", 0.0):
                    pubs.append({"d": rng.choice([2, 3, 0])})
                # one-key dicts must be unique
                seen = set()
                pubs = [p for p in pubs if not (list(p)[0] in seen or seen.add(list(p)[0]))]
                if rng.random() < 0.15 and all(isinstance(list(p.values())[0], str) and " " not in list(p.values())[0]
                                               and "%" not in list(p.values())[0] and "{" not in list(p.values())[0]
                                               for p in pubs):
                    tr["publish"] = " ".join('%s="%s"' % (list(p)[0], list(p.values())[0]) for p in pubs)
                else:
                    tr["publish"] = pubs
            do = []
            k = rng.randint(*fam["fanout"])
            for _ in range(k):
                if later and rng.random() > fam["p_cmd"]:
                    # prefer near targets so that fan-in happens
                    j = min(len(later) - 1, int(rng.expovariate(0.9)))
                    do.append(later[j])
                elif rng.random() < fam["p_cmd"] * 2:
                    c = rng.choice(cmds + (["retry"] if rng.random() < 0.3 else []))
                    do.append(c)
            do = [d for idx, d in enumerate(do) if d not in do[:idx]]
            if do:
                for d in do:
                    if d in inbound:
                        inbound[d].add(t)
                if rng.random() < 0.2:
                    tr["do"] = ", ".join(do)
                else:
                    tr["do"] = do
            elif "publish" not in tr and "when" not in tr:
                continue
            nxt.append(tr)
        # the clean-up idiom: on failure run a clean-up task beside the fail command
        if later and rng.random() < fam.get("p_cleanup_fail", 0.05):
            d = rng.choice(later)
            tr = {"when": L.e("failed()"), "do": [d, "fail"]}
            if rng.random() < 0.4 and not fam.get("unique_writers"):
                tr["publish"] = [{"z": token(t) if rng.random() < 0.5 else L.ctx(rng.choice(["x", "y"]))}]
            inbound[d].add(t)
            nxt.append(tr)
        if nxt:
            spec["next"] = nxt
        tasks[t] = spec
    # joins where there is fan-in
    for t in names:
        srcs = inbound[t]
        if len(srcs) >= 2 and rng.random() < fam["p_join"]:
            if rng.random() < fam["p_join_count"]:
                if rng.random() < fam["p_late_join"]:
                    tasks[t]["join"] = rng.randint(1, len(srcs) - 1)
                    # a join that can start before all branches arrived, and is retried: a branch arriving while
                    # the retry is staged meets the re-staged entry
                    if rng.random() < fam.get("p_join_retry", 0.0) and "retry" not in tasks[t]:
                        tasks[t]["retry"] = {"count": rng.choice([1, 2])}
                    # ... and one that runs items while the other branches are still arriving
                    if rng.random() < fam.get("p_join_items", 0.0) and "with" not in tasks[t]:
                        tasks[t]["action"] = "core.echo"
                        tasks[t]["input"] = {"m": L.e("item()")}
                        tasks[t]["with"] = L.e("list(1, 2)", "[1, 2]")
                        if not fam.get("unique_writers"):
                            # each branch brings its own value of x, and the task's failure handler publishes what
                            # the execution saw: that is fixed when the execution starts, not when it fails
                            for src in sorted(srcs):
                                for tr in tasks[src].get("next", []):
                                    do = tr.get("do") or []
                                    do = [d.strip() for d in do.split(",")] if isinstance(do, str) else do
                                    if t in do and "publish" not in tr:
                                        tr["publish"] = [{"x": token(src)}]
                            tasks[t]["next"] = [{"when": L.e("failed()"), "publish": [{"z": L.ctx("x")}]}] + \
                                list(tasks[t].get("next") or [])
                else:
                    tasks[t]["join"] = len(srcs)
            else:
                tasks[t]["join"] = "all"
    # an optional counter-bounded loop: single entry, single back edge, no join inside
    if n >= 3 and rng.random() < fam["p_loop"]:
        i = rng.randint(1, n - 2)     # the loop head keeps an entry from outside the loop (it is not a start task)
        j = rng.randint(i, min(n - 2, i + 2))
        body = names[i:j + 1]
        ok = all("join" not in tasks[b] and ("with" not in tasks[b] or fam.get("loop_items")) for b in body)
        if ok:
            for b in body[:-1]:
                tasks[b]["next"] = [{"do": [names[names.index(b) + 1]]}]
            tasks[body[-1]]["next"] = [
                {"when": L.e("ctx().n < 2"), "publish": [{"n": L.e("ctx().n + 1")}], "do": [body[0]]},
                {"when": L.e("ctx().n >= 2"), "do": [names[j + 1]]},
            ]
            for b in body:
                tasks[b].pop("retry", None)
            prev_t = tasks[names[i - 1]]
            prev_t["next"] = [{"do": [body[0]]}]
    wf["tasks"] = tasks
    if rng.random() < fam["p_output"]:
        out = [{"ox": maybe_bad(L.ctx("x"))}, {"oy": L.ctx("y")}]
        if rng.random() < 0.3:
            out.append({"oz": L.e("ctx().get('z')")})
        if rng.random() < 0.3:
            out.append({"odv": L.ctx("dv")})
        for wv in writers[:4]:
            out.append({"o_" + wv: L.e("ctx().get('%s')" % wv)})
        wf["output"] = out
    return wf, inputs


class Oracle(object):
    """Outcome per (task, route, item, attempt): a pure function of the case seed."""

    def __init__(self, seed, fam, per_task=False):
        self.seed = seed
        self.fam = fam
        self.per_task = per_task     # outcomes fixed per task (route numbers depend on arrival order)

    def outcome(self, key, attempt):
        if self.per_task:
            key = (key[0], None, key[2])
        h = provider.crc(self.seed, key, attempt) / 2.0 ** 32
        pf = self.fam["p_item_fail"] if key[2] is not None else self.fam["p_fail"]
        if h < pf:
            st = "failed"
        elif h < pf + self.fam["p_other_abend"]:
            st = ("timeout", "abandoned", "canceled")[provider.crc(self.seed, key, attempt, "k") % 3]
        else:
            st = "succeeded"
        rv = provider.crc(self.seed, key, attempt, "r") % 11
        # falsy results (0, false, "", [], {}) are results like any other: conditions on result() must see them
        res = ["a", "b", "a", 1, {"k": "v"}, None, "a", 0, False, "", []][rv]
        return st, res


CTRL = ["pausing", "paused", "resuming", "running", "canceling", "canceled", "failed"]


def run_history(sess, rng, fam, oracle, max_steps=None):
    """Adaptive random history over a Session (engine, and model when attached)."""
    steps = max_steps or rng.randint(*fam["steps"])
    if rng.random() < fam.get("p_persist_first", 0.0):
        sess.persist()          # persisted before anything else was asked of the fresh conductor
    sess.boot()
    idle_polls = 0
    tasks = list(sess.definition["tasks"].keys())
    for _ in range(steps):
        if hasattr(sess, "after_op"):
            sess.after_op()
        st = sess.status()
        choices = [("poll", fam["w_poll"])]
        if sess.inflight:
            choices.append(("report", fam["w_report"]))
        choices.append(("ctrl", fam["w_ctrl"]))
        choices.append(("persist", fam["w_persist"]))
        choices.append(("render", fam["w_render"]))
        choices.append(("malformed", fam["w_malformed"]))
        if fam.get("w_query"):
            choices.append(("query", fam["w_query"]))
        if st in COMPLETED and not (fam.get("rerun_only_when_idle") and sess.inflight):
            choices.append(("rerun", fam["w_rerun"]))
        elif fam.get("w_rerun_any") and not sess.inflight:
            choices.append(("rerun", fam["w_rerun_any"]))       # must be refused: the workflow is not completed
        total = sum(w for _, w in choices)
        x = rng.random() * total
        for name, w in choices:
            x -= w
            if x <= 0:
                break
        if name == "poll":
            offers = sess.poll()
            if not offers and not sess.inflight:
                idle_polls += 1
                if idle_polls >= 3:
                    break
            else:
                idle_polls = 0
        elif name == "report":
            keys = sorted(sess.inflight, key=repr)
            if fam.get("lifecycle") and st in ("pausing", "paused"):
                # a dormant (paused) action is not woken up while the workflow itself is held
                keys = [k for k in keys if sess.last_reported.get(k) not in ("paused", "pending")]
                if not keys:
                    continue
            key = keys[rng.randrange(len(keys))]
            sibs = [k for k in keys if k[2] is not None and k[:2] == key[:2] and k != key
                    and sess.last_reported.get(k) not in ("paused", "pending")]
            if key[2] is not None and sibs and rng.random() < fam.get("p_item_mix", 0.0):
                # one item fails and the provider pauses the other in-flight items of the task: the task sees a mix
                # of failed and paused items with none active
                sess.report(key, "failed", None)
                for k in sibs:
                    if k in sess.inflight:
                        sess.report(k, "paused", None)
                continue
            if rng.random() < fam["p_intermediate"]:
                if fam.get("lifecycle"):
                    # a plausible action lifecycle: running -> pausing -> paused -> resuming -> running, running -> canceling
                    last = sess.last_reported.get(key) or "running"
                    nxt = {"running": ["paused", "pending"], "paused": ["resuming"], "resuming": ["running"],
                           "pending": ["pending"]}.get(last, ["running"])
                    stt = rng.choice(nxt)
                    # a dormant action is not woken up once the workflow is being canceled or has ended
                    if stt == "resuming" and st in ("canceling", "canceled", "failed", "succeeded"):
                        stt = "paused"
                else:
                    stt = rng.choice(fam.get("intermediate_statuses") or
                                     ["running", "pausing", "paused", "pending", "resuming", "canceling"])
                sess.report(key, stt, None)
            else:
                stt, res = oracle.outcome(key, sess.inflight[key])
                sess.report(key, stt, res)
        elif name == "ctrl":
            if st == "running" and sess.inflight and rng.random() < fam.get("p_pause_drain", 0.0):
                # pause, let everything in flight finish without polling (the workflow comes to rest paused,
                # possibly with nothing left to run), then resume with either of the two resume requests
                sess.request("pausing")
                for key in sorted(sess.inflight, key=repr):
                    stt, res = oracle.outcome(key, sess.inflight[key])
                    sess.report(key, stt, res)
                sess.request(rng.choice(["resuming", "running"]))
            elif st in ("pausing", "paused") and rng.random() < 0.6:
                sess.request(rng.choice(["resuming", "running"]))
            else:
                sess.request(rng.choice(CTRL))
        elif name == "query":
            sess.call(["get_next"], "query1")
            sess.call(["get_next"], "query2")
        elif name == "persist":
            sess.persist()
        elif name == "render":
            sess.render()
        elif name == "rerun":
            recs = sess.trace[-1][1]["state"]["state"]["sequence"]
            r = rng.random()
            if r < 0.5 or not recs:
                reqs = []
            else:
                picks = rng.sample(recs, min(len(recs), rng.randint(1, 3)))
                reqs = [[p["id"], p["route"], rng.random() < 0.3] for p in picks]
                if rng.random() < 0.1:
                    reqs.append(["zz_missing", 0, False])
            sess.rerun(reqs)
        elif name == "malformed":
            r = rng.random()
            t = rng.choice(tasks)
            if r < 0.3:
                sess.call(["event", t, rng.randint(0, 2), ["action", rng.choice(["succeeded", "running", "failed"]), None]])
            elif r < 0.5:
                sess.call(["event", "zz_missing", 0, ["action", "running", None]])
            elif r < 0.7:
                sess.call(["event", t, 0, ["item", rng.randint(0, 4), rng.choice(["running", "succeeded"]), None, []]])
            elif r < 0.85:
                sess.call(["request_status", rng.choice(["succeeded", "abandoned", "scheduled", "requested", "null"])])
            else:
                sess.call(["get_next"])
    sess.render()
    return sess
