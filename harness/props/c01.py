"""C01 -- Every task execution is justified by the definition, exactly once."""
from harness import monitors, progs
from harness.props import common

THEOREMS = [
    {"name": "C01_offers_are_staged", "strength": "F",
     "text": "for every evaluator and initialised state every offer of get_next_tasks is the (id, route) of a ready, "
             "not-completed staged entry of that state"},
    {"name": "C01_justification_is_permanent", "strength": "P",
     "text": "prev / ctxs.in of a started record never change (R18), so its recorded justification is permanent"},
    {"name": "(tested, not proved) a record is created only for a start task or through a satisfied transition of a completed "
             "predecessor that is a transition of the definition; exact multiset on success", "strength": "T",
     "text": "monitor c01 reads transitions and start tasks straight from the definition (independently of the composer)"},
]
TRUSTED_BASE = common.TRUSTED_BASE_COMMON
ASSUMPTIONS = ["exactly-once and the multiset equality with the definition's denotation are not proved (no order-free "
               "semantics in this development); known findings D1 (join re-fires) and D8 (rerun offers a command)"]
FAM = progs.family(n_tasks=(2, 8), p_loop=0.15, p_cmd=0.2, p_join=0.5, p_fail=0.15, w_ctrl=0.3, w_rerun=0.3)


def features(sess):
    last = sess.trace[-1][1]["state"]["state"]
    return {"records>=3": len(last["sequence"]) >= 3,
            "joined": any(len(r["prev"]) >= 2 for r in last["sequence"]),
            "commands": any(r["id"] in monitors.COMMANDS for r in last["sequence"])}


def nontrivial(r):
    return bool((r.get("features") or {}).get("records>=3"))


def run(ctx):
    return common.conductor_run(
        ctx, "C01", FAM, common.project_full, monitors.c01, features, nontrivial, 300, 6000,
        rule="generated definitions (sequences, forks, decisions, joins, commands, counter-bounded loops) under random "
             "histories; non-trivial = at least 3 execution records were created")


def replay(payload):
    return common.replay_conductor(payload, monitors.c01)
