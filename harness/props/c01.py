"""C01 -- Every task execution is justified by the definition, exactly once."""
from harness import monitors, progs
from harness.props import common

THEOREMS = [
    {"name": "C01_offers_are_staged", "strength": "F",
     "text": "for every evaluator and initialised state every offer of get_next_tasks is the (id, route) of a ready, "
             "not-completed staged entry of that state"},
    {"name": "C01_justification_is_permanent", "strength": "P",
     "text": "prev / ctxs.in of a started record never change (R18), so its recorded justification is permanent"},
    {"name": "C01b_reachable_justified_always / C01b_api_justified_always / C01b_reachable_offers_justified (props/C01b.v)",
     "strength": "F",
     "text": "invariant of every history of API calls from a fresh conductor (every evaluator, reruns, late / duplicate / "
             "malformed events and calls that raise included; only the injected internal retry event is excluded): every "
             "staged entry and every record either has no predecessor and is a start task of the graph, or each of its "
             "predecessors is a completed record of an inbound task whose transition into it is an edge of the graph and is "
             "recorded satisfied; hence every offer is so justified. Hypothesis: transition ids unique per task (true of "
             "composed graphs; witness that it is needed).  (Before repair D33 a per-event protocol clause was needed; the "
             "former refuting witness is now C01b_justified_kept_by_duplicate_report)"},
    {"name": "C01b_decision_recorded_is_criteria / C01b_no_reference_unless_true / C01b_completion_ctx_shape", "strength": "F",
     "text": "'recorded satisfied' means 'the condition evaluated true on the predecessor's actual status and result': the "
             "value written is the conjunction of the truthiness of the criteria evaluated in the context made from the "
             "reported result; nothing is staged unless it is true; no other operation touches the decisions"},
    {"name": "C01c_transition_stages_once / C01c_first_event_creates_one_record / C01c_later_event_creates_no_record / "
             "C01c_add_task_state_one / C01c_command_call_creates_one_record / C01c_tail_record_count (props/C01c.v)", "strength": "F",
     "text": "EXACTLY ONCE, per step: a followed transition appends exactly one staged entry under the key (target, route or "
             "the route it opens) iff none is staged under that key, and otherwise updates that entry in place; the first "
             "event for a staged key creates exactly one record and later events none; every queued engine command gets "
             "exactly one record"},
    {"name": "Examples two_branches_into_a_task_in_a_cycle_merged / loop_with_a_side_branch_merged", "strength": "R",
     "text": "the history-level 'one execution per satisfied transition' needs two provisos (both replayed on the engine): a "
             "non-join task inside a cycle with TWO entries keeps its route, so two arrivals merge into one execution "
             "(outside the property's loops: single entry); and a second arrival before the first staging was acknowledged "
             "merges (impossible when every offer of a poll is acknowledged, as the provider protocol does)"},
    {"name": "(tested, not proved) exact multiset on success (nothing duplicated, nothing lost)", "strength": "T",
     "text": "monitor c01 reads transitions and start tasks straight from the definition (independently of the composer)"},
]
TRUSTED_BASE = common.TRUSTED_BASE_COMMON
ASSUMPTIONS = ["exactly-once and the multiset equality with the definition's denotation are not proved (no order-free "
               "semantics in this development); known findings D1 (join re-fires) and D8 (rerun offers a command)"]
FAM = progs.family(p_pub_dict=0.35, p_dictval=0.6, p_second_transition=0.7, p_jinja=0.4, n_tasks=(2, 8), p_loop=0.15, p_cmd=0.2, p_join=0.5, p_fail=0.15, w_ctrl=0.3, w_rerun=0.3)


def features(sess):
    last = sess.trace[-1][1]["state"]["state"]
    return {"records>=3": len(last["sequence"]) >= 3,
            "joined": any(len(r["prev"]) >= 2 for r in last["sequence"]),
            "commands": any(r["id"] in monitors.COMMANDS for r in last["sequence"])}


def nontrivial(r):
    return bool((r.get("features") or {}).get("records>=3"))


def run(ctx):
    return common.conductor_run(
        ctx, "C01", FAM, common.project_full, monitors.c01, features, nontrivial, 700, 6000,
        rule="generated definitions (sequences, forks, decisions, joins, commands, counter-bounded loops) under random "
             "histories; non-trivial = at least 3 execution records were created")


def replay(payload):
    return common.replay_conductor(payload, monitors.c01)
