"""C02 -- Reported workflow status is truthful about the tasks."""
from harness import monitors, progs
from harness.props import common

THEOREMS = [
    {"name": "C02_succeeded_only_when_all_done", "strength": "F",
     "text": "the workflow machine reports succeeded only if nothing is active, paused, canceled, staged or next, and the "
             "reporting task succeeded or was remediated"},
    {"name": "C02_unremediated_failure_fails / C02_failure_while_canceling", "strength": "F",
     "text": "a failure with no matching transition fails the workflow from running/pausing/paused/resuming; while canceling "
             "the status stays in the cancel class"},
    {"name": "C02_transitional_only_while_active / C02_active_events_keep_going", "strength": "F",
     "text": "pausing/canceling are left as soon as a settled task event is processed with nothing active; active events "
             "never put the workflow to rest"},
    {"name": "(tested, not proved) the link between active task executions and the provider's in-flight set; "
             "a fail command / runtime error always ends failed", "strength": "T", "text": "monitor c02"},
]
TRUSTED_BASE = common.TRUSTED_BASE_COMMON + [
    "facts in facts/F_names.v sweep all 16 statuses x 32 flag combinations of the contextualised task-event name against "
    "every row of the generated workflow table"]
ASSUMPTIONS = ["reference provider protocol (atomic poll); in-flight = acknowledged actions that have not reported a "
               "completed status; known finding D1"]
FAM = progs.family(p_bad=0.06, p_retry=0.2, p_cleanup_fail=0.1, w_ctrl=1.5, p_cmd=0.25, p_fail=0.2, p_intermediate=0.0, w_malformed=0.03, n_tasks=(2, 7),
                   steps=(15, 70), w_rerun=0.0)


def features(sess):
    sts = set(o["state"]["state"]["status"] for _, o in sess.trace)
    return {"succeeded": "succeeded" in sts, "pausing": "pausing" in sts, "canceling": "canceling" in sts,
            "failed": "failed" in sts, "paused": "paused" in sts}


def nontrivial(r):
    f = r.get("features") or {}
    return sum(1 for v in f.values() if v) >= 2


def run(ctx):
    return common.conductor_run(
        ctx, "C02", FAM, common.project_full, monitors.c02, features, nontrivial, 300, 6000,
        rule="generated definitions with fail commands and remediation under random histories dense in pause/resume/cancel "
             "requests; non-trivial = at least two of succeeded/failed/pausing/paused/canceling were reported")


def replay(payload):
    return common.replay_conductor(payload, monitors.c02)
