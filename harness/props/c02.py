"""C02 -- Reported workflow status is truthful about the tasks."""
from harness import monitors, progs
from harness.props import common

THEOREMS = [
    {"name": "C02_succeeded_only_when_all_done", "strength": "F",
     "text": "the workflow machine reports succeeded only if nothing is active, paused, canceled, staged or next, and the "
             "reporting task succeeded or was remediated"},
    {"name": "C02_unremediated_failure_fails / C02_failure_while_canceling", "strength": "F",
     "text": "a failure with no matching transition fails the workflow from running/pausing/paused/resuming; while canceling "
             "the status stays in the cancel class"},
    {"name": "C02_transitional_only_while_active / C02_active_events_keep_going", "strength": "F",
     "text": "pausing/canceling are left as soon as a settled task event is processed with nothing active; active events "
             "never put the workflow to rest"},
    {"name": "C02_status_classes / C02_in_progress_report_is_active", "strength": "F",
     "text": "every status the task table can produce is completed, active, or one of paused/pending/retrying; a report "
             "that the action is in progress always leaves the task counted as active (sweeps of the generated table)"},
    {"name": "C02b_inflight_has_active_record / C02b_active_record_in_flight / C02b_link_auxiliary (props/C02b.v)", "strength": "F",
     "text": "THE LINK, for the formal provider protocol (coq/model/ProviderSys.v: Boot, atomic Poll+acknowledge, Report of a "
             "completed status for an in-flight action, status Requests, Render, Persist), for every evaluator, every "
             "workflow without with-items tasks over a well-formed composed graph (decidable check), every fault-free "
             "protocol history: an action is in flight iff its record is active (running); no engine command is ever in "
             "flight; C02b_protocol_is_api_history: every protocol run is a run_ops history of API calls"},
    {"name": "C02b_paused_canceled_idle / C02b_pausing_canceling_busy", "strength": "F",
     "text": "in every reachable fault-free system state: paused or canceled => nothing in flight; pausing or canceling => "
             "something in flight"},
    {"name": "C02b_succeeded_partial", "strength": "P",
     "text": "succeeded => nothing in flight, nothing staged, nothing active, every record completed or retrying "
             "(excluding `retrying` needs a cross-route join invariant that is not proved)"},
    {"name": "C02c_unremediated_failure_fails_call / C02c_call_keeps_cancel_class / C02c_fail_command_call_fails / "
             "C02c_fail_flags_siblings (props/C02c.v)", "strength": "P",
     "text": "ALWAYS ENDS FAILED, at the level of whole API calls: a failed report for a plain task with no retry left whose "
             "transitions are all unsatisfied leaves the workflow failed (from running, pausing, paused, resuming); from "
             "canceling/canceled every call stays in canceling/canceled/failed; the nested call that delivers the fail command "
             "leaves the workflow failed, and the siblings staged beside a queued fail carry run_on_fail. The composition "
             "'a provider call whose transitions queue fail ends failed' is not proved as one statement; runtime errors: C11b"},
    {"name": "C02f_queued_fail_fails_call / C02f_queue_records_true (props/C02f.v)", "strength": "F",
     "text": "FAIL COMMAND, whole call: a completion report for a plain task whose satisfied transitions queue `fail` (first in "
             "the queue: no edge to continue) ends with the workflow failed -- or canceling/canceled -- when it returns"},
    {"name": "C02e_in_flight_has_active_record / C02e_plain_in_flight_record_active / C02e_paused_canceled_no_active_task / "
             "C02e_paused_canceled_idle (props/C02e.v)", "strength": "F",
     "text": "WITH items and plain tasks together, no hypothesis on spec or graph (computed flags: no fault, no table wiped, "
             "monitors silent): every in-flight key has an active record; paused/canceled => no task active => nothing in "
             "flight (rests on unconditional sweeps: a task event or a request moves the workflow to paused/canceled only when "
             "no task is active)"},
    {"name": "C02d_item_in_flight_slot_running / C02d_item_in_flight_record_active / C02d_active_slot_in_flight / "
             "C02d_no_pending_record (props/C02d.v)", "strength": "P",
     "text": "WITH items (no hypothesis on spec or graph; flags as in C12c): an item in flight has a running slot and an active "
             "record; every active slot is in flight; no record is ever pending under this protocol. 'Every active record is in "
             "flight' is false with items between polls (Example active_record_nothing_in_flight: the window emptied, the next "
             "poll offers more) -- the right statement has 'or a never-offered item'. paused/canceled => idle and "
             "pausing/canceling => busy are NOT proved with items (finding D24 is the obstruction found)"},
    {"name": "(tested) monitor c02, incl. with-items, intermediate action statuses (paused -> resuming -> running), runtime "
             "errors and fail commands", "strength": "T", "text": "monitor c02 on generated histories"},
]
TRUSTED_BASE = common.TRUSTED_BASE_COMMON + [
    "facts in facts/F_names.v sweep all 16 statuses x 32 flag combinations of the contextualised task-event name against "
    "every row of the generated workflow table"]
ASSUMPTIONS = ["reference provider protocol (atomic poll); in-flight = acknowledged actions that have not reported a "
               "completed status; known finding D1"]
FAM = progs.family(p_bad=0.06, p_retry=0.2, p_cleanup_fail=0.1, w_ctrl=1.5, p_cmd=0.25, p_fail=0.2, p_intermediate=0.22, lifecycle=True, w_malformed=0.03, n_tasks=(2, 7),
                   steps=(15, 70), w_rerun=0.0)


def features(sess):
    sts = set(o["state"]["state"]["status"] for _, o in sess.trace)
    return {"succeeded": "succeeded" in sts, "pausing": "pausing" in sts, "canceling": "canceling" in sts,
            "failed": "failed" in sts, "paused": "paused" in sts}


def nontrivial(r):
    f = r.get("features") or {}
    return sum(1 for v in f.values() if v) >= 2


def run(ctx):
    out = common.conductor_run(
        ctx, "C02", FAM, common.project_full, monitors.c02, features, nontrivial, 500, 6000,
        rule="generated definitions with fail commands and remediation under random histories dense in pause/resume/cancel "
             "requests; non-trivial = at least two of succeeded/failed/pausing/paused/canceling were reported")
    # tie of the formal provider protocol (ProviderSys.v, what C02b / C03b quantify over) to the engine
    if ctx["model_ok"]:
        from harness import syscheck
        n, in_scope, fails = syscheck.run(ctx["seed"] % 100000, 8 if ctx["tier"] == "quick" else 60)
        out["provider_protocol_runs_checked"] = {"runs": n, "within_theorem_hypotheses": in_scope,
                                                 "what": "protocol histories run on the engine through the reference "
                                                         "provider and through ProviderSys.sys_run inside Coq: same "
                                                         "final state, in-flight set, number of API calls, no fault"}
        for f in fails:
            out["violations"].append(dict(f, property="C02"))
    return out


def replay(payload):
    return common.replay_conductor(payload, monitors.c02)
