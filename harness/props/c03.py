"""C03 -- No stuck workflow: quiescence implies a resting status."""
from harness import monitors, progs
from harness.props import common

THEOREMS = [
    {"name": "C03_last_report_rests", "strength": "F",
     "text": "a settled task event processed with no task execution active takes a pausing/canceling workflow to rest"},
    {"name": "C03_dormant_event_accepted / C03_dormant_event_rests", "strength": "F",
     "text": "swept over every status and contextualised name of the generated table"},
    {"name": "C03_resume_completed_rows", "strength": "F", "text": "resume of a finished paused workflow completes it"},
    {"name": "C03_offers_are_the_ready_staged", "strength": "F", "text": "what is on offer is exactly what is staged ready"},
    {"name": "C03b_quiescent_rests / C03b_transitional_has_work (props/C03b.v)", "strength": "F",
     "text": "for the formal provider protocol (ProviderSys.v), every evaluator, every workflow without with-items tasks over a "
             "well-formed composed graph with a start task, every fault-free protocol history: nothing in flight and an empty "
             "poll => the status is succeeded, failed, canceled or paused (or unset before boot); equivalently running / "
             "resuming / pausing / canceling => something in flight or on offer (or the poll fails the workflow)"},
    {"name": "C03b_paused_only_after_pause_request", "strength": "F",
     "text": "pausing/paused only after a pause request (no with-items, no intermediate action statuses in this protocol)"},
    {"name": "C03b_refuted_without_start_task / C03b_refuted_after_a_fault", "strength": "R",
     "text": "the hypotheses cannot be dropped: a graph without a root rests in running (replayed on the engine; inspection "
             "rejects such a definition); after a non-expression exception escaped a call the state may be stuck"},
    {"name": "C03e_pausing_canceling_has_active_task / C03e_held_and_idle_is_a_stuck_task / C03e_records_use_item_statuses "
             "(props/C03e.v)", "strength": "F",
     "text": "WITH items: pausing/canceling => some task record is active; pausing/canceling with nothing in flight => an "
             "active record with nothing of it out -- exactly the state of finding D24 (Example d24_is_the_stuck_task); no "
             "record ever holds requested/scheduled/delayed/resuming/pending/timeout/abandoned under this protocol. NOT "
             "proved: 'quiescent and not resting => the D24 situation arose'"},
    {"name": "C03f_pausing_canceling_has_action_in_flight / C03f_pausing_canceling_idle_is_flagged / "
             "C03f_active_record_backed / C03f_pausing_canceling_no_untold_task (props/C03f.v)", "strength": "F",
     "text": "WITH items, finding D24 as a computed flag (run_d24: a step that is not a status request takes the workflow "
             "into pausing/canceling while a running with-items task has a never-offered item): pausing/canceling with the "
             "flag down => something in flight; pausing/canceling with nothing in flight => the flag is up (D24 is the ONLY "
             "way to be stuck there); every active record has an action in flight or is running with a never-offered item. "
             "NOT proved: quiescent and running/resuming => flag (needs an offer-liveness lemma for get_next_tasks)"},
    {"name": "C03d_quiescent_no_active_slot / C03d_quiescence_refuted_by_D24 (props/C03d.v)", "strength": "R",
     "text": "WITH items: at a quiescent state no staged table has an active slot; quiescence => resting is REFUTED by finding "
             "D24 as a theorem (no fault, no wipe, monitor silent, yet canceling forever with nothing in flight)"},
    {"name": "(tested) monitor c03: with-items, retry, loops, reruns, intermediate statuses", "strength": "T",
     "text": "side-effect-free poll of a restored copy at every quiescent point of every history"},
]
TRUSTED_BASE = common.TRUSTED_BASE_COMMON
ASSUMPTIONS = ["reference provider protocol; known findings D1 (late join arrival) and D9 (empty rerun)"]
FAM = progs.family(p_pause_drain=0.3, loop_items=True, p_loop=0.3, probe=True, rerun_only_when_idle=True, intermediate_statuses=["pending", "running"], w_ctrl=1.0, p_items=0.25, p_retry=0.2, p_join=0.6, p_fail=0.15,
                   p_intermediate=0.05, w_malformed=0.03, w_rerun=0.5, n_tasks=(2, 7), steps=(15, 70))


def features(sess):
    pr = getattr(sess, "probes", [])
    return {"quiescent_points": len(pr) > 0, "quiescent_nonterminal": any(p[2] for p in pr),
            "quiescent_resting": any(p[2] is False for p in pr)}


def nontrivial(r):
    f = r.get("features") or {}
    return bool(f.get("quiescent_points"))


def run(ctx):
    out = common.conductor_run(
        ctx, "C03", FAM, common.project_full, monitors.c03, features, nontrivial, 300, 6000,
        rule="generated definitions (with-items, retries, joins, loops) under random histories with control requests and "
             "reruns; after every provider operation with nothing in flight a restored copy of the engine is polled; "
             "non-trivial = the history had at least one quiescent point")
    # tie of the formal provider protocol (ProviderSys.v, what C02b / C03b quantify over) to the engine
    if ctx["model_ok"]:
        from harness import syscheck
        n, in_scope, fails = syscheck.run(ctx["seed"] % 100000, 8 if ctx["tier"] == "quick" else 60)
        out["provider_protocol_runs_checked"] = {"runs": n, "within_theorem_hypotheses": in_scope,
                                                 "what": "protocol histories run on the engine through the reference "
                                                         "provider and through ProviderSys.sys_run inside Coq: same "
                                                         "final state, in-flight set, number of API calls, no fault"}
        for f in fails:
            out["violations"].append(dict(f, property="C03"))
    return out


def replay(payload):
    return common.replay_conductor(payload, lambda s: [])
