"""C04 -- Terminal statuses are final and nothing is scheduled after them."""
from harness import monitors, progs
from harness.props import common

THEOREMS = [
    {"name": "C04_failed_final", "strength": "F",
     "text": "for every evaluator, state and history of API calls without rerun: failed stays failed"},
    {"name": "C04_canceled_final", "strength": "F", "text": "same for canceled"},
    {"name": "C04_succeeded_only_to_failed", "strength": "F", "text": "succeeded can only become failed"},
    {"name": "C04_no_offers_when_done", "strength": "F",
     "text": "get_next_tasks returns [] and leaves the state unchanged in succeeded/canceled"},
    {"name": "C04_failed_offers_only_cleanup", "strength": "F",
     "text": "in failed nothing is offered unless a staged entry carries run_on_fail"},
    {"name": "C04b_rejected_status_request_is_inert(_lifecycle)", "strength": "F",
     "text": "for every evaluator, requested status and initialised state whose workflow status has a row in the "
             "generated table: a status request that raises leaves the whole conductor state unchanged"},
    {"name": "C04b_lifecycle_invariant / C04b_fresh_status_in_lifecycle", "strength": "F",
     "text": "that proviso is an invariant of every history of API calls from a fresh conductor"},
    {"name": "C04b_rejected_request_not_inert_outside_lifecycle", "strength": "R",
     "text": "witness that the proviso cannot be dropped (a status no history reaches)"},
    {"name": "C04b_request_frame / C04b_status_request_exceptions", "strength": "F",
     "text": "a status request touches only statuses/log/errors; the only exceptions it raises"},
    {"name": "C04c_late_report_absorbed / C04c_task_event_when_done / C04c_request_to_fail_when_done / C04c_nothing_offered "
             "(props/C04c.v)", "strength": "P",
     "text": "LATE REPORTS: in a failed, canceled or succeeded workflow, a completion report for a still-active plain task "
             "(no items, no engine-command targets) from a well-formed state returns normally, records the reported status, "
             "leaves the workflow status unchanged (succeeded may become failed only when an expression of the task's "
             "transitions fails; in canceled that same failure makes the handler's own fail request be refused -- the one "
             "documented refusal that can escape, shown on a hand-made state), and nothing is offered as a consequence (the "
             "targets are staged, never offered)"},
    {"name": "C04d_late_report_absorbed / C04d_command_on_done_workflow / C04d_late_item_report_absorbed / "
             "C04d_last_item_completes / C04d_item_with_others_out (props/C04d.v)", "strength": "P",
     "text": "the same without the two restrictions: tasks with engine-command targets (the nested command call on a done "
             "workflow appends one record -- succeeded for noop/continue, failed for fail -- and never moves the workflow "
             "status, not even fail on a succeeded workflow) and item reports of with-items tasks (absorbed, the item table "
             "updated, the task completes when the last item reports), under decidable side conditions (command targets are "
             "nodes, their routes distinct and unvisited; the machine's answer for the item is not an unused status)"},
    {"name": "(tested) monitor c04 on every generated history", "strength": "T", "text": "the same clauses on the engine"},
]
TRUSTED_BASE = common.TRUSTED_BASE_COMMON + [
    "facts F_wf_failed_final, F_wf_canceled_final, F_wf_succeeded_only_failed, F_wf_cancel_closed are "
    "vm_compute sweeps over the whole generated workflow table"]
ASSUMPTIONS = [
    "theorems are about the Gallina model coq/model/Conductor.v; the tie to /repo is the lock-step "
    "comparison of serialize() after every API call on generated histories (sampled)",
    "histories quantify over every api_op except OpRerun; Request succeeded is part of the alphabet",
]

# reruns only when nothing is in flight: a rerun naming an execution whose action is still running is finding
# C15-rerun-of-inflight-task (its late report raises KeyError), outside what C04 quantifies over
FAM = progs.family(p_items=0.4, p_intermediate=0.2, intermediate_statuses=["paused", "paused", "running", "pausing"],
                   rerun_only_when_idle=True, steps=(15, 70), w_ctrl=1.6, w_malformed=0.3, p_fail=0.3, w_rerun=0.2)


def features(sess):
    sts = [o["state"]["state"]["status"] for _, o in sess.trace]
    term = [i for i, s in enumerate(sts) if s in ("failed", "canceled", "succeeded")]
    return {"reached_terminal": bool(term),
            "ops_after_terminal": bool(term) and term[0] < len(sts) - 3,
            "rejected_request": any(op[0] == "request_status" and o["raised"] for op, o in sess.trace),
            "late_report": any(sess.tags[i] == "report" and i > 0 and sts[i - 1] in ("failed", "canceled", "succeeded")
                               for i in range(len(sts)))}


def nontrivial(r):
    f = r.get("features") or {}
    return bool(f.get("ops_after_terminal") or f.get("rejected_request"))


def run(ctx):
    return common.conductor_run(
        ctx, "C04", FAM, common.project_full, monitors.c04, features, nontrivial, 700, 6000,
        rule="generated definitions (2-7 tasks, joins, with-items, retries, commands) with random histories "
             "dense in control requests; a case is non-trivial when >= 3 API calls follow the first terminal "
             "status or a status request was rejected; distinct = distinct (definition, operation list)")


def replay(payload):
    return common.replay_conductor(payload, monitors.c04)
