"""C05 -- Persisting the conductor and restoring it changes nothing.

Proof side (coq/props/C05.v): the codec round trip `dec_cstate (enc_cstate c) = Some c` holds for
every initialised conductor state, hence the persist round trip of the model is the identity and
weaving it into any history at any subset of the points between API calls changes neither the
states reached nor the outcome of any call.

What the model cannot exhibit is Python aliasing (a restored conductor has fresh containers, a
live one may share them), so the tie to /repo is a differential test of the real engine against
itself and against the model.  Every generated case is run
  * on the engine and the model in lock step with a persist round trip at a random subset of the
    points between API calls (the model's OpPersist is decode . encode),
  * on the engine without any persist round trip,
  * on the engine with a persist round trip after every API call,
and all four observations (raised class, offers, the whole dynamic serialize()) must be equal
after every call.  At every round trip serialize() of the restored conductor must equal, after key
sorting, the form it was restored from (spec and graph included), deserialize() must not modify
the data it is given, continuing the restored conductor must not modify that data either
(no container shared with the persisted form), and a snapshot returned by serialize() must not
change when the conductor it came from continues."""
import collections.abc  # noqa: F401
import json
import random

from harness import engine, progs, provider
from harness.props import common

from orquesta import conducting, graphing  # noqa: E402

THEOREMS = [
    {"name": "C05_codec_roundtrip", "strength": "F",
     "text": "forall c, c_init c = true -> dec_cstate (c_spec c) (c_graph c) (enc_cstate c) = Some c  "
             "(no condition on task names, error entries, output, flags or reruns is needed)"},
    {"name": "C05_codec_roundtrip_total", "strength": "F",
     "text": "forall c, dec_cstate (c_spec c) (c_graph c) (enc_cstate c) = Some (set_init c true)"},
    {"name": "C05_trid_roundtrip / C05_tkey_roundtrip", "strength": "F",
     "text": "forall t n, dec_trid (trid_str (t, n)) = Some (t, n); same for task pointers: the identifiers "
             "'<task>__t<n>' / '<task>__r<n>' parse back for EVERY task name (split at the last separator)"},
    {"name": "C05_persist_reproduces_form", "strength": "F",
     "text": "dec_cstate .. (enc_cstate c) = Some c2 -> enc_cstate c2 = enc_cstate c"},
    {"name": "C05_persist_identity", "strength": "F",
     "text": "forall ev c, c_init c = true -> persist ev c = (c, Val tt)"},
    {"name": "C05_persist_is_serialize", "strength": "F",
     "text": "forall ev c, api_exec ev OpPersist c = api_exec ev OpSerialize c (initialised or not)"},
    {"name": "C05_api_keeps_init / C05_api_inits", "strength": "F",
     "text": "every API call (rerun included) leaves the conductor initialised"},
    {"name": "C05_persist_unobservable", "strength": "F",
     "text": "forall ev mask ops c, c_init c = true -> run_ops ev (weave mask ops) c = run_ops ev ops c /\\ "
             "run_obs ev (weave mask ops) c = run_obs ev ops c  (every subset of the points between calls; "
             "_rel: any number of round trips per point; _fresh: any c, round trips after the first call)"},
    {"name": "(tested, not provable on a model) the real engine shares no container between a live "
             "conductor, its persisted form and a restored conductor",
     "strength": "T",
     "text": "three-way differential run of the engine (never / always / randomly persisted) against itself "
             "and the model; serialize(deserialize(s)) == s including spec and graph; snapshot isolation"},
]
TRUSTED_BASE = common.TRUSTED_BASE_COMMON + [
    "Coq.Strings.DecimalString / Coq.Numbers.DecimalZ / DecimalPos lemmas (stdlib) for the decimal numerals "
    "in transition and pointer identifiers",
    "the three-way engine comparison is a test (sampled histories), not a proof: absence of aliasing in "
    "/repo is established only on the generated cases",
]
ASSUMPTIONS = [
    "theorems are about the Gallina model (coq/model/Codec.v, Decode.v, Api.v); spec and graph are immutable "
    "inputs of the model and are not part of its persisted form -- their round trip is checked on the engine "
    "only (serialize() of a restored conductor compared with the form it was restored from, and "
    "WorkflowGraph.deserialize(g.serialize()).serialize() == g.serialize())",
    "C05_persist_unobservable requires the workflow state to exist at the first point (c_init); "
    "C05_persist_unobservable_fresh removes this for every point after the first API call",
    "values are JSON (ujson round trip = identity): floats/ints outside the JSON-exact range, non-string "
    "dictionary keys and non-JSON action results are outside the generated class",
]

# weighted towards what re-uses containers: with-items tasks (staged entry outlives the record),
# several transitions into the same task, joins (also with a count below the number of inbound
# tasks), retries (staged entry rebuilt from the record), loops, reruns
FAM = progs.family(
    p_persist_first=0.25, p_bad=0.04, n_tasks=(2, 7), fanout=(1, 3), p_second_transition=0.5, p_items=0.4, p_join=0.7, p_join_count=0.5,
    p_late_join=0.45, p_retry=0.3, p_loop=0.3, p_cmd=0.1, p_delay=0.05,
    steps=(12, 70), w_persist=0.0, w_ctrl=0.7, w_rerun=0.8, w_malformed=0.15, p_fail=0.25, p_item_fail=0.2)

P_PERSIST = (0.12, 0.3, 0.55, 0.85)


def _blob(v):
    return engine.dumps_sorted(engine.to_json(v))


def graph_roundtrip(cond):
    """WorkflowGraph.deserialize(g.serialize()).serialize() == g.serialize() (edge keys included)."""
    try:
        g1 = cond.graph.serialize()
        gr = graphing.WorkflowGraph.deserialize(g1)
        g2 = gr.serialize()
    except Exception as e:
        return ("graph", "deserialize(serialize()) raised", "%s: %s" % (type(e).__name__, str(e)[:200]))
    if _blob(g1) != _blob(g2):
        return engine.first_difference(engine.to_json(g1), engine.to_json(g2))
    # multi-edges: the number of parallel edges, their keys and attributes survive
    e1 = sorted(([s, d, k], engine.dumps_sorted(engine.to_json(a)))
                for s, d, k, a in cond.graph._graph.edges(keys=True, data=True))
    e2 = sorted(([s, d, k], engine.dumps_sorted(engine.to_json(a)))
                for s, d, k, a in gr._graph.edges(keys=True, data=True))
    if e1 != e2:
        return ("graph.edges", e1, e2)
    return None


class Persister(object):
    """The checked persist round trip on an engine.Impl, and the isolation checks around it."""

    def __init__(self, impl):
        self.impl = impl
        self.held = []          # (what, object returned by/handed to the engine, its blob at that time)
        self.problems = []

    def round_trip(self):
        c = self.impl.c
        try:
            s1 = c.serialize()
            b1 = _blob(s1)
            c2 = conducting.WorkflowConductor.deserialize(s1)
            s2 = c2.serialize()
            b2 = _blob(s2)
        except Exception as e:      # the round trip itself must never fail; the live conductor is kept
            self.problems.append({"what": "deserialize(serialize()) raised %s: %s" % (type(e).__name__, str(e)[:200])})
            return
        if _blob(s1) != b1:
            self.problems.append({"what": "deserialize() (or serialize() of the restored conductor) modified the "
                                          "data it was given",
                                  "diff": engine.first_difference(json.loads(b1), engine.to_json(s1))})
        if b1 != b2:
            self.problems.append({"what": "serialize() of the restored conductor differs from the persisted form",
                                  "diff": engine.first_difference(json.loads(b1), json.loads(b2))})
        self.impl.c = c2
        # the persisted form must stay what it was while the restored conductor continues
        self.held = [("the persisted form a conductor was restored from changed when the restored conductor "
                      "continued (shared container)", s1, b1),
                     ("a snapshot returned by serialize() changed when the conductor continued "
                      "(shared container)", s2, b2)]

    def snapshot(self):
        s = self.impl.c.serialize()
        self.held = [h for h in self.held if not h[0].startswith("a snapshot")] + [
            ("a snapshot returned by serialize() changed when the conductor continued (shared container)",
             s, _blob(s))]

    def check_held(self):
        for n, (what, obj, blob) in enumerate(self.held):
            now = _blob(obj)
            if now != blob:
                self.problems.append({"what": what,
                                      "diff": engine.first_difference(json.loads(blob), json.loads(now))})
                self.held[n] = (what, obj, now)     # reported once
        out, self.problems = self.problems, []
        return out


class Weaver(object):
    """Attached to a Session instance (sess.call is rebound to Weaver.call): weaves checked persist round
    trips, on the engine and on the model, after random API calls and at explicit ["persist"] operations."""

    def __init__(self, sess, seed=None, p=0.0):
        self.sess = sess
        self.prng = random.Random(seed) if seed is not None else None
        self.p_persist = p
        self.persister = Persister(sess.impl)
        self.problems = []          # violations found while running (step = index in sess.trace)
        self.plain_call = type(sess).call
        sess.c05 = self
        sess.call = self.call

    def _collect(self, step):
        for pr in self.persister.check_held():
            pr["step"] = step
            self.problems.append(pr)

    def call(self, op, tag="raw"):
        sess = self.sess
        if op[0] == "persist":
            return self.persist_point()
        a = self.plain_call(sess, op, tag)
        self._collect(len(sess.trace) - 1)
        if self.prng is not None:
            if self.prng.random() < self.p_persist:
                self.persist_point()
            elif self.prng.random() < 0.3:
                self.persister.snapshot()
        return a

    def persist_point(self):
        sess = self.sess
        before = sess.trace[-1][1] if sess.trace else None
        self.persister.round_trip()
        a = {"raised": None, "result": None, "state": engine.canon_state(sess.impl.dynamic_state())}
        sess.tags.append("persist")
        sess.inflight_log.append(sorted(sess.inflight, key=repr))
        sess.trace.append((["persist"], a))
        step = len(sess.trace) - 1
        self._collect(step)
        if before is not None and engine.dumps_sorted(before["state"]) != engine.dumps_sorted(a["state"]):
            self.problems.append({"what": "the persist round trip changed the persisted state", "step": step,
                                  "diff": engine.first_difference(before["state"], a["state"])})
        if sess.model is not None:
            b = sess.model.apply(["persist"])
            d = sess.compare(a, b)
            if d is not None:
                raise provider.Divergence({"step": step, "op": ["persist"], "diff": d})
        return a


def _targets(tr):
    do = tr.get("do") or []
    if isinstance(do, str):
        do = [x.strip() for x in do.split(",")]
    return do


def gen(rng, fam):
    """progs.gen_definition, then (half of the cases) one task with fan-in is turned into a with-items
    task that starts before all its inbound tasks have arrived (join count below the fan-in): its staged
    entry outlives the creation of its record and is extended by the later arrivals -- the situation in
    which a record sharing the staged entry's containers differs from a restored one."""
    wf, inputs = progs.gen_definition(rng, fam)
    if rng.random() < 0.5:
        tasks = wf["tasks"]
        L = progs.Lang("{{" in json.dumps(wf))
        inbound = {}
        for src, spec in tasks.items():
            for tr in spec.get("next") or []:
                for d in _targets(tr):
                    if d in tasks and d != src:
                        inbound.setdefault(d, set()).add(src)
        cands = sorted(t for t, srcs in inbound.items() if len(srcs) >= 2)
        if cands:
            t = rng.choice(cands)
            tasks[t]["join"] = rng.randint(1, len(inbound[t]) - 1)
            if "with" not in tasks[t] and rng.random() < 0.8:
                tasks[t]["action"] = "core.echo"
                tasks[t]["input"] = {"m": L.e("item()")}
                tasks[t]["with"] = rng.choice([L.ctx("lst"), {"items": L.ctx("lst"), "concurrency": 1},
                                               {"items": L.e("list(1, 2)", "[1, 2]")}])
    return wf, inputs


def history(sess, rng, fam, oracle):
    Weaver(sess, rng.getrandbits(32), rng.choice(P_PERSIST))
    return progs.run_history(sess, rng, fam, oracle)


def replay_variant(definition, inputs, trace, mode, upto=None):
    """Re-run the non-persist operations of a recorded trace on a fresh engine: mode 'never' (no round
    trip) or 'always' (checked round trip after every call); compare with the recorded observations."""
    impl = engine.Impl(definition, inputs)
    per = Persister(impl)
    out = []
    gd = graph_roundtrip(impl.c)
    if gd:
        out.append({"what": "the workflow graph does not survive WorkflowGraph.deserialize(g.serialize())",
                    "step": 0, "diff": gd})
    for i, (op, want) in enumerate(trace):
        if upto is not None and i > upto:
            break
        if op[0] == "persist":
            continue
        got = impl.apply(op)
        if mode == "always":
            for pr in per.check_held():
                pr.update({"step": i, "variant": mode})
                out.append(pr)
            per.round_trip()
            for pr in per.check_held():
                pr.update({"step": i, "variant": mode})
                out.append(pr)
            after = engine.canon_state(impl.dynamic_state())
            if engine.dumps_sorted(after) != engine.dumps_sorted(got["state"]):
                out.append({"what": "the persist round trip changed the persisted state", "step": i,
                            "variant": mode, "diff": engine.first_difference(got["state"], after)})
        if engine.dumps_sorted(got) != engine.dumps_sorted(want):
            out.append({"what": "the conductor persisted at the recorded points and the conductor persisted %s "
                                "disagree after %s" % ("after every call" if mode == "always" else "never", op[0]),
                        "step": i, "variant": mode, "op": op,
                        "diff": engine.first_difference(want, got)})
            break       # everything after the first disagreement is a consequence
    return out


def monitor(sess):
    """The engine agrees with itself however it is persisted; every round trip reproduces its input."""
    out = list(sess.c05.problems) if hasattr(sess, "c05") else []
    for mode in ("never", "always"):
        out += replay_variant(sess.definition, sess.inputs, sess.trace, mode)
    out.sort(key=lambda v: v.get("step", 0))
    for v in out:
        v["persist_points"] = [i for i, (op, _) in enumerate(sess.trace) if op[0] == "persist" and i <= v["step"]]
        v["diff"] = json.loads(json.dumps(v.get("diff"), default=str))
    return out[:3]


def features(sess):
    ops = [op for op, _ in sess.trace]
    sts = [o["state"] for _, o in sess.trace]
    pts = [i for i, op in enumerate(ops) if op[0] == "persist"]
    blobs = [engine.dumps_sorted(s) for s in sts]
    changes = [j for j in range(1, len(blobs)) if blobs[j] != blobs[j - 1]]
    continued = bool(pts and changes and pts[0] < changes[-1])
    shared = False
    for i in pts:
        st = sts[i]["state"]
        recs = set((r["id"], r["route"]) for r in st.get("sequence", []))
        if any((s["id"], s["route"]) in recs for s in st.get("staged", [])):
            shared = True
    last = sts[-1]["state"] if sts else {}
    ids = [r["id"] for r in last.get("sequence", [])]
    tasks = sess.definition.get("tasks", {})
    return {"persist_points": len(pts), "continued_after_restore": continued,
            "restore_with_staged_entry_of_started_task": shared,
            "with_items": any("with" in t for t in tasks.values()),
            "join": any("join" in t for t in tasks.values()),
            "retry_spec": any("retry" in t for t in tasks.values()),
            "task_executed_twice": len(ids) != len(set(ids)),
            "accepted_rerun": any(op[0] == "rerun" and o["raised"] is None for op, o in sess.trace),
            "errors_logged": bool(sts and sts[-1].get("errors")),
            "output_rendered": bool(sts and sts[-1].get("output"))}


def nontrivial(r):
    f = r.get("features") or {}
    return bool(f.get("persist_points") and f.get("continued_after_restore"))


def run(ctx):
    return common.conductor_run(
        ctx, "C05", FAM, common.project_full, monitor, features, nontrivial, 600, 8000,
        gen=gen, history=history,
        rule="generated definitions (2-7 tasks; weighted to with-items tasks, several transitions into one "
             "task, joins incl. counts below the number of inbound tasks, retries, loops; in half of the cases "
             "a fan-in task is made a with-items task that starts before all inbound tasks arrive) with random "
             "histories incl. reruns; each case runs on the engine+model with a checked persist round "
             "trip after a random subset of the calls (probability 0.12-0.85 per call), then the same calls "
             "on the engine never persisted and persisted after every call; all observations must be equal "
             "after every call; a case is non-trivial when a round trip is followed by calls that change the "
             "state; distinct = distinct (definition, operation list incl. persist points)")


def replay(payload):
    if "definition" not in payload or "ops" not in payload:
        print("replay file names a broken obligation, not a concrete input:")
        print(json.dumps(payload, indent=1)[:3000])
        return 1
    sess = common.PSession(payload["definition"], payload.get("inputs") or {}, common.project_full,
                           with_model=False)
    Weaver(sess)
    try:
        for op in payload["ops"]:
            sess.call(op)
        vs = monitor(sess)
    finally:
        sess.close()
    for v in vs:
        print("violation reproduced:", json.dumps(v, default=str)[:1200])
    if not vs:
        print("no violation on replay")
    return 1 if vs else 0
