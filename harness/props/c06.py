"""C06 -- A task sees exactly the variables published by its causal ancestors."""
from harness import monitors, progs
from harness.props import common

THEOREMS = [
    {"name": "C06_offer_context_is_the_fold", "strength": "F",
     "text": "the offered context is the in-order merge of the snapshots the staged entry points to (+ engine internals)"},
    {"name": "C06_publish_reaches_only_its_target", "strength": "F",
     "text": "processing a transition leaves the staged entry of every task other than its target exactly as it was"},
    {"name": "C06_snapshots_never_change", "strength": "F", "text": "a published snapshot is never modified by a later call"},
    {"name": "C06_delta_is_the_publish", "strength": "F", "text": "a published delta contains exactly the published names"},
    {"name": "(tested, not proved) every token visible to a task was published by a causal ancestor (taint oracle); "
             "supersession order at joins is refuted by known finding D11", "strength": "T", "text": "monitor c06"},
]
TRUSTED_BASE = common.TRUSTED_BASE_COMMON
ASSUMPTIONS = ["the global no-leak invariant over prev-chains is not proved; known finding D11 (stale inherited value wins at a join)"]
FAM = progs.family(p_publish=0.7, p_join=0.6, p_loop=0.2, n_tasks=(3, 8), p_fail=0.1, w_ctrl=0.2, w_rerun=0.2,
                   p_dictval=0.4, p_inline=0.3, steps=(15, 70))


def features(sess):
    last = sess.trace[-1][1]["state"]["state"]
    return {"contexts>=3": len(last["contexts"]) >= 3,
            "merged_contexts": any(len(r["ctxs"]["in"]) >= 3 for r in last["sequence"])}


def nontrivial(r):
    return bool((r.get("features") or {}).get("contexts>=3"))


def run(ctx):
    return common.conductor_run(
        ctx, "C06", FAM, common.project_full, monitors.c06, features, nontrivial, 300, 6000,
        rule="generated definitions with publishes on 70% of the transitions (unique taint tokens, conflicting variable "
             "names, dict values), joins and loops under random histories; non-trivial = at least 3 context snapshots")


def replay(payload):
    return common.replay_conductor(payload, monitors.c06)
