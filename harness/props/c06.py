"""C06 -- A task sees exactly the variables published by its causal ancestors."""
from harness import monitors, progs
from harness.props import common

THEOREMS = [
    {"name": "C06_offer_context_is_the_fold", "strength": "F",
     "text": "the offered context is the in-order merge of the snapshots the staged entry points to (+ engine internals)"},
    {"name": "C06_publish_reaches_only_its_target", "strength": "F",
     "text": "processing a transition leaves the staged entry of every task other than its target exactly as it was"},
    {"name": "C06_snapshots_never_change", "strength": "F", "text": "a published snapshot is never modified by a later call"},
    {"name": "C06_delta_is_the_publish", "strength": "F", "text": "a published delta contains exactly the published names"},
    {"name": "C06b_reachable_provenance / C06b_history_provenance / C06b_api_provenance", "strength": "F",
     "text": "invariant of every history of API calls from a fresh conductor (every evaluator, every operation incl. late, "
             "duplicate, malformed events, reruns, persist and calls that raise; no hypothesis): every context index in the "
             "list of a staged entry or record of task x is 0, or was created by an edge into x of an earlier record, or is "
             "inherited from an earlier record of x or of a task with an edge into x (ghost list: who created which snapshot)"},
    {"name": "C06b_delta_invisible_off_path / C06b_delta_reaches_only_downstream / C06b_every_delta_has_a_creator", "strength": "F",
     "text": "a snapshot published on an edge e occurs only in the lists of tasks reachable from e's target: a variable "
             "published only on a transition that does not lead to the task is never visible to it through that publish"},
    {"name": "C06b_in_list_recurrence / C06b_terminal_context_reads", "strength": "F",
     "text": "the exact recurrence of the lists (new entry: the completed record's list + the new snapshot; later arrival: "
             "appended, minus its first 0, no deduplication) and of the output fold (r_in of terminal records in sequence order)"},
    {"name": "supersession order at joins: Example pv_join_D11", "strength": "R",
     "text": "known finding D11 is a consequence of the recurrence: the later arrival's inherited older value overrides"},
    {"name": "(tested) taint monitor c06", "strength": "T", "text": "unique token per publish; publisher must be a causal ancestor"},
]
TRUSTED_BASE = common.TRUSTED_BASE_COMMON
ASSUMPTIONS = ["known finding D11 (stale inherited value wins at a join)"]
FAM = progs.family(p_publish=0.7, p_join=0.6, p_loop=0.2, n_tasks=(3, 8), p_fail=0.1, w_ctrl=0.2, w_rerun=0.2,
                   p_dictval=0.4, p_inline=0.3, steps=(15, 70))


def features(sess):
    last = sess.trace[-1][1]["state"]["state"]
    return {"contexts>=3": len(last["contexts"]) >= 3,
            "merged_contexts": any(len(r["ctxs"]["in"]) >= 3 for r in last["sequence"])}


def nontrivial(r):
    return bool((r.get("features") or {}).get("contexts>=3"))


def run(ctx):
    return common.conductor_run(
        ctx, "C06", FAM, common.project_full, monitors.c06, features, nontrivial, 300, 6000,
        rule="generated definitions with publishes on 70% of the transitions (unique taint tokens, conflicting variable "
             "names, dict values), joins and loops under random histories; non-trivial = at least 3 context snapshots")


def replay(payload):
    return common.replay_conductor(payload, monitors.c06)
