"""C07 -- A join runs once, and only when its barrier is satisfied."""
from harness import monitors, progs
from harness.props import common

THEOREMS = [
    {"name": "C07_barrier_satisfied_iff / C07_requirement_all / C07_requirement_count", "strength": "F",
     "text": "satisfied iff the number of distinct inbound tasks with a satisfied transition into the join on the route "
             "reaches the requirement (all distinct inbound tasks, or the count)"},
    {"name": "C07_sources_distinct / C07_source_satisfied_by_record / C07_all_needs_every_source", "strength": "F",
     "text": "each inbound task counts once and only through its own record on that route"},
    {"name": "C07_only_ready_entries_offered", "strength": "F", "text": "only ready staged entries are offered"},
    {"name": "C07_unreachable_join_fails / C07_unreachable_means", "strength": "F",
     "text": "completing (not by cancel) with an unready, unsatisfiable staged join fails the workflow and hands the joins "
             "over to be logged"},
    {"name": "C07b_ready_flag_is_barrier_status / C07b_ready_flag_read_back", "strength": "F",
     "text": "whenever a satisfied transition arrives at a task, the staged entry's ready flag afterwards equals "
             "(inbound criteria status = satisfied) computed on the state with this arrival merged"},
    {"name": "C07b_ready_kept_outside_events / _by_prefix / _by_decision", "strength": "F",
     "text": "nothing else rewrites the flag of an existing entry, and every entry created elsewhere is ready"},
    {"name": "C07c_ready_flag_on_a_new_route / C07c_one_followed_transition_is_enough / C07c_loop_hypotheses (props/C07c.v)",
     "strength": "F",
     "text": "the barrier status is read on the SOURCE's route although the entry may be staged on a new route: proved "
             "harmless -- the two routes differ only for split tasks outside cycles, whose requirement is 1 and is met by the "
             "source's own record, so the entry is ready (and reading the new route would be wrong: Example)"},
    {"name": "(tested) once per satisfaction -- refuted for join: n below the inbound count by known finding D1",
     "strength": "T", "text": "monitor c07"},
]
TRUSTED_BASE = common.TRUSTED_BASE_COMMON
ASSUMPTIONS = ["known finding D1: join: n with n below the number of inbound tasks re-fires on a late arrival"]
FAM = progs.family(p_join=0.9, p_join_count=0.4, p_late_join=0.25, n_tasks=(3, 8), fanout=(1, 3), p_fail=0.2,
                   p_when=0.7, w_ctrl=0.6, p_pause_drain=0.5, w_rerun=0.15, steps=(15, 70))


def features(sess):
    tasks = sess.definition.get("tasks", {})
    last = sess.trace[-1][1]["state"]["state"]
    joins = [t for t, sp in tasks.items() if sp.get("join") is not None]
    return {"has_join": bool(joins), "join_ran": any(r["id"] in joins for r in last["sequence"]),
            "join_pending_at_end": any(s["id"] in joins and not s["ready"] for s in last["staged"]),
            "unreachable_error": any("UnreachableJoinError" in e.get("message", "")
                                     for e in sess.trace[-1][1]["state"]["errors"])}


def nontrivial(r):
    f = r.get("features") or {}
    return bool(f.get("join_ran") or f.get("join_pending_at_end"))


def run(ctx):
    return common.conductor_run(
        ctx, "C07", FAM, common.project_full, monitors.c07, features, nontrivial, 700, 6000,
        rule="generated definitions with joins (all / n, 25% of the count joins below the inbound count), branches that "
             "fail, are remediated or never transition into the join, random arrival orders; non-trivial = a join ran or "
             "stayed pending")


def replay(payload):
    return common.replay_conductor(payload, monitors.c07)
