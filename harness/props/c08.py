"""C08 -- The outcome does not depend on the order completions are reported."""
from harness import monitors, progs
from harness.props import common

THEOREMS = [
    {"name": "C08_status_moves_along_table", "strength": "P",
     "text": "for every evaluator and history: the workflow status moves only along entries of the generated workflow "
             "table or to failed by the unreachable-join check (wf_reach), whatever the order of reports"},
    {"name": "C08_report_keeps_history", "strength": "P",
     "text": "a report never changes id/route/ctxs.in/prev of any other record nor any earlier context snapshot "
             "(C18 relation R18), so what one report did is not undone by a later one"},
    {"name": "(tested, not proved) confluence: the set of terminal observations over linearisations is a singleton",
     "strength": "T", "text": "monitor c08: the same scenario under several completion orders; final status equal; when "
                              "succeeded also the record multiset, the published snapshots and the output"},
]
TRUSTED_BASE = common.TRUSTED_BASE_COMMON
ASSUMPTIONS = [
    "order independence itself (commutation of two reports up to renumbering of sequence/contexts/routes) is NOT proved; "
    "it needs an order-free semantics and a refinement that this development does not have (DESIGN.md section 9)",
    "scenarios: acyclic definitions, outcomes fixed per task (route numbers depend on arrival order, so outcomes are "
    "keyed by task, item and attempt), each published variable has a single writer, no join: N below the inbound count "
    "(known finding D1) -- the class the property quantifies over minus the known findings D1/D11",
]

FAM = progs.family(unique_writers=True, per_task=True, p_loop=0.0, p_late_join=0.0, p_other_abend=0.0,
                   p_fail=0.1, p_item_fail=0.06, p_retry=0.1, n_tasks=(3, 8), w_ctrl=0.0, w_rerun=0.0,
                   w_malformed=0.0, p_intermediate=0.0, steps=(20, 80), p_join=0.6)


def features(sess):
    f = dict(getattr(sess, "rel_features", {}) or {})
    f["enumerated_exhaustively"] = bool(f.get("all_orders_exhaustive"))
    return f


def nontrivial(r):
    f = r.get("features") or {}
    return f.get("orders_distinct", 0) >= 2 and f.get("records", 0) >= 3


# several leaves whose contexts carry dict values under one variable: the output is the deep merge of the terminal
# contexts (engine vs model in lock step; no twin -- two writers of one variable are outside the order-independence claim)
MERGE_FAM = progs.family(p_pub_dict=0.45, p_dictval=1.0, p_output=1.0, p_publish=0.7, fanout=(1, 3), p_join=0.15,
                         n_tasks=(3, 7), p_fail=0.05, w_ctrl=0.0, w_rerun=0.0, w_malformed=0.0, p_intermediate=0.0,
                         steps=(25, 80), w_render=1.0)


def run(ctx):
    fam = dict(FAM, tier=ctx["tier"])
    out = _run(ctx, fam)
    if ctx["model_ok"]:
        n = 250 if ctx["tier"] == "quick" else 3000
        base = (ctx["seed"] * 5393 + 31) % (2 ** 31)

        cfg = {"fam": MERGE_FAM, "project": common.project_full, "monitor": None, "features": None,
               "gen": gen_merge, "history": progs.run_history, "known_ids": []}
        res = common.run_cases([base + i for i in range(n)], True, cfg)
        out["merged_output_cases"] = len(res)
        out["traces_validated"] = out.get("traces_validated", 0) + sum(r.get("calls", 0) for r in res)
        divs = [r for r in res if "divergence" in r]
        errs = [r for r in res if "error" in r]
        if errs:
            out["violations"].append({"property": "C08", "what": "harness error in the merged-output batch",
                                      "error": errs[0]["error"][-600:], "seed": errs[0]["seed"]})
        if divs and not out.get("correspondence_broken"):
            d = divs[0]
            out["correspondence_broken"] = {"cases_diverging": len(divs), "first": {
                "seed": d["seed"], "definition": d["definition"], "inputs": d["inputs"], "ops": d["ops"],
                "divergence": d["divergence"]}}
    return out


def gen_merge(rng, f):
    d, inputs = progs.gen_definition(rng, f)
    if "output" in d and not any("odv" in o for o in d["output"]):
        d["output"].append({"odv": d["output"][0]["ox"].replace("ctx().x", "ctx().dv")})
    return d, inputs


def _run(ctx, fam):
    return common.conductor_run(
        ctx, "C08", fam, common.project_full, monitors.c08, features, nontrivial, 150, 1200,
        rule="acyclic generated definitions with single-writer publishes and per-task outcomes; each scenario is "
             "simulated under 3 (quick) / 8 (thorough) duration assignments, i.e. completion orders, and in the thorough tier "
             "scenarios with <= 6 executed actions are enumerated over ALL completion orders (cap 150); non-trivial = "
             ">= 2 distinct orders actually occurred and >= 3 records; distinct = distinct (definition, history)")


def replay(payload):
    return common.replay_conductor(payload, lambda s: [])
