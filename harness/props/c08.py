"""C08 -- The outcome does not depend on the order completions are reported."""
from harness import monitors, progs
from harness.props import common

THEOREMS = [
    {"name": "C08_status_moves_along_table", "strength": "P",
     "text": "for every evaluator and history: the workflow status moves only along entries of the generated workflow "
             "table or to failed by the unreachable-join check (wf_reach), whatever the order of reports"},
    {"name": "C08_report_keeps_history", "strength": "P",
     "text": "a report never changes id/route/ctxs.in/prev of any other record nor any earlier context snapshot "
             "(C18 relation R18), so what one report did is not undone by a later one"},
    {"name": "(tested, not proved) confluence: the set of terminal observations over linearisations is a singleton",
     "strength": "T", "text": "monitor c08: the same scenario under several completion orders; final status equal; when "
                              "succeeded also the record multiset, the published snapshots and the output"},
]
TRUSTED_BASE = common.TRUSTED_BASE_COMMON
ASSUMPTIONS = [
    "order independence itself (commutation of two reports up to renumbering of sequence/contexts/routes) is NOT proved; "
    "it needs an order-free semantics and a refinement that this development does not have (DESIGN.md section 9)",
    "scenarios: acyclic definitions, outcomes fixed per task (route numbers depend on arrival order, so outcomes are "
    "keyed by task, item and attempt), each published variable has a single writer, no join: N below the inbound count "
    "(known finding D1) -- the class the property quantifies over minus the known findings D1/D11",
]

FAM = progs.family(unique_writers=True, per_task=True, p_loop=0.0, p_late_join=0.0, p_other_abend=0.0,
                   p_fail=0.1, p_item_fail=0.06, p_retry=0.1, n_tasks=(3, 8), w_ctrl=0.0, w_rerun=0.0,
                   w_malformed=0.0, p_intermediate=0.0, steps=(20, 80), p_join=0.6)


def features(sess):
    f = dict(getattr(sess, "rel_features", {}) or {})
    f["enumerated_exhaustively"] = bool(f.get("all_orders_exhaustive"))
    return f


def nontrivial(r):
    f = r.get("features") or {}
    return f.get("orders_distinct", 0) >= 2 and f.get("records", 0) >= 3


def run(ctx):
    fam = dict(FAM, tier=ctx["tier"])
    return common.conductor_run(
        ctx, "C08", fam, common.project_full, monitors.c08, features, nontrivial, 150, 1200,
        rule="acyclic generated definitions with single-writer publishes and per-task outcomes; each scenario is "
             "simulated under 3 (quick) / 8 (thorough) duration assignments, i.e. completion orders, and in the thorough tier "
             "scenarios with <= 6 executed actions are enumerated over ALL completion orders (cap 150); non-trivial = "
             ">= 2 distinct orders actually occurred and >= 3 records; distinct = distinct (definition, history)")


def replay(payload):
    return common.replay_conductor(payload, lambda s: [])
