"""C09 -- Pause and resume are transparent."""
from harness import monitors, progs
from harness.props import common

THEOREMS = [
    {"name": "C09_no_offer_while_paused", "strength": "F",
     "text": "in pausing/paused get_next_tasks returns [] and leaves the state unchanged"},
    {"name": "C09_request_frame", "strength": "F",
     "text": "a status request changes only the workflow status and task statuses (staged, contexts, routes, pointer "
             "map, output and every other record field untouched), also when rejected"},
    {"name": "(tested, not proved) outcome equal to the unpaused twin; paused exactly when the last action reports",
     "strength": "T", "text": "monitor c09: pause inserted before sampled (quick) / every (thorough) event of the "
                              "simulated history, resume when at rest, compared with the unpaused run"},
]
TRUSTED_BASE = common.TRUSTED_BASE_COMMON
ASSUMPTIONS = [
    "outcome transparency is a relation between two executions and is tested, not proved",
    "reference provider protocol: every offered action is acknowledged running before anything else happens",
    "twin scenarios: acyclic, single-writer publishes, per-task outcomes (so that the twin differs only by the pause)",
]
FAM = progs.family(unique_writers=True, per_task=True, p_loop=0.0, p_late_join=0.0, p_other_abend=0.0,
                   p_fail=0.12, p_item_fail=0.06, p_retry=0.12, p_cmd=0.2, n_tasks=(2, 7), w_ctrl=1.2,
                   w_rerun=0.0, w_malformed=0.05, steps=(15, 60))


def features(sess):
    f = dict(getattr(sess, "rel_features", {}) or {})
    f["history_paused"] = any(o["state"]["state"]["status"] in ("pausing", "paused") for _, o in sess.trace)
    return f


def nontrivial(r):
    f = r.get("features") or {}
    return f.get("resumed", 0) >= 1


def run(ctx):
    fam = dict(FAM, tier=ctx["tier"])
    return common.conductor_run(
        ctx, "C09", fam, common.project_full, monitors.c09, features, nontrivial, 120, 1500,
        rule="generated definitions; (a) random history dense in pause/resume requests compared with the Coq model "
             "after every API call; (b) twin simulation: pause before sampled/every event, resume at rest, compared "
             "with the unpaused simulation; non-trivial = at least one twin actually paused and resumed")


def replay(payload):
    return common.replay_conductor(payload, lambda s: [])
