"""C09 -- Pause and resume are transparent."""
from harness import monitors, progs
from harness.props import common

THEOREMS = [
    {"name": "C09_no_offer_while_paused", "strength": "F",
     "text": "in pausing/paused get_next_tasks returns [] and leaves the state unchanged"},
    {"name": "C09_request_frame", "strength": "F",
     "text": "a status request changes only the workflow status and task statuses (staged, contexts, routes, pointer "
             "map, output and every other record field untouched), also when rejected"},
    {"name": "C09b_pause_api_changes_statuses_only / C09b_pause_of_plain_tasks_changes_workflow_status_only / "
             "C09b_status_request_changes_statuses_and_log_only (props/C09b.v)", "strength": "F",
     "text": "a pause request, accepted or rejected, leaves the whole conductor state unchanged except the workflow status "
             "and record statuses (strip c' = strip c); with no item table on an active task only the workflow status"},
    {"name": "C09b_task_machine_commutes_with_pause / C09b_task_report_never_resumes / C09b_wf_pausing_mirrors_running / "
             "C09b_pausing_is_active", "strength": "F",
     "text": "a report completes its task in exactly the same cases and with the same status whether the record is running "
             "or was pushed to pausing; over the whole workflow table a task event fails or cancels the pausing workflow "
             "exactly when it fails or cancels the running one (success becomes paused); the retry gate agrees"},
    {"name": "C09b_resume_polls_the_held_entries", "strength": "F",
     "text": "resume continues with precisely the work that was held back: no status request touches the staged entries"},
    {"name": "C09b_pause_not_transparent_for_status_reading_condition", "strength": "R",
     "text": "a condition reading $__state.status sees the pause (replayed on the engine): transparency can only hold for "
             "expressions that do not read the engine's bookkeeping (known finding C16-dunder-direct-variable)"},
    {"name": "C09c_report_commutes_with_pause_partial / C09c_report_commutes_with_status_override_partial / "
             "C09c_reports_commute_with_status_override_partial (props/C09c.v)", "strength": "P",
     "text": "WHOLE-CALL COMMUTATION for plain tasks (no item tables, no engine-command targets), every evaluator that does "
             "not read __state: processing any report (late, duplicate, malformed ones included) on the paused state and on "
             "the running state gives equal results and states equal up to workflow status, terminal flags and the error log "
             "-- transitions, publishes, staging, the retry gate and re-entry, logging and raise/return all commute; lifted "
             "to lists of reports"},
    {"name": "C09c_pause_resume_history_partial / C09c_pause_reports_resume_poll_partial / C09c_poll_commutes_with_resuming / "
             "C09c_resume_at_rest", "strength": "P",
     "text": "HISTORIES: inserting a pause request before a block of reports and a resume request at rest yields the same "
             "traces, a state equal to the unpaused one except the status (resuming), and the next poll offers the same tasks "
             "(equal up to the __state entry), as long as the unpaused run is still running with an active task after each "
             "report but the last"},
    {"name": "C09d_report_commutes_with_pause_cmd / C09d_command_call / C09d_pause_reports_resume_poll_cmd (props/C09d.v)",
     "strength": "P",
     "text": "the commutation also for tasks with ONE engine-command target (noop, continue, fail): same result, states "
             "equal up to status / terminal flags / error log, equal outright when the statuses agree; `fail` ends failed in "
             "both runs in the same state. Hypotheses: commands inert, at most one command target, the unpaused step does not "
             "complete the workflow (all decidable)"},
    {"name": "C09d_items_cancel_under_pause_diverges / C09d_items_rows_diverge_only_on_cancel", "strength": "R",
     "text": "with-items: FALSE -- an item canceled while pausing is ignored (no row), so a sibling's failure fails the "
             "workflow where the unpaused run is already canceling and ends canceled (replayed on the engine; known finding "
             "D35); table fact: this is the only action event on which the pausing row fails to mirror the running row"},
    {"name": "C09c_completion_under_pause_is_not_transparent", "strength": "R",
     "text": "the excluded case is real (replayed on the engine): when the report at which the UNPAUSED run completes the "
             "workflow is processed while pausing, the task is not flagged terminal, so after resume the output is rendered "
             "without its context (r = 7 vs r = null) -- the pause-side face of finding D5a"},
    {"name": "(tested, not proved) outcome equal to the unpaused twin with items / engine commands; paused exactly when the last action reports",
     "strength": "T", "text": "monitor c09: pause inserted before sampled (quick) / every (thorough) event of the "
                              "simulated history, resume when at rest, compared with the unpaused run (the whole-call "
                              "commutation strip(update e (pause c)) = strip(update e c) is not proved)"},
]
TRUSTED_BASE = common.TRUSTED_BASE_COMMON
ASSUMPTIONS = [
    "outcome transparency is a relation between two executions and is tested, not proved",
    "reference provider protocol: every offered action is acknowledged running before anything else happens",
    "twin scenarios: acyclic, single-writer publishes, per-task outcomes (so that the twin differs only by the pause)",
]
FAM = progs.family(p_item_mix=0.3, p_items=0.4, p_intermediate=0.15, intermediate_statuses=["paused", "paused", "running"],
                   unique_writers=True, per_task=True, p_loop=0.0, p_late_join=0.0, p_other_abend=0.0,
                   p_fail=0.12, p_item_fail=0.25, p_retry=0.12, p_cmd=0.2, n_tasks=(2, 7), w_ctrl=1.2,
                   w_rerun=0.0, w_malformed=0.05, steps=(15, 60))


def features(sess):
    f = dict(getattr(sess, "rel_features", {}) or {})
    f["history_paused"] = any(o["state"]["state"]["status"] in ("pausing", "paused") for _, o in sess.trace)
    return f


def nontrivial(r):
    f = r.get("features") or {}
    return f.get("resumed", 0) >= 1


# joins, several start tasks, failures, and the pattern "pause, let what is in flight finish, resume": what a pause holds
# back must count as work in progress for the joins (engine vs model in lock step, no twin)
HELD_FAM = progs.family(p_pause_drain=0.5, p_join=0.8, p_join_count=0.3, p_fail=0.25, fanout=(1, 3), n_tasks=(4, 8),
                        p_when=0.7, p_cmd=0.1, w_ctrl=0.5, w_rerun=0.0, w_malformed=0.0, steps=(15, 60))


def run(ctx):
    fam = dict(FAM, tier=ctx["tier"])
    out = _run(ctx, fam)
    if ctx["model_ok"]:
        n = 250 if ctx["tier"] == "quick" else 3000
        base = (ctx["seed"] * 9176 + 77) % (2 ** 31)
        cfg = {"fam": HELD_FAM, "project": common.project_full, "monitor": None, "features": None,
               "gen": progs.gen_definition, "history": progs.run_history, "known_ids": []}
        res = common.run_cases([base + i for i in range(n)], True, cfg)
        out["held_back_work_cases"] = len(res)
        out["traces_validated"] = out.get("traces_validated", 0) + sum(r.get("calls", 0) for r in res)
        divs = [r for r in res if "divergence" in r]
        errs = [r for r in res if "error" in r]
        if errs:
            out["violations"].append({"property": "C09", "what": "harness error in the held-back-work batch",
                                      "error": errs[0]["error"][-600:], "seed": errs[0]["seed"]})
        if divs and not out.get("correspondence_broken"):
            d = divs[0]
            out["correspondence_broken"] = {"cases_diverging": len(divs), "first": {
                "seed": d["seed"], "definition": d["definition"], "inputs": d["inputs"], "ops": d["ops"],
                "divergence": d["divergence"]}}
    return out


def _run(ctx, fam):
    return common.conductor_run(
        ctx, "C09", fam, common.project_full, monitors.c09, features, nontrivial, 160, 1500,
        rule="generated definitions; (a) random history dense in pause/resume requests compared with the Coq model "
             "after every API call; (b) twin simulation: pause before sampled/every event, resume at rest, compared "
             "with the unpaused simulation; non-trivial = at least one twin actually paused and resumed")


def replay(payload):
    return common.replay_conductor(payload, lambda s: [])
