"""C10 -- Cancellation stops scheduling and ends in canceled."""
from harness import monitors, progs
from harness.props import common

THEOREMS = [
    {"name": "C10_cancel_closed", "strength": "F",
     "text": "after canceling/canceled every later status is canceling, canceled or failed (any history without rerun)"},
    {"name": "C10_never_succeeds", "strength": "F", "text": "a canceled workflow never ends succeeded"},
    {"name": "C10_no_offers_after_cancel", "strength": "F",
     "text": "nothing is offered in any later state unless the workflow has meanwhile failed"},
    {"name": "C10_canceled_stays_canceled", "strength": "F",
     "text": "canceled is final: output rendering and later reports keep it canceled"},
    {"name": "C10b_task_event_keeps_cancel / C10b_workflow_event_keeps_cancel / C10b_cancel_class_step (props/C10b.v)", "strength": "F",
     "text": "NOT FAILED BY THE JOIN CHECK: any task report on a canceling/canceled workflow, an unhandled failure included, "
             "keeps it canceling/canceled and the unreachable-join check returns nothing"},
    {"name": "C10b_failed_only_by / C10b_canceling_to_failed_only_by_request / C10b_stays_canceled_unless_requested", "strength": "F",
     "text": "from canceling/canceled a non-rerun API call leaves the workflow failed only if it is the request `failed` or a "
             "handler recorded an evaluation failure (C11b); canceled stays canceled otherwise"},
    {"name": "C10b_terminal_context / C10b_status_request_flags_nothing / C10b_cancel_request_renders_from_nothing", "strength": "R",
     "text": "OUTPUT: the output is rendered against the fold over records flagged terminal; a status request flags none, so a "
             "workflow completed by a cancel request with tasks still staged renders from the EMPTY context -- finding D5a as "
             "an exact statement (Example d5a_cancel_dormant)"},
    {"name": "(tested) canceling while in flight, canceled as soon as the last action reports", "strength": "T",
     "text": "monitor c10 with cancel inserted before sampled/every event; C02b_paused_canceled_idle / "
             "C02b_pausing_canceling_busy prove it for the formal protocol without with-items"},
]
TRUSTED_BASE = common.TRUSTED_BASE_COMMON + [
    "fact F_wf_cancel_closed: vm_compute sweep over the canceling/canceled rows of the generated workflow table"]
ASSUMPTIONS = [
    "reference provider protocol (atomic poll) for the 'canceling while in flight / canceled at the last report' clause",
    "known finding D5a: a workflow canceled by the request itself while tasks are only staged has no terminal task",
]
FAM = progs.family(p_cleanup_fail=0.3, p_loop=0.1, p_late_join=0.0, p_other_abend=0.03, p_fail=0.2, p_item_fail=0.06, p_retry=0.15,
                   n_tasks=(2, 7), w_ctrl=1.0, w_rerun=0.0, w_malformed=0.05, steps=(15, 60), per_task=True)


def features(sess):
    f = dict(getattr(sess, "rel_features", {}) or {})
    f["history_canceled"] = any(o["state"]["state"]["status"] in ("canceling", "canceled") for _, o in sess.trace)
    return f


def nontrivial(r):
    f = r.get("features") or {}
    return f.get("accepted", 0) >= 1 and f.get("canceled_with_inflight", 0) >= 1


def run(ctx):
    fam = dict(FAM, tier=ctx["tier"])
    return common.conductor_run(
        ctx, "C10", fam, common.project_full, monitors.c10, features, nontrivial, 240, 1500,
        rule="generated definitions (joins, retries, with-items windows, loops); (a) random history with control "
             "requests compared with the Coq model after every API call; (b) simulation with canceling/canceled "
             "requested before sampled/every event; non-trivial = a cancel was accepted while an action was in flight")


def replay(payload):
    return common.replay_conductor(payload, lambda s: [])
