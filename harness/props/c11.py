"""C11 -- Run-time expression errors are contained, recorded and fail the workflow."""
from harness import monitors, progs
from harness.props import common

THEOREMS = [
    {"name": "C11_contained", "strength": "F",
     "text": "for every evaluator whose failures are expression-evaluation exceptions, every API operation, state "
             "and history: an exception escaping a conductor API call is never an evaluation failure (structural over the "
             "whole model: every evaluator call sits under a handler)"},
    {"name": "C11_update_task_state_contained / C11_get_next_tasks_contained / C11_render_output_contained",
     "strength": "F", "text": "the same per provider-facing function"},
    {"name": "C11_guarded_site / C11_collected_site + C11_input_vars_recorded, C11_task_rendering_recorded, "
             "C11_retry_setup_recorded, C11_retry_condition_recorded, C11_criteria_recorded, C11_publish_recorded, "
             "C11_recorded_stays (props/C11b.v)", "strength": "F",
     "text": "RECORDED: at every handler site, if the guarded computation raised e, the error log afterwards holds the entry "
             "'<class>: <message>' naming the task and route (and the transition for criteria / publish; nothing for "
             "input/vars/output); entries are never lost by a non-rerun call. No hypothesis on the evaluator"},
    {"name": "C11_contained_failure_fails / C11_fail_request / C11_errors_only_appended / C11_lifecycle_kept", "strength": "F",
     "text": "FAILS: after any non-rerun API call that appended a handled error entry the workflow is failed, or canceled if "
             "it was canceled (from canceling, pausing, paused, resuming, succeeded it becomes failed), for every state whose "
             "status has a row in the generated table (kept by every call)"},
    {"name": "C11_failed_rendering_offers_nothing / C11_settled_offers_only_cleanup", "strength": "F",
     "text": "NO FURTHER OFFER: a poll that logged a rendering failure returns [] (healthy siblings included); a settled "
             "workflow offers only run_on_fail clean-up entries"},
    {"name": "(tested) monitor c11 over definitions with failing expressions injected", "strength": "T",
     "text": "the same clauses on the engine, plus the evaluator-hypothesis check"},
]
TRUSTED_BASE = common.TRUSTED_BASE_COMMON + [
    "hypothesis of the containment theorem about the real evaluators (both wrap every failure in "
    "Yaql/JinjaEvaluationException): checked on every run by the harness, which reports for each evaluator call of "
    "the model whether the exception was an ExpressionEvaluationException"]
ASSUMPTIONS = [
    "the theorem quantifies over every evaluator; which exception class the real evaluators raise is the only fact about "
    "them it uses, and engine.real_eval reports it per call (is_expr flag)",
]
FAM = progs.family(p_bad=0.12, p_items=0.35, w_conc_var=4, p_pub_d=0.3, p_jinja=0.4, p_retry=0.25, p_delay=0.2, p_input=0.4, n_tasks=(2, 6),
                   w_ctrl=0.5, w_malformed=0.05, steps=(10, 50), p_fail=0.1)


def features(sess):
    errs = sess.trace[-1][1]["state"]["errors"]
    return {"eval_error_logged": any(monitors._is_eval_error(e.get("message", "")) for e in errs),
            "type_error_logged": any(e.get("message", "").startswith(("TypeError", "ValueError")) for e in errs)}


def nontrivial(r):
    f = r.get("features") or {}
    return bool(f.get("eval_error_logged") or f.get("type_error_logged"))


def run(ctx):
    return common.conductor_run(
        ctx, "C11", FAM, common.project_full, monitors.c11, features, nontrivial, 1200, 8000,
        rule="generated definitions in which each expression-bearing position (input default, vars, action input, "
             "with-items list/concurrency, delay, retry count/delay/when, transition when, publish, output) is replaced "
             "with probability 0.12 by a failing expression (undefined variable, missing key, wrong type, unknown "
             "function; YAQL and Jinja) under random histories; non-trivial = an evaluation or type error was actually "
             "hit and logged")


def replay(payload):
    return common.replay_conductor(payload, monitors.c11)
