"""C12 -- With-items: every item once, in order, within the concurrency limit."""
from harness import monitors, progs
from harness.props import common

THEOREMS = [
    {"name": "C12_window", "strength": "F", "text": "offered now + already active <= concurrency (<= 0 counts as 1)"},
    {"name": "C12_first_unset_in_order / C12_only_unset_items", "strength": "F",
     "text": "the offer is a prefix in item order of the items that have not run"},
    {"name": "C12_all_offered_without_limit / C12_full_window_offers_nothing", "strength": "F", "text": "edge cases of the window"},
    {"name": "C12_no_completion_while_items_active", "strength": "F",
     "text": "an item event with another item still active never completes the task (sweep of the generated task table)"},
    {"name": "C12_no_items_offered_when_held", "strength": "F", "text": "nothing offered while pausing/paused/canceling/canceled"},
    {"name": "C12b_item_link (props/C12b.v; model/ProviderSysItems.v, proofs/SysItemsProofs.v)", "strength": "P",
     "text": "the provider protocol WITH items (in-flight keys (task, route, item); poll + per-item acknowledgement; item "
             "reports carrying the provider's accumulated results), for every evaluator, spec, graph and every history whose "
             "two computed flags stay false (no fault; no item table wiped under a running item -- how finding D1 shows up): "
             "an item is in flight iff its slot is running in the staged table; every table is a prefix of set slots followed "
             "by unset ones. The record-level half (task record active) is not proved"},
    {"name": "C12b_window_after_poll / C12b_window_inside_poll / C12b_window_between_polls", "strength": "F",
     "text": "WINDOW: after every API call of every poll the number of active items of each offered with-items task is at most "
             "max(k,1) for the integer concurrency k rendered into that offer, and no other step increases it"},
    {"name": "C12b_offers_in_index_order / C12b_once_and_in_order", "strength": "F",
     "text": "ONCE, IN ORDER: a poll offers the consecutive indices starting at the number of slots ever set; across polls of "
             "one execution (the staged entry keeps its table) every offered index is greater than all earlier ones"},
    {"name": "C12b_no_items_offered_when_held / C12b_empty_list_nothing_in_flight", "strength": "F",
     "text": "HELD: after a pause or cancel request a poll offers nothing and changes nothing; an empty list puts nothing in flight"},
    {"name": "witnesses in Module C12bExamples", "strength": "R",
     "text": "'never completes while an item is in flight' / 'succeeds iff all succeed' is false for an items expression whose "
             "length changes between polls (it reads task_status; replayed on the engine) -- weakest hypothesis: the item "
             "count is stable while the entry has a table; D1 wipes the table under running items; a retry re-offers items on "
             "the same record (once per table, not per record); D24 leaves the workflow canceling forever"},
    {"name": "C12c_drain / C12c_item_in_flight_record_active / C12c_succeeded_iff_all_items_succeeded (props/C12c.v)", "strength": "F",
     "text": "RECORD LEVEL, along histories whose computed flags stay false (no fault, no table wiped, and the monitor run_odd "
             "silent -- its substantive clause: no poll renders a different item count for an entry that has a table): an item "
             "in flight implies its task record is active, not completed, not retrying (DRAIN: a completed record has no item "
             "in flight); the record is succeeded after an item report only if that report and every other slot succeeded, "
             "and then it is (or is retried when the policy says so)"},
    {"name": "(tested, not proved) result order; all n offered when nothing fails", "strength": "T", "text": "monitor c12"},
]
TRUSTED_BASE = common.TRUSTED_BASE_COMMON
ASSUMPTIONS = ["the window theorems are about choose_items, the model of _evaluate_task_actions, applied to the recorded item "
               "statuses; that the recorded statuses follow the provider's reports is tied by the correspondence",
               "reference provider protocol; the published result is the accumulated_result the provider supplies"]
FAM = progs.family(rerun_only_when_idle=True, w_conc_var=6, p_pub_d=0.35, p_items=0.6, n_tasks=(1, 5), p_item_fail=0.12, p_fail=0.08, w_ctrl=1.0, p_intermediate=0.2,
                   steps=(15, 70), p_retry=0.1, p_join=0.3, w_rerun=0.3,
                   # an item that is pending/paused is not "offered or running": the window is about active items
                   intermediate_statuses=["running", "pausing", "canceling", "paused", "pending", "paused"])


def features(sess):
    offers = [o for ol in sess.offers_log for o in ol if "items_count" in o]
    return {"items_offered": bool(offers),
            "window_partial": any(0 < len(o["actions"]) < o["items_count"] for o in offers),
            "empty_list": any(o["items_count"] == 0 for o in offers)}


def nontrivial(r):
    return bool((r.get("features") or {}).get("items_offered"))


def run(ctx):
    out = common.conductor_run(
        ctx, "C12", FAM, common.project_full, monitors.c12, features, nontrivial, 300, 6000,
        rule="definitions with with-items tasks (0-3 items, concurrency absent/1/2/3/expression/0, item keys) under random "
             "histories with pause/cancel/rerun and intermediate item statuses; non-trivial = item actions were offered")
    # tie of the formal with-items provider protocol (ProviderSysItems.v, what C12b/c quantify over) to the engine
    if ctx["model_ok"]:
        from harness import syscheck
        n, clean, fails = syscheck.run_items(ctx["seed"] % 100000, 8 if ctx["tier"] == "quick" else 60)
        out["provider_protocol_runs_checked"] = {"runs": n, "with_both_flags_false": clean,
                                                 "what": "with-items protocol histories run on the engine through the reference "
                                                         "provider and through ProviderSysItems.isys_run inside Coq: same final "
                                                         "state, in-flight set, fault flag"}
        for f in fails:
            out["violations"].append(dict(f, property="C12"))
    return out


def replay(payload):
    return common.replay_conductor(payload, monitors.c12)
