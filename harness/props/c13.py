"""C13 -- Retry: bounded attempts, no transition from a retried attempt."""
from harness import monitors, progs
from harness.props import common

THEOREMS = [
    {"name": "C13_retry_only_below_count", "strength": "F", "text": "the retry decision is yes only while tally < count"},
    {"name": "C13_retry_condition", "strength": "F", "text": "... and only if the condition holds for the latest execution"},
    {"name": "C13_retrying_only_by_retry_event / C13_retry_event_accepted", "strength": "F",
     "text": "retrying is entered only by the internal retry event from a completed status; the decision is taken only "
             "when the table accepts it (sweeps of the generated task table)"},
    {"name": "C13_retry_delay", "strength": "F", "text": "a re-offered retry carries the retry delay (0 if none)"},
    {"name": "C13_retried_at_most_count_times / C13_retry_entries_bounded", "strength": "F",
     "text": "for every evaluator and every history of API calls from a state in which the record's tally is 0 (e.g. the "
             "empty history, C13_empty_history_start; new records start at 0, C13_new_record_tally_zero): the number of "
             "calls at which one record enters `retrying` is at most max(count, 0) -- at most count+1 executions per visit. "
             "No protocol hypothesis (only: the internal retry event is not injected from outside, which every provider "
             "event satisfies, C13_provider_events_are_external)"},
    {"name": "C13_tally_monotone / C13_entry_needs_tally_below_count / C13_no_policy_no_entries", "strength": "F",
     "text": "the steps: the tally never decreases and count never changes; an entry into retrying needs tally < count "
             "and increments the tally; a record without a policy never retries"},
    {"name": "C13_retry_tally_bounded_step/_api/_history", "strength": "F",
     "text": "under the protocol hypothesis that no event other than `running` is delivered to a retrying record, the "
             "engine's own tally stays <= max(count,0); Example duplicate_report_overruns / tally_runs_ahead_entries_do_not "
             "show the tally does run ahead without it (real engine behaviour; costs retries, never adds an execution)"},
    {"name": "C13_update_task_state_never_out_of_fuel / C13_fuel_irrelevant / C13_fuel_two_suffices", "strength": "F",
     "text": "the re-entrant update_task_state call terminates: over every composed graph (engine commands inert) the "
             "model's recursion bound is never reached and extra fuel never changes a result"},
    {"name": "C13_retried_attempt_decides_nothing / C13_retry_call_decides_nothing / C13_enters_retrying_only_by_retry_event "
             "(props/C13c.v)", "strength": "F",
     "text": "no transition, publish or failure handling fires for an attempt that is retried: over the whole call that "
             "decides to retry, no record's decisions or published-context reference change and no snapshot is appended"},
    {"name": "(tested) monitor c13 on generated histories", "strength": "T", "text": "the same clauses on the engine"},
]
TRUSTED_BASE = common.TRUSTED_BASE_COMMON
ASSUMPTIONS = ["theorems are about the Gallina model; the tie to conducting.py is the lock-step comparison on generated histories"]
FAM = progs.family(p_retry=0.6, p_cmd=0.25, n_tasks=(1, 5), p_fail=0.35, p_items=0.15, w_ctrl=0.4, steps=(12, 60))


def features(sess):
    last = sess.trace[-1][1]["state"]["state"]
    return {"retried": any((r.get("retry") or {}).get("tally", 0) > 0 for r in last["sequence"]),
            "exhausted": any((r.get("retry") or {}).get("tally", 0) >= 1 and r.get("status") == "failed" for r in last["sequence"])}


def nontrivial(r):
    return bool((r.get("features") or {}).get("retried"))


def run(ctx):
    return common.conductor_run(
        ctx, "C13", FAM, common.project_full, monitors.c13, features, nontrivial, 300, 6000,
        rule="definitions with retry policies (count 0/1/2/expression, when absent/failed()/completed()/result-based, delay) "
             "and the retry command, failure rate 35%, under random histories; non-trivial = some attempt was retried")


def replay(payload):
    return common.replay_conductor(payload, monitors.c13)
