"""C13 -- Retry: bounded attempts, no transition from a retried attempt."""
from harness import monitors, progs
from harness.props import common

THEOREMS = [
    {"name": "C13_retry_only_below_count", "strength": "F", "text": "the retry decision is yes only while tally < count"},
    {"name": "C13_retry_condition", "strength": "F", "text": "... and only if the condition holds for the latest execution"},
    {"name": "C13_retrying_only_by_retry_event / C13_retry_event_accepted", "strength": "F",
     "text": "retrying is entered only by the internal retry event from a completed status; the decision is taken only "
             "when the table accepts it (sweeps of the generated task table)"},
    {"name": "C13_retry_delay", "strength": "F", "text": "a re-offered retry carries the retry delay (0 if none)"},
    {"name": "(tested, not proved) tally <= count over whole histories; no transition/publish for a retried attempt",
     "strength": "T", "text": "monitor c13"},
]
TRUSTED_BASE = common.TRUSTED_BASE_COMMON
ASSUMPTIONS = ["the bound over whole histories needs the two-level analysis of the re-entrant update_task_state call; not done"]
FAM = progs.family(p_retry=0.6, p_cmd=0.25, n_tasks=(1, 5), p_fail=0.35, p_items=0.15, w_ctrl=0.4, steps=(12, 60))


def features(sess):
    last = sess.trace[-1][1]["state"]["state"]
    return {"retried": any((r.get("retry") or {}).get("tally", 0) > 0 for r in last["sequence"]),
            "exhausted": any((r.get("retry") or {}).get("tally", 0) >= 1 and r.get("status") == "failed" for r in last["sequence"])}


def nontrivial(r):
    return bool((r.get("features") or {}).get("retried"))


def run(ctx):
    return common.conductor_run(
        ctx, "C13", FAM, common.project_full, monitors.c13, features, nontrivial, 300, 6000,
        rule="definitions with retry policies (count 0/1/2/expression, when absent/failed()/completed()/result-based, delay) "
             "and the retry command, failure rate 35%, under random histories; non-trivial = some attempt was retried")


def replay(payload):
    return common.replay_conductor(payload, monitors.c13)
