"""C14 -- The composed graph is exactly the definition's tasks and transitions.

For every generated, accepted definition:
 (i)   the real composed graph (engine.norm_graph) is compared with the Coq `compose` of the normalised
       spec, evaluated by coqc + vm_compute from generated cases files: node order and attributes, edges
       (src, dst, key, ref, criteria) in networkx order, and the queries get_next_transitions / roots /
       in_cycle of every node against State.v's g_next_transitions / g_roots / g_in_cycle; the spec-level
       in_cycle / is_split_task of every task; the typed serialize/deserialize round trip;
 (ii)  an independent reference construction straight from the definition dict (reachable tasks, one edge
       per (task, transition, target) triple, keys by transition position, barrier / retry where declared,
       roots = tasks nothing transitions into) is compared with the real composer -- the monitor;
 (iii) permutations of the task declaration order must give the same serialize();
 (iv)  WorkflowGraph.deserialize(g.serialize()) serialises to the same data and answers
       get_next_transitions / get_prev_transitions with the same keys.
"""
import collections.abc  # noqa: F401
import copy
import itertools
import json
import multiprocessing
import os
import random
import re
import shutil
import subprocess
import tempfile
import time
import traceback
import zlib

from harness import engine
from harness.props import common

from orquesta import conducting  # noqa: E402
from orquesta import graphing  # noqa: E402
from orquesta.composers import native as native_comp  # noqa: E402
from orquesta.specs import native as native_specs  # noqa: E402

THEOREMS = [
    {"name": "C14_edges_sound", "strength": "F",
     "text": "compose sp rt fuel = Val g -> every edge of g is a (task, transition index, target) triple of the "
             "definition with target <> retry, criteria = [when] or [], ref = index, both ends nodes of g"},
    {"name": "C14_edges_complete", "strength": "F",
     "text": "... -> every such triple of every node of g has its edge in g (all nodes have been dequeued)"},
    {"name": "C14_nodes_exact", "strength": "F",
     "text": "... -> node ids are duplicate free and t is a node of g <-> t is reachable from a start task "
             "through transitions other than the retry command"},
    {"name": "C14_edges_unique", "strength": "F",
     "text": "... -> edges are pairwise distinct on (src, dst, criteria, ref) and on (src, dst, key)"},
    {"name": "C14_edge_keys_dense", "strength": "F",
     "text": "... -> the keys of the k parallel edges between two tasks are exactly 0..k-1 in networkx order"},
    {"name": "C14_roots_exact", "strength": "F",
     "text": "... -> t in g_roots g <-> t is a declared task that no transition of the definition names"},
    {"name": "C14_attributes_exact", "strength": "F",
     "text": "... -> every node: barrier = '*'/n exactly when join is declared (else null); retry = policy of the "
             "last retry command among its transitions, else the declared retry spec, else null"},
    {"name": "C14_retry_policy", "strength": "F",
     "text": "the expected retry policy is the fold over the transitions in declaration order (the name sort of "
             "get_next_tasks is stable)"},
    {"name": "C14_declaration_order", "strength": "F",
     "text": "Permutation (wf_tasks sp1) (wf_tasks sp2) -> task names unique -> compose sp1 rt fuel = compose sp2 rt fuel"},
    {"name": "C14_persist_edges", "strength": "F",
     "text": "for every graph: deserialize(serialize g) has the same node list and exactly the edges of g whose "
             "source is a node, with the same key, ref and criteria"},
    {"name": "C14_serialize_roundtrip / _composed", "strength": "F",
     "text": "node ids unique (in particular g composed) -> serialize(deserialize(serialize g)) = serialize g"},
    {"name": "C14_in_cycle_total", "strength": "F",
     "text": "task names unique -> the tasks.in_cycle search never exhausts its fuel (spec_size + 1 dequeues)"},
    {"name": "C14_only_fuel_error", "strength": "F",
     "text": "task names unique, every transition target an engine command or a declared task -> the only failure "
             "of compose is the worklist's fuel (no KeyError, no in_cycle fuel error)"},
    {"name": "C14_fuel_irrelevant", "strength": "F",
     "text": "compose sp rt f1 = Val g1 -> compose sp rt f2 = Val g2 -> g1 = g2"},
    {"name": "C14b_compose_total / C14b_compose_fuel / C14b_inspected_composable / C14b_in_cycle_false_sound (props/C14b.v)",
     "strength": "F",
     "text": "TERMINATION: for every composable definition (task names unique, every task reachable from a start task declared "
             "or an engine command -- which an empty semantic inspection report gives) the worklist returns a graph with the "
             "computable fuel compose_fuel sp (of order E^N), more fuel gives the same graph, and any fuel that returns a "
             "graph returns that one: the composer never diverges, cycles through split tasks included. The measure is a "
             "weighted sum over ghost paths that never repeat a name (uses a completeness proof of the models.py cycle search)"},
    {"name": "C14b_edges_sound_total / _edges_complete_total / _nodes_exact_total / _edges_unique_total / _edge_keys_dense_total / "
             "_roots_exact_total / _attributes_exact_total / _serialize_roundtrip_total / _declaration_order_total", "strength": "F",
     "text": "the C14 theorems restated unconditionally about compose_graph sp rt"},
    {"name": "(tested) deserialize(serialize g) = g and equal get_next_transitions on the real composer; node order and the "
             "splits attribute", "strength": "T",
     "text": "checked on every generated definition against the real composer and an independent reference construction"},
]
TRUSTED_BASE = [
    "Coq 8.16.1 kernel via coqc (full .vo build); vm_compute in the non-vacuity examples and in the generated "
    "cases files; no native_compute; no Axiom/Parameter/Admitted (grep by ./check)",
    "the printer of the normalised spec / expected graph as Coq terms in harness/props/c14.py and the parser "
    "of coqc's output (trusted for detection only; a wrong print shows up as a mismatch, not as agreement, "
    "because the expected graph is printed from the real composer's output)",
    "harness/engine.py norm_spec / norm_graph (what is read from the spec objects and the networkx graph)",
    "modelled-not-verified: orquesta/composers/native.py, graphing.py (networkx MultiDiGraph key and "
    "iteration-order semantics, adjacency_data / adjacency_graph), specs/native/v1/models.py task queries; "
    "tied by the comparison on generated definitions",
    "jsonschema validation / inspect() decides which generated definitions are 'accepted'",
]
ASSUMPTIONS = [
    "theorems are about the Gallina model coq/model/Composer.v and are conditional on compose returning Val "
    "(no termination proof: fuel is an argument); the tie to /repo is the comparison of the composed graph and "
    "its queries on generated accepted definitions",
    "the task retry spec enters the model as a table keyed by task name built by the harness exactly as the "
    "composer builds it (has_retry, when/count/delay)",
    "names are printable ASCII (\\w+), so Python's code-point order equals Coq's String.leb byte order",
]

COQ = os.path.join(engine.VERIF, "coq")
FUEL = "(60 * 50)"     # 3000 dequeues; written as a product to keep nat literals small
BIG_FUEL = "(600 * 50)"
NAME_POOL = ["a", "aa", "ab", "b", "B", "A1", "_c", "a_", "z", "t1", "t10", "t2", "m", "Z9", "k_k", "q"]
COMMANDS = ["continue", "noop", "fail", "retry"]
WHENS = [None, "<% succeeded() %>", "<% failed() %>", "<% ctx().x > 0 %>", "{{ ctx().x == 1 }}",
         "<% completed() %>"]

FAMILIES = {
    "fan": dict(n=(3, 8), p_back=0.0, p_cmd=0.05, p_dup=0.05, p_join=0.5, fan=(1, 3), ntr=(0, 2)),
    "nested_splits": dict(n=(4, 9), p_back=0.0, p_cmd=0.0, p_dup=0.05, p_join=0.15, fan=(1, 3), ntr=(1, 2)),
    "dups": dict(n=(2, 5), p_back=0.1, p_cmd=0.1, p_dup=0.7, p_join=0.3, fan=(1, 3), ntr=(1, 3)),
    "cycles": dict(n=(2, 7), p_back=0.35, p_cmd=0.05, p_dup=0.1, p_join=0.1, fan=(1, 2), ntr=(1, 2)),
    "commands": dict(n=(2, 6), p_back=0.1, p_cmd=0.5, p_dup=0.1, p_join=0.3, fan=(1, 3), ntr=(1, 3)),
    "mixed": dict(n=(3, 9), p_back=0.15, p_cmd=0.15, p_dup=0.2, p_join=0.35, fan=(1, 3), ntr=(0, 3)),
}
FAMILY_ORDER = ["fan", "nested_splits", "dups", "cycles", "commands", "mixed", "diamonds"]


# ------------------------------------------------------------------------ generators

def _do_value(rng, targets):
    """A `do` member in one of the accepted spellings."""
    if len(set(targets)) != len(targets) or rng.random() < 0.3:
        return ", ".join(targets) if rng.random() < 0.7 else ",".join(targets)
    if len(targets) == 1 and rng.random() < 0.5:
        return targets[0]
    return list(targets)


def gen_random(rng, fam):
    n = rng.randint(*fam["n"])
    names = rng.sample(NAME_POOL, n)          # rank order: names[0] is the entry
    tasks = {}
    inbound = {t: 0 for t in names}
    for i, t in enumerate(names):
        trs = []
        for _ in range(rng.randint(*fam["ntr"])):
            tr = {}
            w = rng.choice(WHENS)
            if w:
                tr["when"] = w
            targets = []
            for _ in range(rng.randint(*fam["fan"])):
                r = rng.random()
                if r < fam["p_cmd"]:
                    targets.append(rng.choice(COMMANDS))
                elif r < fam["p_cmd"] + fam["p_back"] and i > 0:
                    targets.append(rng.choice(names[1:i + 1]))
                elif i + 1 < n:
                    targets.append(rng.choice(names[i + 1:min(n, i + 4)]))
            if rng.random() < fam["p_dup"] and targets:
                targets.append(rng.choice(targets))
            else:
                targets = list(dict.fromkeys(targets))
            if targets:
                tr["do"] = _do_value(rng, targets)
            elif rng.random() < 0.5:
                tr["publish"] = [{"y": 1}]
            elif "when" in tr and rng.random() < 0.7:
                pass        # a bare condition: the target defaults to the engine command continue
            else:
                continue
            trs.append(tr)
            if rng.random() < fam["p_dup"]:
                dup = copy.deepcopy(tr)
                if rng.random() < 0.5:
                    dup.pop("when", None)
                    w2 = rng.choice(WHENS)
                    if w2:
                        dup["when"] = w2
                trs.insert(rng.randint(0, len(trs)), dup)
        ts = {"action": "core.noop"}
        if trs:
            ts["next"] = trs
        tasks[t] = ts
    # make every task reachable from the entry now and then
    if rng.random() < 0.7:
        for i in range(1, n):
            if not any(names[i] in _targets(tr) for t in names for tr in tasks[t].get("next", [])):
                src = names[rng.randint(0, i - 1)]
                tasks[src].setdefault("next", []).append({"do": names[i]})
    for t in names:
        for tr in tasks[t].get("next", []):
            for d in _targets(tr):
                if d in inbound:
                    inbound[d] += 1
    for t in names:
        if inbound[t] >= 2 and rng.random() < fam["p_join"]:
            tasks[t]["join"] = "all" if rng.random() < 0.6 else rng.randint(0, inbound[t] + 1)
        if rng.random() < 0.15:
            r = {"count": rng.choice([1, 2, "<% ctx().x %>"])}
            if rng.random() < 0.5:
                r["when"] = rng.choice(WHENS[1:])
            if rng.random() < 0.4:
                r["delay"] = rng.choice([1, 5])
            tasks[t]["retry"] = r
    return _finish(rng, names, tasks)


def gen_diamonds(rng):
    """Chains of fan-out/fan-in stages whose merge points are joins or plain (split) tasks, with cross
    links between stages and a tail shared by several branches: the shapes the split tracking prunes."""
    names = list(NAME_POOL)
    rng.shuffle(names)
    it = iter(names)
    tasks = {}

    def new():
        t = next(it)
        tasks[t] = {"action": "core.noop"}
        return t

    def link(s, d, when=None):
        tr = {"do": d}
        if when:
            tr["when"] = when
        tasks[s].setdefault("next", []).append(tr)

    head = new()
    order = [head]
    cur = [head]
    stages = rng.randint(1, 3)
    merges = []
    njoin = 0
    for _ in range(stages):
        width = rng.randint(2, 3)
        branch = []
        for _ in range(width):
            if len(tasks) >= 9:
                break
            b = new()
            order.append(b)
            branch.append(b)
            for c in cur:
                link(c, b, rng.choice(WHENS))
        if not branch:
            break
        m = new()
        order.append(m)
        for b in branch:
            link(b, m, rng.choice(WHENS))
        if rng.random() < 0.4 and njoin < 2:
            njoin += 1
            tasks[m]["join"] = "all" if rng.random() < 0.5 else rng.randint(0, len(branch))
        merges.append(m)
        cur = [m] if rng.random() < 0.7 else [m, rng.choice(branch)]
    # cross links and a shared tail
    for _ in range(rng.randint(0, 3)):
        i = rng.randint(0, len(order) - 2)
        j = rng.randint(i + 1, len(order) - 1)
        link(order[i], order[j], rng.choice(WHENS))
    if len(tasks) < 11 and rng.random() < 0.6:
        t = new()
        order.append(t)
        for s in rng.sample(order[:-1], min(len(order) - 1, rng.randint(1, 3))):
            link(s, t)
        if rng.random() < 0.3:
            link(t, rng.choice(["noop", "fail"]))
    if rng.random() < 0.2 and merges:
        link(merges[-1], rng.choice(order[1:]), "<% failed() %>")   # a loop back
    return _finish(rng, order, tasks)


def _finish(rng, names, tasks):
    decl = list(names)
    rng.shuffle(decl)
    return {"version": 1.0, "input": [{"x": 0}], "tasks": {t: tasks[t] for t in decl}}


def gen_definition(rng, family):
    if family == "diamonds":
        return gen_diamonds(rng)
    return gen_random(rng, FAMILIES[family])


# -------------------------------------------------- reading the definition independently

def _targets(tr):
    do = tr.get("do")
    if not do:
        return ["continue"]
    if isinstance(do, str):
        return [x.strip() for x in do.split(",")]
    return list(do)


def reference(definition):
    """The graph the property promises, straight from the definition dict: reachable tasks, one edge per
    (task, transition, target) triple, keys numbering the transitions between a pair by position."""
    tasks = definition["tasks"]
    triples = {}
    for t, ts in tasks.items():
        lst = []
        for idx, tr in enumerate(ts.get("next") or []):
            for d in _targets(tr):
                lst.append((d, tr.get("when") or None, idx))
        triples[t] = lst
    inbound = {t: 0 for t in tasks}
    for t, lst in triples.items():
        for d, _, _ in lst:
            if d in inbound:
                inbound[d] += 1
    starts = sorted(t for t in tasks if inbound[t] == 0)
    reach, todo = [], list(starts)
    while todo:
        t = todo.pop()
        if t in reach:
            continue
        reach.append(t)
        for d, _, _ in triples.get(t, []):
            if d != "retry" and d not in reach:
                todo.append(d)
    edges = set()
    for t in reach:
        per_dst = {}
        for d, w, idx in triples.get(t, []):
            if d == "retry":
                continue
            lst = per_dst.setdefault(d, [])
            if idx not in lst:
                lst.append(idx)
        for d, idxs in per_dst.items():
            for key, idx in enumerate(sorted(idxs)):
                w = (tasks[t]["next"][idx].get("when") or None)
                edges.add((t, d, key, idx, (w,) if w else ()))
    attrs = {}
    for t in reach:
        ts = tasks.get(t, {})
        j = ts.get("join")
        barrier = None if j is None else ("*" if j == "all" else j)
        retry = None
        if ts.get("retry"):
            r = ts["retry"]
            retry = {"when": r.get("when"), "count": r.get("count"), "delay": r.get("delay")}
        cmds = [(idx, w) for d, w, idx in triples.get(t, []) if d == "retry"]
        if cmds:
            retry = {"when": cmds[-1][1] or "<% completed() %>", "count": 3}
        attrs[t] = {"barrier": barrier, "retry": retry}
    return {"nodes": set(reach), "edges": edges, "attrs": attrs, "roots": starts}


def edge_tuple(e):
    return (e[0], e[1], e[2], e[3].get("ref"), tuple(e[3].get("criteria") or []))


def permuted(definition, order):
    d = copy.deepcopy(definition)
    d["tasks"] = {t: d["tasks"][t] for t in order}
    return d


def compose_real(definition):
    spec = native_specs.WorkflowSpec(copy.deepcopy(definition))
    return spec, native_comp.WorkflowComposer.compose(spec)


def monitor(definition, rng, all_perms_upto=0):
    """Checks (ii), (iii), (iv) on the real composer.  Returns (violations, spec, graph)."""
    vs = []
    spec, g = compose_real(definition)
    ng = engine.to_json(engine.norm_graph(g))
    ref = reference(definition)
    # (ii) reference construction
    nodes = [n["id"] for n in ng["nodes"]]
    if len(set(nodes)) != len(nodes) or set(nodes) != ref["nodes"]:
        vs.append({"what": "composed tasks differ from the tasks reachable from the start tasks",
                   "kind": "reference", "missing": sorted(ref["nodes"] - set(nodes)),
                   "extra": sorted(set(nodes) - ref["nodes"])})
    real_edges = [(e["src"], e["dst"], e["key"], e["ref"], tuple(e["criteria"])) for e in ng["edges"]]
    if len(set(real_edges)) != len(real_edges) or set(real_edges) != ref["edges"]:
        vs.append({"what": "composed edges differ from one edge per (task, transition, target) triple",
                   "kind": "reference",
                   "missing": sorted(map(list, ref["edges"] - set(real_edges)), key=str)[:10],
                   "extra": sorted(map(list, set(real_edges) - ref["edges"]), key=str)[:10]})
    for n in ng["nodes"]:
        want = ref["attrs"].get(n["id"])
        if want is not None and (n["barrier"] != want["barrier"] or n["retry"] != want["retry"]):
            vs.append({"what": "barrier/retry attribute not where join/retry is declared", "kind": "reference",
                       "task": n["id"], "got": {"barrier": n["barrier"], "retry": n["retry"]}, "want": want})
    if [r["id"] for r in g.roots] != ref["roots"]:
        vs.append({"what": "roots are not the tasks nothing transitions into", "kind": "reference",
                   "got": [r["id"] for r in g.roots], "want": ref["roots"]})
    for n in nodes:     # the composer asks the spec, the conductor asks the graph
        if bool(g.in_cycle(n)) != bool(spec.tasks.in_cycle(n)):
            vs.append({"what": "spec.tasks.in_cycle and graph.in_cycle disagree on a composed task",
                       "kind": "reference", "task": n})
            break
    cg = conducting.WorkflowConductor(native_specs.WorkflowSpec(copy.deepcopy(definition))).graph
    ser = g.serialize()
    if engine.dumps_sorted(cg.serialize()) != engine.dumps_sorted(ser):
        vs.append({"what": "WorkflowConductor(spec).graph differs from WorkflowComposer.compose(spec)",
                   "kind": "reference"})
    # (iii) declaration order
    names = list(definition["tasks"].keys())
    if len(names) <= all_perms_upto:
        orders = [list(p) for p in itertools.permutations(names)]
    else:
        orders = []
        for _ in range(3):
            o = list(names)
            rng.shuffle(o)
            orders.append(o)
        orders.append(list(reversed(names)))
    for o in orders:
        _, g2 = compose_real(permuted(definition, o))
        if json.dumps(g2.serialize(), sort_keys=False) != json.dumps(ser, sort_keys=False):
            vs.append({"what": "composed graph depends on the declaration order of the tasks",
                       "kind": "order", "order": o,
                       "diff": list(engine.first_difference(engine.to_json(ser), engine.to_json(g2.serialize())))})
            break
    # (iv) persistence
    try:
        g3 = graphing.WorkflowGraph.deserialize(ser)
        g3.serialize()
    except Exception as e:
        vs.append({"what": "deserialize(serialize()) of the composed graph raised", "kind": "persist",
                   "raised": "%s: %s" % (type(e).__name__, e)})
        g.prev_order_changed = False
        return vs, spec, g
    if json.dumps(g3.serialize()) != json.dumps(ser):
        vs.append({"what": "serialize -> deserialize -> serialize changes the graph", "kind": "persist",
                   "diff": list(engine.first_difference(engine.to_json(ser), engine.to_json(g3.serialize())))})
    prev_order_changed = False
    for n in nodes:
        p3 = [edge_tuple(e) for e in g3.get_prev_transitions(n)]
        p1 = [edge_tuple(e) for e in g.get_prev_transitions(n)]
        if p3 != p1:
            prev_order_changed = True    # in_edges order = edge insertion order; not an identity, see report
        if ([edge_tuple(e) for e in g3.get_next_transitions(n)] != [edge_tuple(e) for e in g.get_next_transitions(n)]
                or sorted(p3) != sorted(p1) or g3.get_task(n) != g.get_task(n)):
            vs.append({"what": "restored graph answers get_next/prev_transitions or get_task differently "
                               "(parallel-edge keys or attributes changed)", "kind": "persist", "task": n})
            break
    if engine.to_json(engine.norm_graph(g3)) != ng:
        vs.append({"what": "restored graph iterates nodes/edges differently from the composed graph",
                   "kind": "persist"})
    g.prev_order_changed = prev_order_changed
    return vs, spec, g


# ---------------------------------------------------------------- printing Coq terms

def cstr(s):
    if not all(32 <= ord(c) < 127 for c in s):
        raise ValueError("non printable-ASCII string in a case: %r" % (s,))
    return '"' + s.replace('"', '""') + '"'


def cjson(v):
    if v is None:
        return "JNull"
    if v is True:
        return "(JBool true)"
    if v is False:
        return "(JBool false)"
    if isinstance(v, int):
        return "(JInt (%d)%%Z)" % v
    if isinstance(v, float):
        return "(JFloat %s)" % cstr(v.hex())
    if isinstance(v, str):
        return "(JStr %s)" % cstr(v)
    if isinstance(v, list):
        return "(JList [%s])" % "; ".join(cjson(x) for x in v)
    if isinstance(v, dict):
        return "(JDict [%s])" % "; ".join("(%s, %s)" % (cstr(k), cjson(x)) for k, x in v.items())
    raise ValueError("not JSON: %r" % (v,))


def clist(items):
    return "[%s]" % "; ".join(items)


def cspec(ns):
    def pairs(l):
        return clist("(%s, %s)" % (cstr(k), cjson(v)) for k, v in l)

    def tr(t):
        return "(TR %s %s %s)" % (cjson(t["when"]), pairs(t["publish"]), clist(cstr(d) for d in t["do"]))

    def task(name, t):
        if t["with"] is not None:
            raise ValueError("with-items are not generated for C14")
        return "(%s, TS %s %s %s %s %s)" % (cstr(name), cjson(t["action"]), cjson(t["input"]), cjson(t["delay"]),
                                            cjson(t["join"]), clist(tr(x) for x in t["next"]))

    return "(WF %s %s %s %s)" % (pairs(ns["input"]), pairs(ns["vars"]), pairs(ns["output"]),
                                 clist(task(n, t) for n, t in ns["tasks"]))


def cnode(n):
    sp = "None" if n["splits"] is None else "(Some %s)" % clist(cstr(s) for s in n["splits"])
    return "(GN %s %s %s %s)" % (cstr(n["id"]), cjson(n["barrier"]), sp, cjson(n["retry"]))


def cedge(e):
    return "(GE %s %s %d %d %s)" % (cstr(e["src"]), cstr(e["dst"]), e["key"], e["ref"],
                                    clist(cjson(c) for c in e["criteria"]))


def cbool(b):
    return "true" if b else "false"


HEADER = """From Coq Require Import String List Bool ZArith.
From Orq Require Import Base State Composer.
Import ListNotations.
Open Scope string_scope.
Definition TR w p d := {| tr_when := w; tr_publish := p; tr_do := d |}.
Definition TS a i dl j nx := {| ts_action := a; ts_input := i; ts_with := None; ts_delay := dl; ts_join := j; ts_next := nx |}.
Definition WF i v o t := {| wf_input := i; wf_vars := v; wf_output := o; wf_tasks := t |}.
Definition GN i b s r := {| n_id := i; n_barrier := b; n_splits := s; n_retry := r |}.
Definition GE s d k r c := {| e_src := s; e_dst := d; e_key := k; e_ref := r; e_criteria := c |}.
Definition stats sp rt fuel := match compose_work sp rt fuel with
  | Val w => (length (w_done w), length (w_nodes w), length (w_edges w)) | Exc _ => (0, 0, 0) end.
"""

CODES = {1: "model ran out of fuel", 2: "model raised", 3: "nodes (order or attributes) differ",
         4: "edges (src, dst, key, ref, criteria, order) differ", 5: "get_next_transitions differs",
         6: "roots differ", 7: "graph in_cycle differs", 8: "spec in_cycle / is_split_task differs",
         9: "typed deserialize(serialize(g)) differs from g", -1: "coqc gave no answer"}


def retry_table(spec):
    rt = []
    for name in spec.tasks.keys():
        ts = spec.tasks.get_task(name)
        if ts.has_retry():
            rt.append((name, {"when": getattr(ts.retry, "when", None), "count": getattr(ts.retry, "count", None),
                              "delay": getattr(ts.retry, "delay", None)}))
    return rt


def coq_commands(spec, g):
    """The two vernacular commands that evaluate the model on this case against the real graph."""
    ns = engine.to_json(engine.norm_spec(spec))
    ng = engine.to_json(engine.norm_graph(g))
    rt = engine.to_json(retry_table(spec))
    nodes = [n["id"] for n in ng["nodes"]]
    nxt = []
    for n in nodes:
        es = [{"src": e[0], "dst": e[1], "key": e[2], "ref": e[3].get("ref"), "criteria": e[3].get("criteria") or []}
              for e in g.get_next_transitions(n)]
        nxt.append("(%s, %s)" % (cstr(n), clist(cedge(engine.to_json(e)) for e in es)))
    roots = clist(cstr(r["id"]) for r in g.roots)
    cyc = clist("(%s, %s)" % (cstr(n), cbool(bool(g.in_cycle(n)))) for n in nodes)
    names = list(spec.tasks.keys()) + [c for c in COMMANDS if c in nodes]
    scyc = clist("(%s, %s, %s)" % (cstr(n), cbool(spec.tasks.in_cycle(n)), cbool(spec.tasks.is_split_task(n)))
                 for n in names)
    sp = cspec(ns)
    rtt = clist("(%s, %s)" % (cstr(k), cjson(v)) for k, v in rt)
    graph = "{| g_nodes := %s; g_edges := %s |}" % (clist(cnode(n) for n in ng["nodes"]),
                                                    clist(cedge(e) for e in ng["edges"]))
    return ("Eval vm_compute in (check_case %s %s %s %s %s %s %s %s).\nEval vm_compute in (stats %s %s %s).\n"
            % (sp, rtt, FUEL, graph, clist(nxt), roots, cyc, scyc, sp, rtt, FUEL))


def run_coq(chunks, procs=16):
    """chunks: list of lists of command texts.  Returns per chunk a list of (code, stats) per case."""
    tmp = tempfile.mkdtemp(prefix="c14_")
    try:
        files = []
        for i, cmds in enumerate(chunks):
            p = os.path.join(tmp, "cases_%d.v" % i)
            with open(p, "w") as f:
                f.write(HEADER)
                f.write("".join(cmds))
            files.append(p)
        running, results = [], [None] * len(files)

        def reap(block):
            for item in list(running):
                i, proc = item
                if block or proc.poll() is not None:
                    try:
                        out, _ = proc.communicate(timeout=900)
                    except subprocess.TimeoutExpired:
                        proc.kill()
                        out = ""
                    results[i] = out
                    running.remove(item)
                    if block:
                        return

        for i, p in enumerate(files):
            while len(running) >= procs:
                reap(False)
                if len(running) >= procs:
                    time.sleep(0.05)
            running.append((i, subprocess.Popen(
                ["coqc", "-Q", COQ + "/gen", "Orq", "-Q", COQ + "/model", "Orq", p],
                cwd=tmp, stdout=subprocess.PIPE, stderr=subprocess.STDOUT, text=True)))
        while running:
            reap(True)
        parsed = []
        for i, out in enumerate(results):
            vals = re.findall(r"=\s*(\d+)\s*:\s*nat|=\s*\((\d+),\s*(\d+),\s*(\d+)\)", out or "")
            res = []
            k = 0
            for _ in chunks[i]:
                if k + 1 < len(vals) and vals[k][0] != "" and vals[k + 1][1] != "":
                    res.append((int(vals[k][0]), tuple(int(x) for x in vals[k + 1][1:])))
                else:
                    res.append((-1, (0, 0, 0)))
                k += 2
            if any(r[0] == -1 for r in res):
                res = [(r[0], r[1], (out or "")[-1500:]) if r[0] == -1 else r for r in res]
            parsed.append(res)
        return parsed
    finally:
        shutil.rmtree(tmp, ignore_errors=True)


# ------------------------------------------------------------------------ the run

def features(definition, spec, g):
    ng = engine.norm_graph(g)
    pairs = {}
    for e in ng["edges"]:
        pairs[(e["src"], e["dst"])] = pairs.get((e["src"], e["dst"]), 0) + 1
    inb = {}
    for e in ng["edges"]:
        inb[e["dst"]] = inb.get(e["dst"], 0) + 1
    names = list(definition["tasks"].keys())
    f = {
        "fan_in": any(v >= 2 for v in inb.values()),
        "parallel_edges": any(v >= 2 for v in pairs.values()),
        "cycle": any(spec.tasks.in_cycle(t) for t in names),
        "command": any(n["id"] in COMMANDS for n in ng["nodes"]),
        "retry_command": any(n["retry"] is not None and "delay" not in n["retry"] for n in ng["nodes"]),
        "retry_spec": any(n["retry"] is not None and "delay" in n["retry"] for n in ng["nodes"]),
        "join": any(n["barrier"] is not None for n in ng["nodes"]),
        "split_task": any(spec.tasks.is_split_task(n["id"]) for n in ng["nodes"]),
        "nested_splits": any(n["splits"] and len(n["splits"]) >= 2 for n in ng["nodes"]),
        "unreachable_declared": len(ng["nodes"]) < len(names),
        "deduplicated_triple": False,
        "prev_transitions_reordered_by_restore": bool(getattr(g, "prev_order_changed", False)),
    }
    ntrip = 0
    for t in [n["id"] for n in ng["nodes"]]:
        if t in definition["tasks"]:
            for tr in definition["tasks"][t].get("next") or []:
                ntrip += len([d for d in _targets(tr) if d != "retry"])
    f["deduplicated_triple"] = ntrip > len(ng["edges"])
    return f


def _case(args):
    seed, family, all_perms_upto = args
    rng = random.Random(seed)
    out = {"seed": seed, "family": family}
    try:
        definition = None
        for attempt in range(40):
            d = gen_definition(rng, family)
            try:
                spec = native_specs.WorkflowSpec(copy.deepcopy(d))
                if not spec.inspect():
                    definition = d
                    break
            except Exception:
                continue
        out["attempts"] = attempt + 1
        if definition is None:
            out["rejected"] = True
            return out
        out["definition"] = definition
        vs, spec, g = monitor(definition, rng, all_perms_upto)
        out["violations"] = vs
        out["features"] = features(definition, spec, g)
        out["coq"] = coq_commands(spec, g)
        out["size"] = [len(definition["tasks"]), len(g._graph.nodes), g._graph.number_of_edges()]
    except Exception:
        out["error"] = traceback.format_exc()[-2500:]
    return out


def nontrivial(r):
    f = r.get("features") or {}
    return bool(f.get("fan_in") or f.get("parallel_edges") or f.get("cycle"))


def run(ctx):
    tier, seed = ctx["tier"], ctx["seed"]
    n = 420 if tier == "quick" else 16800
    all_perms_upto = 3 if tier == "quick" else 4
    base = (seed * 1000003 + zlib.crc32(b"C14")) % (2 ** 31)
    jobs = [(base + i, FAMILY_ORDER[i % len(FAMILY_ORDER)], all_perms_upto) for i in range(n)]
    with multiprocessing.Pool(16) as pool:
        results = pool.map(_case, jobs, chunksize=2)
    out = {"evaluations": 0, "violations": [], "known_lines": [], "correspondence_broken": None,
           "traces_validated": 0, "search": {}}
    ok = [r for r in results if "definition" in r and "error" not in r]
    out["evaluations"] = len(ok)
    for r in results:
        if "error" in r:
            out["violations"].append({"property": "C14", "what": "harness error while running a case",
                                      "kind": "error", "error": r["error"], "seed": r["seed"],
                                      "family": r["family"], "definition": r.get("definition")})
            break
    for r in ok:
        for v in r["violations"]:
            v = dict(v)
            v.update({"property": "C14", "seed": r["seed"], "family": r["family"], "definition": r["definition"]})
            out["violations"].append(v)
    # (i) the model against the real composer
    mismatches = []
    stats = {"revisits": 0, "max_dequeues": 0}
    if ctx["model_ok"] and os.path.exists(os.path.join(COQ, "model", "Composer.vo")):
        size = 350
        chunks = [ok[i:i + size] for i in range(0, len(ok), size)]
        answers = run_coq([[r["coq"] for r in ch] for ch in chunks])
        starved = [(ci, ri) for ci, ans in enumerate(answers) for ri, a in enumerate(ans) if a[0] == 1]
        if starved:     # the model needs more than FUEL dequeues: ask again with a tenfold bound
            again = run_coq([[chunks[ci][ri]["coq"].replace(FUEL, BIG_FUEL)] for ci, ri in starved])
            for (ci, ri), a in zip(starved, again):
                answers[ci][ri] = a[0]
            stats["refuelled"] = len(starved)
        for ch, ans in zip(chunks, answers):
            for r, a in zip(ch, ans):
                out["traces_validated"] += 1
                code, st = a[0], a[1]
                r["dequeues"] = st[0]
                if st[0] > st[1]:
                    stats["revisits"] += 1
                stats["max_dequeues"] = max(stats["max_dequeues"], st[0])
                if code != 0:
                    mismatches.append({"seed": r["seed"], "family": r["family"], "definition": r["definition"],
                                       "code": code, "meaning": CODES.get(code, "?"),
                                       "coqc_tail": a[2] if len(a) > 2 else None})
    else:
        out["correspondence_broken"] = {"reason": "coq/model/Composer.vo is not built; the model was not compared"}
    if mismatches:
        out["correspondence_broken"] = {"cases_diverging": len(mismatches), "first": mismatches[0]}
        out["search"] = {"note": "the reference-construction monitor ran on all %d cases" % len(ok),
                         "found": len([v for v in out["violations"] if v.get("kind") != "error"])}
    elif not ctx["proof_ok"]:
        out["search"] = {"note": "proofs broken; the reference-construction monitor ran on all %d cases" % len(ok),
                         "found": len(out["violations"])}
    dist = {"family": {}, "features": {}, "tasks": {}, "rejected_draws": sum(r.get("attempts", 1) - 1 for r in results),
            "gave_up": sum(1 for r in results if r.get("rejected")), "model": stats}
    nt = set()
    for r in ok:
        dist["family"][r["family"]] = dist["family"].get(r["family"], 0) + 1
        dist["tasks"][str(r["size"][0])] = dist["tasks"].get(str(r["size"][0]), 0) + 1
        for k, v in r["features"].items():
            if v:
                dist["features"][k] = dist["features"].get(k, 0) + 1
        if nontrivial(r):
            nt.add(engine.dumps_sorted(r["definition"]))
    out["distinct_nontrivial"] = len(nt)
    out["distribution"] = dist
    out["rule"] = ("definitions drawn from 7 shape families (fan-out/fan-in, nested and mixed splits, duplicate "
                   "transitions between a pair, cycles, engine commands incl. retry, mixed, diamond chains with "
                   "cross links), names from a pool whose sort order differs from declaration order, joins all/N, "
                   "retry specs; kept only when WorkflowSpec(dict).inspect() reports nothing; each is composed by the "
                   "real composer, compared with the Coq compose (vm_compute), with the reference construction, under "
                   "permutations of the task order (all permutations up to %d tasks, else 3 random + reversed) "
                   "and through serialize/deserialize.  Non-trivial = the composed graph has a fan-in, parallel edges "
                   "or a cycle; distinct = distinct definition dicts" % all_perms_upto)
    out["samples"] = [{"seed": r["seed"], "family": r["family"], "definition": r["definition"],
                       "dequeues_in_model": r.get("dequeues")} for r in ok[:3]]
    return out


def replay(payload):
    if "definition" not in payload:
        print("replay file names a broken obligation, not a concrete input:")
        print(json.dumps(payload, indent=1)[:3000])
        return 1
    rng = random.Random(payload.get("seed", 0))
    vs, spec, g = monitor(payload["definition"], rng, 5)
    for v in vs:
        print("violation reproduced:", json.dumps(v, default=str)[:800])
    if os.path.exists(os.path.join(COQ, "model", "Composer.vo")):
        ans = run_coq([[coq_commands(spec, g)]], procs=1)[0][0]
        if ans[0] != 0:
            print("model and composer disagree: %s" % CODES.get(ans[0], ans[0]))
            vs.append(ans)
    if not vs:
        print("no violation on replay")
    return 1 if vs else 0
