"""C15 -- Accepted definitions are executable; broken references are reported.

 (i)  Completeness / soundness of inspection by fault injection.  Base definitions (harness.progs generator,
      the graph shapes of harness.props.c14 and small hand shapes with islands) and, for each, the single-fault
      mutants at EVERY injectable position:
        renamed target (undefined task), renamed declaration (every reference dangles), task named like an engine
        command, every start task closed into a cycle (no start task), an expression with broken grammar and a
        reference to an unassigned variable in every documented form at every inspected position (input default,
        vars, output, task delay / with items / with concurrency / action / input / retry when,count,delay,
        transition when / publish), and a reference to a variable that only a non-upstream transition publishes.
      The real WorkflowSpec(def).inspect() must report the injected fault (category and spec_path of the position):
      a silently accepted fault is a violation.  For every definition (base or mutant) the semantic entries are also
      compared with an independent reading of the definition dict (reachable undefined targets as a multiset,
      reserved names, missing start task, with-items without action), both ways (nothing missing, nothing spurious).
 (ii) Model correspondence: the Coq detectors of coq/model/Inspect.v (inspect_semantics in detector order, its
      sort as inspect() lists it, and the context tracking on top of the extract_vars oracle) are evaluated with
      coqc + vm_compute on the normalised spec and must agree with the real entries on (spec_path, kind, name).
 (iii) Accepted => executable: every base definition with inspect() == {} is composed and conducted under a random
      protocol-conformant history (provider.Session, lock step with the extracted conductor model); an exception
      escaping a conformant call other than the documented refusals is a violation, unless the trigger of a known
      finding that lists C15 in known_findings.json fires (harness.findings.TRIGGERS) or the case is exactly one of
      the confirmed candidates in KNOWN_CANDIDATES below (each with an exact predicate and a minimal reproducer in
      its docstring); those are printed as KNOWN-FINDING lines with their counts.
 A definition on which inspect() itself raises is a violation (found by this check and since fixed in /repo:
 tasks.in_cycle raised KeyError on an undefined task behind a multi-referenced task).
"""
import collections
import collections.abc  # noqa: F401
import copy
import json
import multiprocessing
import os
import random
import re
import shutil
import subprocess
import tempfile
import time
import traceback
import zlib

from harness import engine, findings, progs, provider
from harness.props import c14 as c14mod
from harness.props import common

from orquesta.composers import native as native_comp  # noqa: E402
from orquesta.expressions import base as expr_base  # noqa: E402
from orquesta.specs import native as native_specs  # noqa: E402
from orquesta.utils import parameters as args_util  # noqa: E402

THEOREMS = [
    {"name": "C15_undefined_sound", "strength": "F",
     "text": "detect_undefined_tasks sp fuel = Val l -> every entry of l is SE_undefined t i d with t reachable from a "
             "start task (C14's reach), d a target of transition i of t, d neither a declared task nor an engine command"},
    {"name": "C15_undefined_reported", "strength": "F",
     "text": "detect_undefined_tasks sp fuel = Val l -> reach sp t -> (d, w, i) a triple of t -> d not declared and not "
             "an engine command -> SE_undefined t i d in l, spec_path tasks.<t>.next[<i>].do (conditional on Val; no "
             "hypothesis on the names)"},
    {"name": "C15_undefined_total", "strength": "F",
     "text": "task names unique -> number of declared tasks <= fuel -> detect_undefined_tasks sp fuel returns Val: no "
             "KeyError, the fuel suffices (every task is dequeued at most once)"},
    {"name": "C15_inspect_reports_undefined", "strength": "F",
     "text": "inspect_semantics sp fuel = Val l (all detectors) -> l contains the entry of every reachable transition to "
             "an undefined task, and the list inspect() shows (sorted by schema path, spec path) is a permutation of l"},
    {"name": "C15_reserved_reported", "strength": "F",
     "text": "e in detect_reserved_names sp <-> e = SE_reserved t with t declared and t an engine command"},
    {"name": "C15_no_start_reported", "strength": "F",
     "text": "SE_no_start in detect_start_tasks sp <-> task list non-empty and every declared task has an inbound "
             "transition; the detector reports nothing else"},
    {"name": "C15_actionless_items_reported", "strength": "F",
     "text": "e in detect_actionless_with_items sp <-> e = SE_actionless t for a declaration (t, ts) with with-items and a "
             "falsy action"},
    {"name": "C15_semantics_accepted", "strength": "F",
     "text": "inspect_semantics sp fuel = Val [] -> no declared task is named like a command, a start task exists (or "
             "there is no task), every target of every reachable task is a command or declared, every with-items task "
             "has an action"},
    {"name": "C15_context_straight_line_partial / C15_context_assigned_partial", "strength": "P",
     "text": "for ONE spec object with plain properties (workflow input/vars/output, the properties of a task, of a "
             "with/retry spec, of a transition) and an incoming context: 'x referenced before assignment' is reported at "
             "path q <-> a position with path q references x, x is not in the incoming context and no earlier position of "
             "an assigning property assigns x; the context handed on = incoming + assigned.  PARTIAL: the worklist of "
             "TaskMappingSpec.inspect_context over the task graph (which contexts reach a task) is modelled and compared "
             "with the implementation but not characterised by a theorem; the references of a position are an oracle"},
    {"name": "C15_positions_covered", "strength": "F",
     "text": "facts about the reflected spec metadata (regenerated from /repo on every run): the evaluation sequences are "
             "exactly [input, vars, tasks, output], [delay, with, action, input, retry, next], [items, concurrency], "
             "[when, count, delay], [when, publish, do]; input/vars/output and publish assign; the engine commands are the "
             "four reserved names"},
    {"name": "C15_accepted_composes", "strength": "F",
     "text": "task names unique -> inspect_semantics sp fuel = Val [] -> the only failure of compose sp rt f is the fuel "
             "of its worklist (no KeyError, no in_cycle fuel error): C14's theorem re-proved with 'targets of REACHABLE "
             "tasks defined', which is what acceptance gives"},
    {"name": "C15_no_evaluation_failure_escapes", "strength": "F",
     "text": "C11's containment restated: no expression-evaluation failure escapes any conductor API call, for every "
             "definition, evaluator, state and operation"},
    {"name": "C15_no_internal_error / C15_no_internal_error_history (props/C15b.v)", "strength": "P",
     "text": "for every evaluator that itself raises no internal class: from a well-formed state (WF, decidable; the fresh "
             "state is WF, C15_fresh_state_wellformed) over a statically well-formed spec/graph (static_ok, decidable), every "
             "API operation in scope keeps WF and raises no KeyError / IndexError / TypeError / ValueError / AttributeError -- "
             "only the documented refusals; lifted to histories. In scope: status requests, polls, rendering, persist, and "
             "provider events that are not malformed calls; the five malformed-call clauses (event for an engine command, "
             "item index out of range, plain event on an unoffered with-items task, completion before start, abend of an "
             "unstaged with-items task) each come with an Example showing the engine's internal error. NOT in scope: rerun "
             "(findings D8, C15-rerun-of-inflight-task break the invariant); static_ok also demands at most one edge from "
             "a task to an engine command (a limit of the proof, not of the engine). This proof attempt found D29 and, "
             "independently of the sweep, D30"},
    {"name": "C15_get_next_tasks_no_internal / C15_request_status_no_internal / C15_render_output_no_internal", "strength": "F",
     "text": "these three operations raise no internal class in any state (render: any WF state)"},
    {"name": "(tested, not proved) grammar and unassigned-variable faults reported; no internal error with reruns",
     "strength": "T",
     "text": "grammar validation and the regex extraction of variable references are oracles, tested by fault injection "
             "at every inspected position; the unreachable-join detector and the context worklist are modelled and "
             "compared, without theorems; accepted definitions are run under random histories (reruns included) in lock "
             "step with the conductor model"},
]
TRUSTED_BASE = [
    "Coq 8.16.1 kernel via coqc (full .vo build); vm_compute in the examples and in the generated cases files; no "
    "native_compute; no Axiom/Parameter/Admitted (grep by ./check)",
    "the printer of the normalised spec / context oracle / expected entries as Coq terms in harness/props/c15.py and "
    "the parser of coqc's output (trusted for detection only: the expected entries are printed from the real "
    "inspect(), so a wrong print shows up as a mismatch, not as agreement)",
    "harness/engine.py norm_spec (what is read from the spec objects)",
    "oracles (not modelled): jsonschema validation, YAQL / Jinja grammar validation, the regex extraction of "
    "variable references (expr_base.extract_vars, evaluator._regex_var_extracts), parse_inline_params; the harness "
    "reads the positions of a property value the way Spec.inspect_context does and hands the model the extracted names",
    "modelled-not-verified: orquesta/specs/native/v1/models.py detectors and TaskMappingSpec.inspect_context, "
    "specs/base.py Spec.inspect_context / inspect ordering; tied by the comparison on generated definitions and mutants",
    "the independent reference reading of the definition dict (reachability, undefined targets, reserved names, "
    "start tasks) in harness/props/c15.py",
    "provider protocol harness/provider.py + history generator harness/progs.py for the accepted => executable part",
]
ASSUMPTIONS = [
    "theorems are about the Gallina model coq/model/Inspect.v; C15_undefined_reported / _sound are conditional on the "
    "detector returning Val, C15_undefined_total shows it does for unique task names and fuel > number of tasks; the "
    "tie to /repo is the comparison of the entries on generated definitions and their mutants",
    "names and expressions are printable ASCII, so Python's code-point order equals Coq's String.leb byte order",
    "'accepted => executable' is tested on generated accepted definitions under random conformant histories, not "
    "proved; only 'evaluation failures never escape' (C11) and 'compose fails only by fuel' (C14) are proved",
    "an unterminated delimiter ('<% ctx().x', '{{ 1 +') is by the evaluators' definition a literal string, not an "
    "expression, and is not counted as a grammar fault",
]

COQ = os.path.join(engine.VERIF, "coq")
FUEL = "(40 * 50)"
BIG_FUEL = "(400 * 50)"
COMMANDS = ("continue", "fail", "noop", "retry")

BROKEN = ["<% 1 +/ %>", "{{ 1 +/ }}", "<% (1 + 2 %>", "{{ (1 + 2 }}", "{% if 1 %}x"]
FORMS = ["<% ctx().nope %>", "<% ctx(nope) %>", "<% ctx('nope') %>", "{{ ctx().nope }}", "{{ ctx('nope') }}",
         '<% ctx("nope") %>', '{{ ctx("nope") }}']
LATE = "zz_late"
NAMES = ["nope", "4th", "nope", "_x9", "nope", "X", "9"]

# known candidates: confirmed cases in which an accepted definition raises an internal error under a conformant
# history.  id -> predicate(violation dict); exactly those are reported as known.  (Violations after the trigger
# of a known finding that lists C15 in known_findings.json -- D1, D8, D21, D24, D25 -- are attributed to that finding
# through harness.findings.TRIGGERS, as in harness/props/common.py.)
def _kc_rerun_inflight(v):
    """a rerun request naming an execution whose action is still in flight is accepted (not refused): the new
    record has no status, and the report of the in-flight action then raises KeyError('status').
    Reproducer: a: {action: core.noop, next: [{when: <% failed() %>, do: b}]}, b; boot, poll (a running),
    request failed, rerun [(a, 0)], report a failed -> KeyError at conducting.update_task_state."""
    return (v.get("kind") == "internal-error" and (v.get("raised") or [None])[0] == "KeyError"
            and bool(v.get("rerun_of_active_execution")) and bool(v.get("record_without_status")))


def _kc_items_after_reset(v):
    """a with-items task was re-staged (retry) while one of its items was still in flight: the staged entry has
    no item table and the late item report raises KeyError('items').
    Reproducer: w: {with: {items: <% list(1, 2) %>}, action: core.noop, retry: {count: 1, when: <% completed() %>}};
    boot, poll (items 0, 1 running), item 0 abandoned, item 1 pausing, item 1 pending (task becomes retrying, staged
    entry reset), item 1 succeeded -> KeyError('items')."""
    return (v.get("kind") == "internal-error" and (v.get("raised") or [None])[0] == "KeyError"
            and bool(v.get("item_event")) and v.get("staged_entry") is True and v.get("staged_items") is False)


def _kc_restart_unstaged(v):
    """an in-flight action whose record is already completed (it reported canceling/pausing and then paused or
    pending, which the task machine maps to a completed status) reports one of statuses.STARTING_STATUSES
    (requested .. running, pending): the conductor takes it for a new cycle iteration, finds no staged entry and
    raises TypeError.
    Reproducer: a: {action: core.noop}; boot, poll (a running), a canceling, a paused (record canceled, workflow
    canceled), a running -> TypeError ('NoneType' object is not subscriptable)."""
    return (v.get("kind") == "internal-error" and (v.get("raised") or [None])[0] == "TypeError"
            and v.get("pre_status") in ("succeeded", "failed", "timeout", "abandoned", "canceled")
            and v.get("event_status") in ("requested", "scheduled", "delayed", "running", "pending")
            and v.get("staged_entry") is False and v.get("event_task") not in COMMANDS)


# Only what the committed known_findings.json lists is ever reported as known.  The other two predicates describe
# defects that were repaired in /repo (D28 4040f81, D27 a7794e3): they suppress nothing -- if either returns, it is a
# violation again.
_PREDICATES = {
    "C15-rerun-of-inflight-task": _kc_rerun_inflight,
    "C15-item-report-after-retry-reset": _kc_items_after_reset,
    "C15-starting-status-after-completed": _kc_restart_unstaged,
}


def _listed():
    try:
        with open(os.path.join(engine.VERIF, "known_findings.json")) as f:
            return set(k["id"] for k in json.load(f).get("findings", []) if "C15" in k.get("properties", []))
    except Exception:
        return set()


KNOWN_CANDIDATES = {k: v for k, v in _PREDICATES.items() if k in _listed()}

# documented refusals of a conformant call, per operation kind
REFUSALS = {
    "request_status": ("InvalidWorkflowStatusTransition",),
    "rerun": ("WorkflowIsActiveAndNotRerunableError", "InvalidTaskRerunRequest"),
}

EXEC_FAM = progs.family(p_bad=0.0, w_malformed=0.0, p_items=0.25, p_retry=0.25, p_delay=0.15, p_input=0.4,
                        p_loop=0.15, n_tasks=(2, 7), steps=(10, 60), w_ctrl=0.6, w_rerun=0.6, p_late_join=0.15)
GEN_FAM = progs.family(p_bad=0.0, p_items=0.35, p_retry=0.35, p_delay=0.3, p_input=0.5, p_loop=0.15,
                       n_tasks=(2, 6), p_late_join=0.1)


# ------------------------------------------------------------------ base definitions

def gen_island(rng):
    """A small reachable part plus declared tasks that no start task reaches (a cycle island), some of whose
    transitions name undefined tasks: those must NOT be reported (and are not reachable by the reference)."""
    d = c14mod.gen_definition(rng, rng.choice(["fan", "cycles", "mixed"]))
    tasks = d["tasks"]
    tasks["u1"] = {"action": "core.noop", "next": [{"do": ["u2", "zz_ghost"]}]}
    tasks["u2"] = {"action": "core.noop", "next": [{"when": "<% succeeded() %>", "do": "u1"}]}
    if rng.random() < 0.5:
        tasks["u2"]["next"].append({"do": rng.choice(list(tasks.keys()))})
    return d


def gen_base(rng, family):
    if family == "progs":
        return progs.gen_definition(rng, GEN_FAM)[0]
    if family == "island":
        return gen_island(rng)
    return c14mod.gen_definition(rng, family)


BASE_FAMILIES = ["progs", "progs", "progs", "mixed", "cycles", "commands", "diamonds", "island", "dups", "fan"]


# --------------------------------------------------- reading the definition independently

def _targets(tr):
    """targets of a transition; a transition without `do` continues (names the engine command continue)"""
    do = tr.get("do")
    if not do:
        return ["continue"]
    if isinstance(do, str):
        return [x.strip() for x in do.split(",")]
    return list(do)


def reference(definition):
    """What the property promises, from the definition dict alone."""
    tasks = definition.get("tasks") or {}
    trans = {}
    for t, ts in tasks.items():
        lst = []
        if t not in COMMANDS:       # a task named like a command is shadowed by the command: its body is never read
            for i, tr in enumerate((ts or {}).get("next") or []):
                for d in _targets(tr):
                    lst.append((i, d))
        trans[t] = lst
    inbound = {t: 0 for t in tasks}
    for t, lst in trans.items():
        for _, d in lst:
            if d in inbound:
                inbound[d] += 1
    starts = [t for t in tasks if inbound[t] == 0]
    reach, todo = set(), list(starts)
    while todo:
        t = todo.pop()
        if t in reach:
            continue
        reach.add(t)
        for _, d in trans.get(t, []):
            if d in tasks and d not in COMMANDS and d not in reach:
                todo.append(d)
    undefined = collections.Counter()
    for t in reach:
        for i, d in trans[t]:
            if d not in tasks and d not in COMMANDS:
                undefined[("tasks.%s.next[%d].do" % (t, i), d)] += 1
    desc = {}

    def descendants(t):
        if t not in desc:
            seen, todo2 = set(), [d for _, d in trans.get(t, [])]
            while todo2:
                x = todo2.pop()
                if x in seen or x not in tasks or x in COMMANDS:
                    continue
                seen.add(x)
                todo2.extend(d for _, d in trans.get(x, []))
            desc[t] = seen
        return desc[t]

    return {"starts": sorted(starts), "reach": reach, "undefined": undefined,
            "reserved": sorted(t for t in tasks if t in COMMANDS),
            "no_start": bool(tasks) and not starts,
            "actionless": sorted(t for t, ts in tasks.items()
                                 if (ts or {}).get("with") is not None and not (ts or {}).get("action")),
            "trans": trans, "descendants": descendants}


# ------------------------------------------------------------- the real inspection

def sem_triple(e):
    m = e.get("message") or ""
    q = re.findall(r'"([^"]*)"', m)
    if "is reserved with special function" in m:
        return (e.get("spec_path"), "reserved", q[0] if q else "")
    if m.startswith("Unable to identify any tasks to start"):
        return (e.get("spec_path"), "no_start", "")
    if m.endswith("is not defined."):
        return (e.get("spec_path"), "undefined", q[0] if q else "")
    if "is unreachable" in m:
        return (e.get("spec_path"), "unreachable", q[0] if q else "")
    if m.startswith("The action property is required for with items"):
        return (e.get("spec_path"), "actionless", "")
    return (e.get("spec_path"), "other", m)


def ctx_triple(e):
    m = e.get("message") or ""
    q = re.findall(r'"([^"]*)"', m)
    if m.endswith("is referenced before assignment."):
        return (e.get("spec_path"), "unassigned", q[0] if q else "")
    if "prefixed with double underscores" in m:
        return (e.get("spec_path"), "private", q[0] if q else "")
    return (e.get("spec_path"), "other", m)


def real_inspect(definition):
    spec = native_specs.WorkflowSpec(copy.deepcopy(definition))
    rep = spec.inspect()
    return spec, rep


def check_reference(definition, rep):
    """Semantic entries against the independent reading, both ways."""
    vs = []
    ref = reference(definition)
    sem = [sem_triple(e) for e in rep.get("semantics", [])]
    got_und = collections.Counter((p, n) for p, k, n in sem if k == "undefined")
    if got_und != ref["undefined"]:
        missing = sorted((ref["undefined"] - got_und).elements())
        extra = sorted((got_und - ref["undefined"]).elements())
        if missing:
            vs.append({"what": "inspection silently accepts a reachable transition to an undefined task",
                       "kind": "undefined-missing", "missing": missing[:10]})
        if extra:
            vs.append({"what": "inspection reports an undefined task that is not a reachable dangling transition",
                       "kind": "undefined-spurious", "extra": extra[:10]})
    got_res = sorted(n for p, k, n in sem if k == "reserved")
    if got_res != ref["reserved"] or any(p != "tasks." + n for p, k, n in sem if k == "reserved"):
        vs.append({"what": "tasks named like an engine command are not exactly the reserved-name reports",
                   "kind": "reserved", "got": got_res, "want": ref["reserved"]})
    got_ns = [p for p, k, n in sem if k == "no_start"]
    if (got_ns == ["tasks"]) != ref["no_start"] or len(got_ns) > 1:
        vs.append({"what": "absence of a start task is not reported exactly when no task lacks inbound transitions",
                   "kind": "no_start", "got": got_ns, "want": ref["no_start"]})
    got_al = sorted(p for p, k, n in sem if k == "actionless")
    if got_al != ["tasks." + t for t in ref["actionless"]]:
        vs.append({"what": "with-items tasks without action are not exactly the reported ones", "kind": "actionless",
                   "got": got_al, "want": ref["actionless"]})
    other = [x for x in sem if x[1] == "other"]
    if other:
        vs.append({"what": "semantic entry of an unknown kind", "kind": "other", "got": other[:3]})
    return vs, ref


def check_fault(definition, fault, rep, ref):
    """Is the injected fault reported where it was injected?"""
    cls = fault["class"]
    vs = []
    if cls in ("undefined_target", "renamed_task"):
        sem = [sem_triple(e) for e in rep.get("semantics", [])]
        for path, name, task in fault["expect"]:
            if task in ref["reach"] and (path, "undefined", name) not in sem:
                vs.append({"what": "undefined task %r at %s silently accepted" % (name, path), "kind": "fault"})
    elif cls == "reserved_name":
        sem = [sem_triple(e) for e in rep.get("semantics", [])]
        if ("tasks." + fault["name"], "reserved", fault["name"]) not in sem:
            vs.append({"what": "task named %r silently accepted" % fault["name"], "kind": "fault"})
    elif cls == "closed_cycle":
        sem = [sem_triple(e) for e in rep.get("semantics", [])]
        if ("tasks", "no_start", "") not in sem:
            vs.append({"what": "definition without a start task silently accepted", "kind": "fault"})
    elif cls == "broken_expression":
        got = [e.get("spec_path") for e in rep.get("expressions", [])]
        if fault["epath"] not in got:
            vs.append({"what": "expression with invalid grammar %r at %s silently accepted"
                               % (fault["expr"], fault["epath"]), "kind": "fault", "reported_at": got[:5]})
    elif cls in ("unassigned_variable", "late_variable"):
        if fault.get("task") is None or fault["task"] in ref["reach"]:
            got = [ctx_triple(e) for e in rep.get("context", [])]
            if (fault["cpath"], "unassigned", fault["var"]) not in got:
                vs.append({"what": "reference %r to the unassigned variable %r at %s silently accepted"
                                   % (fault["expr"], fault["var"], fault["cpath"]), "kind": "fault",
                           "reported": got[:5]})
    return vs


# ------------------------------------------------------------------- the mutants

def _rename_refs(definition, old, new, only=None):
    """Rename targets `old` -> `new`; only = (task, transition index, position in do) restricts to one."""
    for t, ts in definition["tasks"].items():
        for i, tr in enumerate(ts.get("next") or []):
            do = tr.get("do")
            if not do:
                continue
            was_str = isinstance(do, str)
            lst = _targets(tr)
            for k, d in enumerate(lst):
                if d == old and (only is None or only == (t, i, k)):
                    lst[k] = new
            tr["do"] = ", ".join(lst) if was_str else lst


def structural_mutants(base):
    out = []
    tasks = base["tasks"]
    ref = reference(base)
    # renamed target: every (task, transition, position)
    for t, ts in tasks.items():
        for i, tr in enumerate(ts.get("next") or []):
            for k, d in enumerate(_targets(tr) if tr.get("do") else []):
                m = copy.deepcopy(base)
                _rename_refs(m, d, "zz_undef", only=(t, i, k))
                out.append((m, {"class": "undefined_target", "position": [t, i, k],
                                "expect": [("tasks.%s.next[%d].do" % (t, i), "zz_undef", t)]}))
    # renamed declaration: every task
    for t in tasks:
        m = copy.deepcopy(base)
        m["tasks"] = {("zz_renamed" if k == t else k): v for k, v in m["tasks"].items()}
        exp = []
        for s, ts in m["tasks"].items():
            for i, tr in enumerate(ts.get("next") or []):
                for d in _targets(tr):
                    if d == t:
                        exp.append(("tasks.%s.next[%d].do" % (s, i), t, s))
        out.append((m, {"class": "renamed_task", "position": [t], "expect": exp}))
    # reserved names: every task x every command, references renamed too / left dangling
    for t in tasks:
        for c in COMMANDS:
            if c in tasks:
                continue
            for with_refs in (True, False):
                m = copy.deepcopy(base)
                m["tasks"] = {(c if k == t else k): v for k, v in m["tasks"].items()}
                if with_refs:
                    _rename_refs(m, t, c)
                out.append((m, {"class": "reserved_name", "position": [t, with_refs], "name": c}))
    # closed cycle: every task closes all start tasks into a cycle
    for t in tasks:
        if t in COMMANDS or not ref["starts"]:
            continue
        m = copy.deepcopy(base)
        m["tasks"][t].setdefault("next", []).append({"do": list(ref["starts"])})
        out.append((m, {"class": "closed_cycle", "position": [t]}))
    return out


def _first_word(action):
    return action.split(" ")[0] if isinstance(action, str) and " " in action else action


def expression_positions(base):
    """Every inspected position as (label, apply(definition, expr), context spec_path, expression spec_path, task)."""
    pos = []

    def wf_list(prop, zz):
        n = len(base.get(prop) or [])
        for i in range(n + 1):
            def apply(m, e, i=i):
                lst = list(m.get(prop) or [])
                if i < len(lst):
                    item = lst[i]
                    key = item if isinstance(item, str) else list(item.keys())[0]
                    lst[i] = {key: e}
                else:
                    lst.append({zz: e})
                m[prop] = lst
            pos.append(("%s[%d]" % (prop, i), apply, "%s[%d]" % (prop, i), prop, None))

    wf_list("input", "zz_in")
    wf_list("vars", "zz_v")
    wf_list("output", "zz_o")
    for t, ts in base["tasks"].items():
        p = "tasks.%s" % t

        def set_delay(m, e, t=t):
            m["tasks"][t]["delay"] = e
        pos.append((p + ".delay", set_delay, p + ".delay", p + ".delay", t))

        def with_of(m, t):
            w = m["tasks"][t].get("with")
            if isinstance(w, str):
                return {"items": w}
            if isinstance(w, dict):
                return dict(w)
            m["tasks"][t].setdefault("action", "core.noop")
            return {"items": "<% list(1, 2) %>"}

        def set_items(m, e, t=t):
            w = with_of(m, t)
            w["items"] = e
            m["tasks"][t]["with"] = w
        pos.append((p + ".with.items", set_items, p + ".with.items", p + ".with.items", t))

        def set_items_in(m, e, t=t):
            w = with_of(m, t)
            w["items"] = "i in " + e
            m["tasks"][t]["with"] = w
        pos.append((p + ".with.items(in)", set_items_in, p + ".with.items", p + ".with.items", t))

        def set_conc(m, e, t=t):
            w = with_of(m, t)
            w["concurrency"] = e
            m["tasks"][t]["with"] = w
        pos.append((p + ".with.concurrency", set_conc, p + ".with.concurrency", p + ".with.concurrency", t))

        def set_action(m, e, t=t):
            m["tasks"][t]["action"] = e
        pos.append((p + ".action", set_action, p + ".action", p + ".action", t))

        def set_input(m, e, t=t):
            ts2 = m["tasks"][t]
            ts2["action"] = _first_word(ts2.get("action") or "core.noop")
            inp = ts2.get("input")
            inp = dict(inp) if isinstance(inp, dict) else {}
            inp["zz_k"] = e
            ts2["input"] = inp
        pos.append((p + ".input", set_input, p + ".input", p + ".input", t))
        for field in ("when", "count", "delay"):
            def set_retry(m, e, t=t, field=field):
                r = dict(m["tasks"][t].get("retry") or {"count": 1})
                r[field] = e
                m["tasks"][t]["retry"] = r
            pos.append((p + ".retry." + field, set_retry, p + ".retry." + field, p + ".retry." + field, t))
        for i, tr in enumerate(ts.get("next") or []):
            q = "%s.next[%d]" % (p, i)

            def set_when(m, e, t=t, i=i):
                m["tasks"][t]["next"][i]["when"] = e
            pos.append((q + ".when", set_when, q + ".when", q + ".when", t))
            pub = tr.get("publish")
            npub = len(pub) if isinstance(pub, list) else 0
            for j in range(npub + 1):
                def set_pub(m, e, t=t, i=i, j=j, npub=npub):
                    tr2 = m["tasks"][t]["next"][i]
                    lst = list(tr2["publish"]) if isinstance(tr2.get("publish"), list) else []
                    if j < len(lst):
                        lst[j] = {list(lst[j].keys())[0]: e}
                    else:
                        lst.append({"zz_p": e})
                    tr2["publish"] = lst
                pos.append(("%s.publish[%d]" % (q, j), set_pub, "%s.publish[%d]" % (q, j), q + ".publish", t))
    return pos


def weight(definition):
    """number of (task, transition, target) triples"""
    return sum(len(_targets(tr)) for ts in definition["tasks"].values() for tr in (ts.get("next") or []))


def inspect_cost(definition):
    """A deterministic proxy of what one inspect() of (a mutant of) this definition costs: the number of
    tasks.get_task calls it makes (about 5 ms + 0.06 ms per call).  Counted with a temporary wrapper."""
    from orquesta.specs.native.v1 import models as v1_models
    calls = [0]
    orig = v1_models.TaskMappingSpec.get_task

    def counted(self, name):
        calls[0] += 1
        return orig(self, name)

    v1_models.TaskMappingSpec.get_task = counted
    try:
        try:
            real_inspect(definition)
        except Exception:
            pass
    finally:
        v1_models.TaskMappingSpec.get_task = orig
    return calls[0]


def expression_mutants(base, tier, nstruct, calls):
    """Every position; all broken expressions and all reference forms per position when the definition is cheap to
    inspect, a rotating selection (always at least one of each) when it is not -- a deterministic function of
    the definition (cost proxy: inspect_cost)."""
    positions = expression_positions(base)
    budget_ms = 7000.0 if tier == "quick" else 40000.0
    afford = budget_ms / (5.0 + 0.06 * calls) - nstruct
    per = (1, 1)
    for cand in ((len(BROKEN), len(FORMS)), (3, 4), (2, 3), (1, 2)):
        if len(positions) * sum(cand) <= afford:
            per = cand
            break
    out = []
    for n, (label, apply, cpath, epath, task) in enumerate(positions):
        for j in range(per[0]):
            e = BROKEN[(n * per[0] + j) % len(BROKEN)]
            if label.endswith("(in)") and e.startswith("{%"):
                e = BROKEN[0]   # "i in {% .. %}x" does not match the schema pattern of with-items
            m = copy.deepcopy(base)
            apply(m, e)
            out.append((m, {"class": "broken_expression", "position": label, "expr": e, "epath": epath,
                            "cpath": cpath, "task": task}))
        for j in range(per[1]):
            e = FORMS[(n * per[1] + j) % len(FORMS)]
            # other shapes of variable names that the definition language accepts as keys (\w+, and the extraction
            # regexes also take '-'): only in the quoted function-call forms, where any name can be written
            name = NAMES[(n + j) % len(NAMES)]
            if name != "nope" and ("('nope')" in e or '("nope")' in e):
                e = e.replace("nope", name)
            else:
                name = "nope"
            m = copy.deepcopy(base)
            apply(m, e)
            out.append((m, {"class": "unassigned_variable", "position": label, "expr": e, "var": name,
                            "cpath": cpath, "epath": epath, "task": task}))
    return out


def late_mutants(base, rng, limit):
    """zz_late is published by transition i of task s only; every task that is not downstream of that transition
    (s itself included, unless it lies on a cycle through the transition) must not see it."""
    out = []
    ref = reference(base)
    tasks = base["tasks"]
    pubs = [(s, i) for s, ts in tasks.items() if s not in COMMANDS for i, _ in enumerate(ts.get("next") or [])]
    rng.shuffle(pubs)
    for s, i in pubs[:limit]:
        down = set()
        for d in _targets(tasks[s]["next"][i]):
            if d in tasks and d not in COMMANDS:
                down.add(d)
                down |= ref["descendants"](d)
        victims = [t for t in tasks if t not in down and t not in COMMANDS]
        for t in victims:
            for jinja in (False, True):
                e = "{{ ctx().%s }}" % LATE if jinja else "<% ctx().zz_late %>"
                m = copy.deepcopy(base)
                tr = m["tasks"][s]["next"][i]
                lst = list(tr["publish"]) if isinstance(tr.get("publish"), list) else (
                    args_util.parse_inline_params(tr["publish"]) if isinstance(tr.get("publish"), str) else [])
                lst.append({LATE: 1})
                tr["publish"] = lst
                ts2 = m["tasks"][t]
                ts2["action"] = _first_word(ts2.get("action") or "core.noop")
                inp = dict(ts2["input"]) if isinstance(ts2.get("input"), dict) else {}
                inp["zz_k"] = e
                ts2["input"] = inp
                out.append((m, {"class": "late_variable", "position": [s, i, t], "expr": e, "var": LATE,
                                "cpath": "tasks.%s.input" % t, "task": t}))
        # the publishing transition's own condition is evaluated before its publish
        m = copy.deepcopy(base)
        tr = m["tasks"][s]["next"][i]
        lst = list(tr["publish"]) if isinstance(tr.get("publish"), list) else (
            args_util.parse_inline_params(tr["publish"]) if isinstance(tr.get("publish"), str) else [])
        lst.append({LATE: 1})
        tr["publish"] = lst
        tr["when"] = "<% ctx().zz_late %>"
        out.append((m, {"class": "late_variable", "position": [s, i, "when"], "expr": tr["when"], "var": LATE,
                        "cpath": "tasks.%s.next[%d].when" % (s, i), "task": s}))
        # a variable whose first assignment refers to itself (a counter that is never initialised): the entry's
        # own expression is read before the entry assigns
        for jinja in (False, True):
            e = "{{ ctx().%s + 1 }}" % LATE if jinja else "<% ctx().zz_late + 1 %>"
            m = copy.deepcopy(base)
            tr = m["tasks"][s]["next"][i]
            lst = list(tr["publish"]) if isinstance(tr.get("publish"), list) else (
                args_util.parse_inline_params(tr["publish"]) if isinstance(tr.get("publish"), str) else [])
            lst.append({LATE: e})
            tr["publish"] = lst
            out.append((m, {"class": "late_variable", "position": [s, i, "self"], "expr": e, "var": LATE,
                            "cpath": "tasks.%s.next[%d].publish[%d]" % (s, i, len(lst) - 1), "task": s}))
    # the same at the workflow level: vars / output entries defined from themselves
    for sect in ("vars", "output"):
        m = copy.deepcopy(base)
        lst = list(m.get(sect) or [])
        lst.append({LATE: "<% ctx().zz_late %>"})
        m[sect] = lst
        out.append((m, {"class": "late_variable", "position": [sect, "self"], "expr": "<% ctx().zz_late %>", "var": LATE,
                        "cpath": "%s[%d]" % (sect, len(lst) - 1), "task": None}))
    return out


# ---------------------------------------------------------------- printing Coq terms

cstr, cjson, clist = c14mod.cstr, c14mod.cjson, c14mod.clist


def cspec(ns):
    def pairs(l):
        return clist("(%s, %s)" % (cstr(k), cjson(v)) for k, v in l)

    def tr(t):
        return "(TR %s %s %s)" % (cjson(t["when"]), pairs(t["publish"]), clist(cstr(d) for d in t["do"]))

    def items(w):
        if w is None:
            return "None"
        keys = "None" if w["keys"] is None else "(Some %s)" % clist(cstr(k) for k in w["keys"])
        return "(Some (IT %s %s %s))" % (cstr(w["expr"]), keys, cjson(w["concurrency"]))

    def task(name, t):
        return "(%s, TS %s %s %s %s %s %s)" % (cstr(name), cjson(t["action"]), cjson(t["input"]), items(t["with"]),
                                               cjson(t["delay"]), cjson(t["join"]), clist(tr(x) for x in t["next"]))

    return "(WF %s %s %s %s)" % (pairs(ns["input"]), pairs(ns["vars"]), pairs(ns["output"]),
                                 clist(task(n, t) for n, t in ns["tasks"]))


def _ctx_inputs(value):
    """get_ctx_inputs of Spec.inspect_context"""
    out = []
    if isinstance(value, dict):
        out = list(value.keys())
    elif isinstance(value, list):
        for item in value:
            if isinstance(item, str):
                out.append(item)
            elif isinstance(item, dict) and len(item) == 1:
                out.extend(list(item.keys()))
    elif isinstance(value, str):
        out.append(value)
    return [k for k in out if isinstance(k, str)]


def _positions(obj, prop, path):
    """The positions of one plain property as Spec.inspect_context reads them: (spec_path, refs, keys)."""
    v = getattr(obj, prop) if obj is not None else None
    if not v:
        return []
    if isinstance(v, str):
        ip = args_util.parse_inline_params(v)
        if ip:
            v = ip
    if isinstance(v, list):
        return [(path + "[" + str(i) + "]", [x[2] for x in expr_base.extract_vars(item)], _ctx_inputs(item))
                for i, item in enumerate(v)]
    return [(path, [x[2] for x in expr_base.extract_vars(v)], _ctx_inputs(v))]


def ctx_oracle(spec):
    def props(obj, names, parent):
        out = []
        for n in names:
            ps = _positions(obj, n, (parent + "." + n).strip("."))
            if ps:
                out.append((n, ps))
        return out

    cx = {"props": props(spec, ["input", "vars", "output"], ""), "tasks": []}
    for name in spec.tasks.keys():
        ts = spec.tasks.get_task(name)
        p = "tasks." + name
        w = getattr(ts, "with", None)
        r = getattr(ts, "retry", None)
        nxt = []
        for i, tr in enumerate(getattr(ts, "next") or []):
            nxt.append(props(tr, ["when", "publish", "do"], "%s.next[%d]" % (p, i)))
        cx["tasks"].append((name, {"props": props(ts, ["delay", "action", "input"], p),
                                   "with": props(w, ["items", "concurrency"], p + ".with") if w else [],
                                   "retry": props(r, ["when", "count", "delay"], p + ".retry") if r else [],
                                   "next": nxt}))
    return cx


def cctx(cx):
    def cprops(ps):
        return clist("(%s, %s)" % (cstr(n), clist("(CP %s %s %s)" % (cstr(path), clist(cstr(x) for x in refs),
                                                                       clist(cstr(x) for x in keys))
                                                     for path, refs, keys in l)) for n, l in ps)

    def ctask(name, t):
        return "(%s, CT %s %s %s %s)" % (cstr(name), cprops(t["props"]), cprops(t["with"]), cprops(t["retry"]),
                                         clist(cprops(x) for x in t["next"]))

    return "(CX %s %s)" % (cprops(cx["props"]), clist(ctask(n, t) for n, t in cx["tasks"]))


def ctriples(l):
    return clist("(%s, %s, %s)" % (cstr(a or ""), cstr(b), cstr(c)) for a, b, c in l)


HEADER = """From Coq Require Import String List Bool ZArith.
From Orq Require Import Base State Composer Inspect.
Import ListNotations.
Open Scope string_scope.
Definition TR w p d := {| tr_when := w; tr_publish := p; tr_do := d |}.
Definition IT e k c := {| it_expr := e; it_keys := k; it_concurrency := c |}.
Definition TS a i w dl j nx := {| ts_action := a; ts_input := i; ts_with := w; ts_delay := dl; ts_join := j; ts_next := nx |}.
Definition WF i v o t := {| wf_input := i; wf_vars := v; wf_output := o; wf_tasks := t |}.
Definition CP p r k := {| cp_path := p; cp_refs := r; cp_keys := k |}.
Definition CT p w r n := {| ct_props := p; ct_with := w; ct_retry := r; ct_next := n |}.
Definition CX p t := {| cx_props := p; cx_tasks := t |}.
"""

CODES = {1: "model ran out of fuel in the semantic detectors", 2: "model raised in the semantic detectors",
         3: "semantic entries (detector order) differ", 4: "sorted semantic entries of inspect() differ",
         5: "model ran out of fuel in the context tracking", 6: "model raised in the context tracking",
         7: "context entries differ", -1: "coqc gave no answer"}


def coq_command(spec, rep):
    """The vernacular command that evaluates the model on this definition against the real entries; None when
    the definition cannot be printed (non-ASCII, syntax errors that change the shape of the spec objects)."""
    if rep.get("syntax"):
        return None
    ns = engine.to_json(engine.norm_spec(spec))
    raw = [sem_triple(e) for e in spec.inspect_semantics()]
    srt = [sem_triple(e) for e in rep.get("semantics", [])]
    ctxe = [ctx_triple(e) for e in spec.inspect_context()[0]]
    if sorted(ctxe) != sorted(ctx_triple(e) for e in rep.get("context", [])):
        raise RuntimeError("inspect()['context'] is not a permutation of inspect_context()[0]")
    return "Eval vm_compute in (check_inspect %s %s %s %s %s %s).\n" % (
        cspec(ns), cctx(ctx_oracle(spec)), FUEL, ctriples(raw), ctriples(srt), ctriples(ctxe))


def run_coq(chunks, procs=16):
    """chunks: list of lists of command texts.  Returns per chunk the list of codes (one per case)."""
    tmp = tempfile.mkdtemp(prefix="c15_")
    try:
        files = []
        for i, cmds in enumerate(chunks):
            p = os.path.join(tmp, "cases_%d.v" % i)
            with open(p, "w") as f:
                f.write(HEADER)
                f.write("".join(cmds))
            files.append(p)
        running, results = [], [None] * len(files)

        def reap(block):
            for item in list(running):
                i, proc = item
                if block or proc.poll() is not None:
                    try:
                        out, _ = proc.communicate(timeout=900)
                    except subprocess.TimeoutExpired:
                        proc.kill()
                        out = ""
                    results[i] = out
                    running.remove(item)
                    if block:
                        return

        for i, p in enumerate(files):
            while len(running) >= procs:
                reap(False)
                if len(running) >= procs:
                    time.sleep(0.05)
            running.append((i, subprocess.Popen(
                ["coqc", "-Q", COQ + "/gen", "Orq", "-Q", COQ + "/model", "Orq", p],
                cwd=tmp, stdout=subprocess.PIPE, stderr=subprocess.STDOUT, text=True)))
        while running:
            reap(True)
        parsed = []
        for i, out in enumerate(results):
            vals = re.findall(r"=\s*(\d+)\s*:\s*nat", out or "")
            if len(vals) == len(chunks[i]):
                parsed.append([(int(v), None) for v in vals])
            else:
                parsed.append([(-1, (out or "")[-1500:])] * len(chunks[i]))
        return parsed
    finally:
        shutil.rmtree(tmp, ignore_errors=True)


# ----------------------------------------------------------------------- one base case

def judge(definition, fault, want_coq):
    """Real inspection of one definition against the reference, the injected fault and (optionally) the text of
    the Coq case."""
    try:
        spec, rep = real_inspect(definition)
    except Exception as e:
        frames = [f.name for f in traceback.extract_tb(e.__traceback__)]
        v = {"what": "inspect() of a schema-conformant definition raised %s instead of reporting" % type(e).__name__,
             "kind": "raised", "exc": type(e).__name__, "exc_arg": (str(e.args[0]) if e.args else ""),
             "frames": frames[-6:]}
        return [v], {"raised": True}, None
    vs, ref = check_reference(definition, rep)
    if fault:
        vs += check_fault(definition, fault, rep, ref)
    coq = coq_command(spec, rep) if want_coq else None
    return vs, rep, coq


def _classify_known(v):
    for kid, pred in KNOWN_CANDIDATES.items():
        try:
            if pred(v):
                return kid
        except Exception:
            pass
    return None


def _base_case(args):
    seed, family, tier = args
    rng = random.Random(seed)
    out = {"seed": seed, "family": family, "violations": [], "coq": [], "counts": collections.Counter(),
           "classes": collections.Counter()}
    try:
        base = gen_base(rng, family)
        calls = inspect_cost(base)
        for _ in range(20):      # quick tier: definitions whose inspect() costs more than ~50 ms are redrawn
            if tier != "quick" or calls <= 750:
                break
            base = gen_base(rng, family)
            calls = inspect_cost(base)
        out["definition"] = base
        out["inspect_calls"] = calls
        vs, rep, coq = judge(base, None, True)
        out["accepted"] = not rep
        out["base_report"] = sorted(rep.keys())
        for v in vs:
            v.update({"definition": base, "fault": None})
            out["violations"].append(v)
        if coq:
            out["coq"].append((coq, {"definition": base, "fault": None}))
        out["counts"]["definitions"] += 1
        muts = structural_mutants(base)
        nstruct = len(muts)
        emuts = expression_mutants(base, tier, nstruct, calls)
        lmuts = late_mutants(base, rng, 2 if tier == "quick" else 6)
        # the structural mutants go to the model as well (all in the quick tier, 36 per base in the thorough one);
        # of the expression and late mutants a sample
        ssample = set(range(nstruct)) if tier == "quick" else set(rng.sample(range(nstruct), min(nstruct, 36)))
        sample = set(rng.sample(range(len(emuts)), min(len(emuts), 6 if tier == "quick" else 10)))
        lsample = set(rng.sample(range(len(lmuts)), min(len(lmuts), 6 if tier == "quick" else 10)))
        allm = [(m, f, k in ssample) for k, (m, f) in enumerate(muts)] \
            + [(m, f, k in sample) for k, (m, f) in enumerate(emuts)] \
            + [(m, f, k in lsample) for k, (m, f) in enumerate(lmuts)]
        for m, f, want_coq in allm:
            vs, rep, coq = judge(m, f, want_coq)
            out["counts"]["definitions"] += 1
            out["classes"][f["class"]] += 1
            if rep.get("syntax"):
                out["counts"]["mutant_not_schema_conformant"] += 1
            if rep.get("raised"):
                out["counts"]["inspect_raised"] += 1
            for v in vs:
                v.update({"definition": m, "fault": f})
                out["violations"].append(v)
            if coq:
                out["coq"].append((coq, {"definition": m, "fault": f}))
        out["counts"]["structural"] = nstruct
        out["counts"]["expression"] = len(emuts)
        out["counts"]["late"] = len(lmuts)
        # keep every class visible: unknown violations first; of the known candidates a few and their counts
        unknown, known, kcount = [], [], collections.Counter()
        for v in out["violations"]:
            k = _classify_known(v)
            if k:
                v["known"] = k
                kcount[k] += 1
                if kcount[k] <= 2:
                    known.append(v)
            else:
                unknown.append(v)
        out["violations"] = unknown[:20] + known
        out["known_counts"] = dict(kcount)
    except Exception:
        out["error"] = traceback.format_exc()[-2500:]
    return out


# ------------------------------------------------------------- accepted => executable

DONE = ("succeeded", "failed", "timeout", "abandoned", "canceled")


def _pointed(state, t, r):
    st = state["state"]["state"]
    idx = st["tasks"].get("%s__r%s" % (t, r))
    if idx is None or idx >= len(st["sequence"]):
        return None
    return st["sequence"][idx]


def _rerun_of_active(sess, t, r, upto):
    """an accepted rerun before step `upto` re-created the execution (t, r) while its record was still active"""
    for j in range(1, upto):
        op, obs = sess.trace[j]
        if op[0] == "rerun" and obs["raised"] is None:
            before = _pointed(sess.trace[j - 1][1], t, r)
            after = _pointed(obs, t, r)
            if before is not None and before.get("status") not in DONE and after is not None and "status" not in after:
                return True
    return False


def exec_monitor(sess):
    vs = []
    for i, (op, obs) in enumerate(sess.trace):
        r = obs["raised"]
        if r is None:
            continue
        if r[0] in REFUSALS.get(op[0], ()):
            continue
        v = {"what": "%s escaped the conformant call %s on an accepted definition" % (r[0], op[0]),
             "step": i, "raised": r, "kind": "internal-error"}
        if op[0] == "event" and i > 0:
            v["event_task"] = op[1]
            rec = _pointed(sess.trace[i - 1][1], op[1], op[2])
            v["record_without_status"] = rec is not None and "status" not in rec
            v["rerun_of_active_execution"] = _rerun_of_active(sess, op[1], op[2], i)
            stg = [x for x in sess.trace[i - 1][1]["state"]["state"]["staged"]
                   if x["id"] == op[1] and x["route"] == op[2]]
            v["staged_entry"] = bool(stg)
            v["staged_items"] = bool(stg) and "items" in stg[0]
            v["item_event"] = op[3][0] == "item"
            v["event_status"] = op[3][2] if op[3][0] == "item" else op[3][1]
            v["pre_status"] = rec.get("status") if rec else None
        vs.append(v)
        break
    return vs


def _exec_case(args):
    seed, with_model, known_ids, source = args
    rng = random.Random(seed)
    out = {"seed": seed, "violations": [], "source": source}
    sess = None
    try:
        inputs = {}
        if source == "progs":
            definition, inputs = progs.gen_definition(rng, EXEC_FAM)
        else:
            definition = gen_base(rng, source)
        out["definition"], out["inputs"] = definition, inputs
        spec, rep = real_inspect(definition)
        out["accepted"] = not rep
        try:
            out["coq"] = coq_command(spec, rep)     # every generated definition is also put to the Coq detectors
        except ValueError:
            out["coq"] = None
        if rep:
            return out
        try:
            native_comp.WorkflowComposer.compose(spec)
        except Exception as e:
            out["violations"].append({"what": "compose raised %s on an accepted definition" % type(e).__name__,
                                      "kind": "compose", "raised": [type(e).__name__, str(e)]})
            return out
        sess = provider.Session(definition, inputs, with_model=with_model)
        oracle = progs.Oracle(seed, EXEC_FAM)
        try:
            progs.run_history(sess, rng, EXEC_FAM, oracle)
        except provider.Divergence as d:
            out["divergence"] = d.info
        out["ops"] = [op for op, _ in sess.trace]
        out["calls"] = len(sess.trace)
        out["final"] = sess.status()
        out["refused"] = sum(1 for _, o in sess.trace if o["raised"] is not None)
        vs = exec_monitor(sess)
        for v in vs:
            k = _classify_known(v)          # the exact candidates first, then the triggers of the listed findings
            if k:
                v["known"] = k
            else:
                for fid in known_ids:
                    trig = findings.TRIGGERS.get(fid)
                    if trig and trig(sess, v.get("step")):
                        v["known"] = fid
                        break
            v["ops"] = out["ops"][: v["step"] + 1]
        out["violations"] = vs
    except Exception:
        out["error"] = traceback.format_exc()[-2000:]
    finally:
        if sess:
            sess.close()
    return out


# ------------------------------------------------------------------------ the run

def run(ctx):
    tier, seed = ctx["tier"], ctx["seed"]
    nbase = 32 if tier == "quick" else 240
    nexec = 320 if tier == "quick" else 4800
    base = (seed * 1000003 + zlib.crc32(b"C15")) % (2 ** 31)
    known_ids = [k["id"] for k in ctx["known"].get("findings", []) if "C15" in k.get("properties", [])]
    out = {"evaluations": 0, "violations": [], "known_lines": findings.reconfirm(ctx["known"], "C15"),
           "correspondence_broken": None, "traces_validated": 0, "search": {}}
    jobs = [(base + i, BASE_FAMILIES[i % len(BASE_FAMILIES)], tier) for i in range(nbase)]
    ejobs = [(base + 10 ** 6 + i, ctx["model_ok"], known_ids,
              "progs" if i % 4 else ["mixed", "cycles", "commands", "diamonds"][(i // 4) % 4]) for i in range(nexec)]
    t_start = time.time()
    with multiprocessing.Pool(16) as pool:
        res_async = pool.map_async(_base_case, jobs, chunksize=1)
        eres = pool.map(_exec_case, ejobs, chunksize=4)
        results = res_async.get()
    t_python = time.time() - t_start
    # (i) fault injection + reference
    counts, classes = collections.Counter(), collections.Counter()
    cases = []
    for r in results:
        if "error" in r:
            out["violations"].append({"property": "C15", "what": "harness error while running a case", "kind": "error",
                                      "error": r["error"], "seed": r["seed"], "family": r["family"],
                                      "definition": r.get("definition")})
            continue
        counts.update(r["counts"])
        classes.update(r["classes"])
        for v in r["violations"]:
            v = dict(v)
            v.update({"property": "C15", "seed": r["seed"], "family": r["family"]})
            k = _classify_known(v)
            if k:
                v["known"] = k
            out["violations"].append(v)
        cases.extend(r["coq"])
    for r in eres:
        if r.get("coq"):
            cases.append((r["coq"], {"definition": r["definition"], "fault": None}))
    # (ii) the model against the real detectors
    mismatches = []
    if ctx["model_ok"] and os.path.exists(os.path.join(COQ, "model", "Inspect.vo")):
        size = 120
        chunks = [cases[i:i + size] for i in range(0, len(cases), size)]
        answers = run_coq([[c for c, _ in ch] for ch in chunks])
        starved = [(ci, ri) for ci, ans in enumerate(answers) for ri, a in enumerate(ans) if a[0] in (1, 5)]
        if starved:
            again = run_coq([[chunks[ci][ri][0].replace(FUEL, BIG_FUEL)] for ci, ri in starved])
            for (ci, ri), a in zip(starved, again):
                answers[ci][ri] = a[0]
        for ch, ans in zip(chunks, answers):
            for (cmd, info), a in zip(ch, ans):
                out["traces_validated"] += 1
                if a[0] != 0:
                    mismatches.append({"definition": info["definition"], "fault": info["fault"], "code": a[0],
                                       "meaning": CODES.get(a[0], "?"), "coqc_tail": a[1]})
    else:
        out["correspondence_broken"] = {"reason": "coq/model/Inspect.vo is not built; the model was not compared"}
    t_coq = time.time() - t_start - t_python
    if mismatches:
        out["correspondence_broken"] = {"cases_diverging": len(mismatches), "first": mismatches[0],
                                        "what": "Coq detectors and the real inspect() disagree"}
    # (iii) accepted => executable
    ecounts = collections.Counter()
    nt = set()
    divs = []
    for r in eres:
        if "error" in r:
            out["violations"].append({"property": "C15", "what": "harness error while running a history", "kind": "error",
                                      "error": r["error"], "seed": r["seed"], "definition": r.get("definition")})
            continue
        ecounts["generated"] += 1
        if not r.get("accepted"):
            ecounts["not_accepted"] += 1
            continue
        ecounts["accepted_" + r["source"]] += 1
        ecounts["api_calls"] += r.get("calls", 0)
        ecounts["refused_calls"] += r.get("refused", 0)
        ecounts["final_" + str(r.get("final"))] += 1
        if "divergence" in r:
            divs.append(r)
        if r.get("calls", 0) >= 8:
            nt.add(engine.dumps_sorted([r["definition"], r.get("ops")]))
        for v in r["violations"]:
            v = dict(v)
            v.update({"property": "C15", "seed": r["seed"], "definition": r["definition"], "inputs": r["inputs"]})
            k = _classify_known(v)
            if k and not v.get("known"):
                v["known"] = k
            out["violations"].append(v)
    if ctx["model_ok"]:
        out["traces_validated"] += ecounts["api_calls"]
    if divs and not out["correspondence_broken"]:
        d = divs[0]
        out["correspondence_broken"] = {"cases_diverging": len(divs), "what": "conductor model and engine diverge",
                                        "first": {"seed": d["seed"], "definition": d["definition"],
                                                  "inputs": d["inputs"], "ops": d["ops"], "divergence": d["divergence"]}}
    hit = collections.Counter(v["known"] for v in out["violations"]
                              if v.get("known") in KNOWN_CANDIDATES and v.get("kind") != "raised")
    for r in results:
        hit.update(r.get("known_counts") or {})
    for kid in sorted(hit):
        first = [v for v in out["violations"] if v.get("known") == kid][0]
        out["known_lines"].append("%s %s (%d case(s) in this run; %s)"
                                  % (kid, first["what"], hit[kid], " ".join((KNOWN_CANDIDATES[kid].__doc__ or "").split(":")[0].split())[:200]))
    # keep one representative per known candidate in the evidence, drop the rest of the known ones
    keep, seen_known = [], set()
    for v in out["violations"]:
        if v.get("known"):
            if v["known"] in seen_known:
                continue
            seen_known.add(v["known"])
        keep.append(v)
    out["violations"] = keep
    real = [v for v in out["violations"] if not v.get("known")]
    if (out["correspondence_broken"] or not ctx["proof_ok"]) and not real:
        out["search"] = {"note": "the fault-injection monitor and the reference reading ran on all %d definitions, "
                                 "the history monitor on %d accepted definitions; no concrete failing input"
                                 % (counts["definitions"], ecounts["generated"] - ecounts["not_accepted"]),
                         "found": 0}
    out["evaluations"] = counts["definitions"] + ecounts["generated"] - ecounts["not_accepted"]
    faulty = set()
    for r in results:
        for _, info in r.get("coq", []):
            if info["fault"]:
                faulty.add(engine.dumps_sorted(info["definition"]))
    out["distinct_nontrivial"] = len(faulty) + len(nt)
    out["distribution"] = {"bases": len(results), "base_accepted": sum(1 for r in results if r.get("accepted")),
                           "families": dict(collections.Counter(r["family"] for r in results)),
                           "mutants_by_class": dict(classes), "counts": dict(counts),
                           "model_cases": len(cases), "histories": dict(ecounts),
                           "seconds": {"inspection_and_histories": round(t_python, 1), "coqc": round(t_coq, 1)}}
    out["rule"] = ("base definitions from harness.progs (all expression positions), the C14 graph-shape families and "
                   "island shapes; for each base every single-fault mutant: renamed target at every (task, transition, "
                   "do position), renamed declaration of every task, every task renamed to each engine command (with and "
                   "without its references), every task closing all start tasks into a cycle, each of %d broken "
                   "expressions and %d variable-reference forms at every inspected position, and a variable published "
                   "only by a non-upstream transition; each judged by the real inspect() against the injected position "
                   "and the independent reference reading; all structural mutants and a sample of the others are also "
                   "evaluated by the Coq detectors (vm_compute) and compared on (spec_path, kind, name).  Accepted "
                   "definitions are composed and conducted under random conformant histories in lock step with the "
                   "conductor model.  distinct_nontrivial = distinct faulty definitions compared with the model + "
                   "distinct (definition, history) pairs with at least 8 API calls" % (len(BROKEN), len(FORMS)))
    samples = []
    for r in results[:2]:
        if r.get("coq") and len(r["coq"]) > 1:
            samples.append({"seed": r["seed"], "family": r["family"], "base": r["definition"],
                            "a_mutant_fault": r["coq"][1][1]["fault"]})
    for r in eres[:1]:
        samples.append({"seed": r["seed"], "definition": r.get("definition"), "ops": (r.get("ops") or [])[:30],
                        "final": r.get("final")})
    out["samples"] = samples
    # how many generated conformant, rerun-free histories satisfy the (decidable) hypotheses of
    # C15_no_internal_error_history -- evaluated inside Coq on the very runs the engine went through
    if ctx["model_ok"]:
        try:
            from harness import syscheck
            n, in_scope, fails, why = syscheck.run_scope(seed % 100000, 8 if tier == "quick" else 60)
            out["no_internal_error_scope"] = {"histories": n, "within_theorem_hypotheses": in_scope, "per_hypothesis": why}
            for f in fails:
                out["violations"].append(dict(f, property="C15", kind="scope"))
        except Exception as e:   # the scope measurement must never break the check
            out["no_internal_error_scope"] = {"error": repr(e)[:300]}
    return out


def replay(payload):
    if "definition" not in payload:
        print("replay file names a broken obligation, not a concrete input:")
        print(json.dumps(payload, indent=1, default=str)[:3000])
        return 1
    bad = 0
    if payload.get("kind") in ("internal-error", "compose"):
        spec, rep = real_inspect(payload["definition"])
        print("inspect():", json.dumps(rep)[:300])
        try:
            native_comp.WorkflowComposer.compose(spec)
        except Exception as e:
            print("compose raised %s: %s" % (type(e).__name__, e))
            return 1
        sess = provider.Session(payload["definition"], payload.get("inputs") or {}, with_model=False)
        for op in payload.get("ops") or []:
            sess.call(op)
        vs = exec_monitor(sess)
        for v in vs:
            print("violation reproduced:", json.dumps(v, default=str)[:800])
        return 1 if vs else 0
    vs, rep, coq = judge(payload["definition"], payload.get("fault"), True)
    print("inspect():", json.dumps(rep, default=str)[:1500])
    for v in vs:
        bad += 1
        print("violation reproduced:", json.dumps(v, default=str)[:800])
    if coq and os.path.exists(os.path.join(COQ, "model", "Inspect.vo")):
        ans = run_coq([[coq]], procs=1)[0][0]
        if ans[0] != 0:
            bad += 1
            print("model and inspect() disagree: %s" % CODES.get(ans[0], ans[0]))
            if ans[1]:
                print(ans[1])
    if not bad:
        print("no violation on replay")
    return 1 if bad else 0
