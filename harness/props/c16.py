"""C16 -- Values flow through unchanged; evaluation is pure; internals stay hidden.

The Coq part (coq/props/C16.v) proves, for every expression oracle, what the conductor itself does
to a value: merge_dicts exactly, literals through expr_base.evaluate, the data path
input -> contexts[0] -> task context -> offered context, publish deltas, output, and which names can
enter a delta.  What YAQL, Jinja, ujson and str() do to a value is not in the model, so this module
ties that part by differential test on the REAL code:

  eval      value zoo x reference forms: expr_base.evaluate(form, {"v": value}) is exactly value
            (strict: bool/int/float distinguished, floats by float.hex(), dict key order, list vs
            tuple), the context is unchanged afterwards, json_util.deepcopy(value) is value
  conductor a full run (engine and extracted Coq model in lock step): the value enters as workflow
            input, is referenced by every form in an action input, comes back as the action result,
            is published with result(), read by the next task, rendered as output; every stage and
            every stage after deserialize(serialize()) must show the value unchanged
  merge     utils.dictionary.merge_dicts against the characterisation proved in Coq
            (C16_merge_lookup + C16_merge_key_order), on random nested dict pairs
  dunder    reads of double-underscore names through ctx() raise or are filtered; no published
            context / output carries a double-underscore key
  purity    mutation probes: evaluating an expression must leave the context as it was

Every non-preservation that exists on the unchanged tree is listed in KNOWN_CANDIDATES with the
predicate that recognises exactly that case; it is reported as `known`, anything else is a violation.
"""
import collections.abc  # noqa: F401  (yaql on py3.12 needs it imported first)
import copy
import hashlib
import json
import multiprocessing
import random
import struct
import time
import traceback

from harness import engine, provider, wire
from harness.props import common

from orquesta.expressions import base as expr_base  # noqa: E402
from orquesta.utils import dictionary as dict_util  # noqa: E402
from orquesta.utils import jsonify as json_util  # noqa: E402

THEOREMS = [
    {"name": "C16_merge_lookup", "strength": "F",
     "text": "dget k (merge_dicts l r) = match dget k r with None => dget k l | Some v => match dget k l with "
             "Some lv => Some (merge_json lv v) | None => Some v end end, for r with unique keys"},
    {"name": "C16_merge_replace", "strength": "F",
     "text": "merge_json l r = r whenever r is not a dict or l is not a dict (non-dict values replace, never merge)"},
    {"name": "C16_merge_dicts_rec", "strength": "F", "text": "two dicts merge by the same loop, recursively"},
    {"name": "C16_merge_key_order", "strength": "F",
     "text": "keys (merge_dicts l r) = keys l ++ [k in keys r | k not in l] (r with unique keys)"},
    {"name": "C16_merge_nil_r / C16_merge_nil_l / C16_merge_disjoint / C16_merge_keys_unique", "strength": "F",
     "text": "merge_dicts l [] = l; merge_dicts [] r = r and merge of disjoint operands = concatenation (unique "
             "keys); key uniqueness is preserved for every right operand"},
    {"name": "C16_evaluate_identity", "strength": "F",
     "text": "for every oracle returning delimiter-free strings as they are: evaluate ev v ctx c = (c, Val v) for "
             "every JSON value all of whose strings and dict keys are delimiter-free (dict keys unique)"},
    {"name": "C16_evaluate_pure / C16_evaluate_ctx_unchanged", "strength": "F",
     "text": "evaluate never changes the conductor state; it depends on the oracle only through its values at "
             "the context it was given (trivial in Gallina; the real evaluators are tested for mutation)"},
    {"name": "C16_render_input_literal / C16_ensure_ws_literal / C16_init_ctx_holds_input", "strength": "F",
     "text": "literal runtime inputs and defaults are stored unchanged; ensure_ws appends exactly init_ctx_of c "
             "to contexts; the input value is found under its name (dict-over-dict of the parent context excluded)"},
    {"name": "C16_task_context_of_initial / C16_later_context_wins / C16_earlier_context_kept", "strength": "F",
     "text": "get_task_context_from of [0] returns contexts[0]; of [0; i] the later delta wins for non-dict values"},
    {"name": "C16_render_vars_literal / C16_publish_literal_delta / C16_finalize_context_literal", "strength": "F",
     "text": "literals published land unchanged in the delta; with unique names the delta is the publish list"},
    {"name": "C16_render_output_literal", "strength": "P",
     "text": "literal outputs are stored unchanged; partial: the terminal context is a hypothesis "
             "(get_workflow_terminal_context c = (c, Val tctx)), non-literal outputs are the oracle's"},
    {"name": "C16_input_reaches_first_task", "strength": "P",
     "text": "composition input -> contexts[0] -> task context -> offered context for tasks reading [0]; partial: "
             "the legs through update_task_state (result -> publish -> contexts[i]) are proved per function "
             "(finalize_context) but not composed through process_transition; tied by the lock-step run"},
    {"name": "C16_private_task_ctx / C16_task_ctx_user_names / C16_offer_ctx", "strength": "F",
     "text": "the context evaluated for / offered with a task holds __current_task and __state and leaves every "
             "other name as the task context has it"},
    {"name": "C16_private / C16_private_delta", "strength": "F",
     "text": "for EVERY evaluator a published delta (vars, publish, output) contains only published names, exactly "
             "those when no expression failed: no double-underscore name enters unless a publish names it"},
    {"name": "(tested, not proved) YAQL/Jinja reference forms, ujson round trip, ctx() hiding, no mutation",
     "strength": "T", "text": "differential test of this module on the real code"},
]
TRUSTED_BASE = common.TRUSTED_BASE_COMMON + [
    "the strict comparison, the value generator and the Python rendering ref_merge of theorem C16_merge_lookup/"
    "C16_merge_key_order in harness/props/c16.py",
]
ASSUMPTIONS = [
    "theorems are about the Gallina model; expression evaluation is the oracle ev, assumed only to return "
    "delimiter-free strings unchanged (ev_literal_ok) where a theorem says so",
    "the behaviour of YAQL, Jinja, ujson and str() on values is tested (sampled zoo), not proved",
    "quantifier of the tested part: JSON values without the delimiters <% %> {{ }} {% in any string or key "
    "(the property's own restriction; strings with delimiters are evaluated again when referenced, see "
    "KNOWN_CANDIDATES C16-data-string-reevaluated); NaN payload bits are not compared",
]

DELIMS = ("<%", "%>", "{{", "}}", "{%")

# reference forms of the variable v in both languages, and the literal itself
FORMS = ["<% ctx().v %>", "<% ctx(v) %>", "<% ctx('v') %>", '<% ctx("v") %>', "<%ctx().v%>",
         "{{ ctx().v }}", "{{ ctx('v') }}", '{{ ctx("v") }}', "{{ctx().v}}"]


# ----------------------------------------------------------------------- strict comparison

def is_nan(x):
    return isinstance(x, float) and x != x


def strict_diff(a, b, path="$"):
    """None when b is exactly a (type and value); else (path, expected, observed) as text."""
    if type(a) is not type(b):
        return (path, "%s %r" % (type(a).__name__, a), "%s %r" % (type(b).__name__, b))
    if isinstance(a, float):
        if is_nan(a) and is_nan(b):
            return None
        if a.hex() != b.hex():
            return (path, a.hex(), b.hex())
        return None
    if isinstance(a, dict):
        ka, kb = list(a.keys()), list(b.keys())
        if ka != kb:
            return (path + ".keys", repr(ka), repr(kb))
        for k in ka:
            d = strict_diff(a[k], b[k], "%s[%r]" % (path, k))
            if d:
                return d
        return None
    if isinstance(a, (list, tuple)):
        if len(a) != len(b):
            return (path + ".len", str(len(a)), str(len(b)))
        for i, (x, y) in enumerate(zip(a, b)):
            d = strict_diff(x, y, "%s[%d]" % (path, i))
            if d:
                return d
        return None
    if a != b:
        return (path, repr(a), repr(b))
    return None


class _Missing(object):
    def __repr__(self):
        return "<missing>"


MISSING = _Missing()


def dig(x, *path):
    """x[path[0]][path[1]]... or MISSING (a destroyed value must be reported, not crash the check)."""
    for k in path:
        try:
            x = x[k]
        except Exception:
            return MISSING
    return x


def _items(d):
    return list(d.items()) if isinstance(d, dict) else [("<not a dict>", d)]


def enc(v):
    """Exact, order-preserving text form of a JSON value (for replay files)."""
    return wire.dumps(v).decode("latin-1")


def dec(s):
    return wire.loads(s.encode("latin-1"))


def short(v, n=300):
    r = repr(v)
    return r if len(r) <= n else r[:n] + "..."


# ----------------------------------------------------------------------- the value zoo

EDGE_INTS = [0, 1, -1, 7, 255, 2 ** 31 - 1, 2 ** 31, -2 ** 31, 2 ** 53, 2 ** 53 + 1, 2 ** 63 - 1, 2 ** 63, 2 ** 63 + 1,
             -2 ** 63, -2 ** 63 - 1, 2 ** 64 - 1, 2 ** 64, 2 ** 64 + 1, -2 ** 64, 2 ** 128 + 1, 10 ** 40, -10 ** 40]
EDGE_FLOATS = [0.0, -0.0, 5e-324, -5e-324, 2.2250738585072014e-308, 1.7976931348623157e308, -1.7976931348623157e308,
               0.1, 1.0 / 3, 1e16, 1e22, 1e23, 123456789.12345679, 9007199254740992.0, 1e-7, 1.5, -2.5, 1.0,
               float("inf"), float("-inf"), float("nan")]
LOOKALIKES = ["1", "0", "-1", "01", "1.0", "-0", "1e5", "0x10", "1_000", "18446744073709551616", "true", "false",
              "null", "None", "True", "False", "~", "yes", "no", "on", "off", "NaN", "Infinity", "", " ", "  x ",
              "%s", "%d", "%r", "%(a)s", "%", "%%", "100%", "{}", "{0}", "{a}", "{ }", "{0!r}", "[1, 2]", "[]",
              '{"a": 1}', '{"a": [1, "b"]}', '"quoted"', "'", '"', "\\", "\\n", "\\u0041", "a\nb", "a\r\nb", "\t",
              "\x00", "\x7f", "$", "$x", "$.v", "ctx()", "ctx().v", "ctx('v')", "result()", "<", ">", "< %", "% >",
              "{ {", "} }", "%}", "{ %", "{#", "#}", "#", "a: b", "- x", "!!python/none", "*ref", "&anchor",
              "1 + 1", "v", "__state", "__x"]
UNICODE = ["\u00e9", "\u00df\u00fc", "\u65e5\u672c\u8a9e", "\u0663", "\u202eabc", "\u2028", "\ufeff", "\uffff",
           "\U0001F600", "a\U0001F600b\U00010000", "\U0010FFFF", "e\u0301", "\u00a0", "\ud800", "x\udfffy"]
ALPHABET = ("abcXYZ019 _-.:,;!?()[]'\"\\/$#@&*+=<>%{}|~^`" + "\n\t" + "\u00e9\u00fc\u03b1\u0436\u4e2d\u6587"
            + "\U0001F600\U0001F4A9\U00010348")
KEY_POOL = ["a", "b", "k", "key", "x", "1", "0", "", " ", "a b", "a.b", "a-b", "true", "null", "__k", "__state", "items",
            "keys", "get", "v", "\u00e9", "\u65e5", "\U0001F600", "%s", "{0}", "$", "A", "z" * 40]


def clean(s):
    """The property quantifies over strings without expression delimiters."""
    while any(d in s for d in DELIMS):
        for d in DELIMS:
            s = s.replace(d, d[0] + " " + d[1])
    return s


def gen_int(rng):
    if rng.random() < 0.5:
        return rng.choice(EDGE_INTS)
    n = rng.getrandbits(rng.choice([4, 16, 32, 53, 62, 63, 64, 65, 100, 200]))
    return -n if rng.random() < 0.4 else n


def gen_float(rng):
    if rng.random() < 0.5:
        return rng.choice(EDGE_FLOATS)
    if rng.random() < 0.5:
        return struct.unpack("<d", struct.pack("<Q", rng.getrandbits(64)))[0]
    return rng.uniform(-1e6, 1e6)


def gen_str(rng):
    r = rng.random()
    if r < 0.45:
        return rng.choice(LOOKALIKES)
    if r < 0.65:
        return rng.choice(UNICODE)
    n = rng.choice([1, 2, 3, 5, 8, 20, 200])
    return clean("".join(rng.choice(ALPHABET) for _ in range(n)))


def gen_key(rng):
    return rng.choice(KEY_POOL) if rng.random() < 0.8 else gen_str(rng)


def gen_scalar(rng):
    r = rng.random()
    if r < 0.06:
        return None
    if r < 0.14:
        return rng.random() < 0.5
    if r < 0.38:
        return gen_int(rng)
    if r < 0.58:
        return gen_float(rng)
    return gen_str(rng)


def gen_value(rng, depth=0, max_depth=4, large=False):
    if large and depth == 0 and rng.random() < 0.01:
        # large collections: no size limit applies to values flowing through expressions
        n = rng.choice([1001, 1500])
        if rng.random() < 0.5:
            return list(range(n))
        return dict(("k%d" % i, i) for i in range(n))
    if depth >= max_depth or rng.random() < (0.25 + 0.2 * depth):
        return gen_scalar(rng)
    n = rng.choice([0, 1, 1, 2, 3, 4])
    if rng.random() < 0.5:
        return [gen_value(rng, depth + 1, max_depth) for _ in range(n)]
    d = {}
    for _ in range(n):
        d[gen_key(rng)] = gen_value(rng, depth + 1, max_depth)
    return d


def gen_dict(rng, depth=0):
    d = {}
    for _ in range(rng.choice([0, 1, 2, 3, 4])):
        k = rng.choice(["a", "b", "c", "n", "k", "", "1", "\u00e9"])
        if depth < 3 and rng.random() < 0.45:
            d[k] = gen_dict(rng, depth + 1)
        else:
            d[k] = gen_value(rng, 3)
    return d


def tags_of(v, out=None, depth=0):
    """What a value exercises (for the distribution and the non-triviality rule)."""
    out = set() if out is None else out
    if v is None:
        out.add("null")
    elif isinstance(v, bool):
        out.add("bool")
    elif isinstance(v, int):
        out.add("int_beyond_64" if (v >= 2 ** 63 or v < -2 ** 63) else "int")
    elif isinstance(v, float):
        if v != v or v in (float("inf"), float("-inf")):
            out.add("float_nonfinite")
        elif v != 0 and (abs(v) < 1e-300 or abs(v) > 1e300):
            out.add("float_extreme")
        elif v == 0 and v.hex().startswith("-"):
            out.add("float_negzero")
        else:
            out.add("float")
    elif isinstance(v, str):
        if any(ord(c) > 0xFFFF for c in v):
            out.add("str_astral")
        elif any(0xD800 <= ord(c) <= 0xDFFF for c in v):
            out.add("str_lone_surrogate")
        elif any(ord(c) > 127 for c in v):
            out.add("str_unicode")
        elif v in LOOKALIKES:
            out.add("str_lookalike")
        else:
            out.add("str_plain")
    elif isinstance(v, list):
        out.add("list_depth_%d" % (depth + 1))
        for x in v:
            tags_of(x, out, depth + 1)
    elif isinstance(v, dict):
        out.add("dict_depth_%d" % (depth + 1))
        for k, x in v.items():
            tags_of(k, out, depth + 1)
            if k.startswith("__"):
                out.add("nested_dunder_key")
            tags_of(x, out, depth + 1)
    return out


TRIVIAL_TAGS = {"null", "bool", "int", "float", "str_plain", "list_depth_1", "dict_depth_1"}


def nontrivial(tags):
    return bool(set(tags) - TRIVIAL_TAGS)


# ----------------------------------------------------------------------- known candidates

def ref_merge_json(lv, rv):
    """merge_json of coq/model/Base.v as characterised by C16_merge_lookup / C16_merge_replace."""
    if isinstance(lv, dict) and isinstance(rv, dict):
        return ref_merge(lv, rv)
    return rv


def ref_merge(l, r):
    out = {}
    for k in l:                       # C16_merge_key_order: left keys first, in their order
        out[k] = ref_merge_json(l[k], r[k]) if k in r else l[k]
    for k in r:                       # then the new right keys, in their order
        if k not in l:
            out[k] = r[k]
    return out


MUTATING_JINJA = [
    "{{ ctx().v.append(9) }}", "{{ ctx('v').append(9) }}", "{{ ctx().v.pop() }}", "{{ ctx().v.clear() }}",
    "{{ ctx().v.sort() }}", "{{ ctx().v.reverse() }}", "{{ ctx().v.extend([1]) }}", "{{ ctx().v.insert(0, 1) }}",
    "{{ ctx().d.update({'z': 1}) }}", "{{ ctx().d.pop('a') }}", "{{ ctx().d.setdefault('q', 5) }}",
    "{{ ctx().d.clear() }}", "{{ __vars.update({'z': 1}) }}", "{{ __vars.pop('v') }}",
    "{{ __state.update({'status': 'x'}) }}", "{% set x = ctx().v.append(3) %}{{ ctx().v }}",
]
PURE_PROBES = [
    "<% ctx().v.append(9) %>", "<% ctx().v + [1] %>", "<% ctx().d.set(z, 1) %>", "<% ctx().d.delete(a) %>",
    "<% ctx().v.orderBy($) %>", "<% ctx().v.reverse() %>", "<% ctx().d + dict(z=>1) %>", "<% ctx() %>",
    "{{ ctx().v + [1] }}", "{{ ctx().v|sort }}", "{{ ctx().v|reverse|list }}", "{{ ctx() }}",
    "{{ ctx().d|dictsort }}", "{{ ctx().v|length }}",
]
DIRECT_INTERNALS = ["<% $__state %>", "<% $__vars %>", "<% $__current_task %>", "{{ __state }}", "{{ __vars }}",
                    "{{ __current_task }}"]

KNOWN_CANDIDATES = {
    "C16-dict-republish-merge": {
        "what": "a dict value written over a variable that already holds a dict (publish over a var/input/"
                "earlier publish; runtime input over the parent context) is MERGED key by key, recursively, "
                "instead of replacing it: the next task / the output see old and new keys mixed, and an empty "
                "dict cannot reset a dict variable (inside the publishing block itself the later publishes see "
                "the replaced value)",
        "predicate": "stage reads the re-published name w; old and new value are both dicts; observed is exactly "
                     "ref_merge(old, new) (C16_merge_lookup) and differs from new",
        "reproducer": {"vars": [{"w": {"a": 1}}], "publish": [{"w": {"b": 2}}], "stage": "next task input "
                       "<% ctx().w %>", "expected": {"b": 2}, "observed": {"a": 1, "b": 2},
                       "also": "publish w: {} over {'k': 1} leaves {'k': 1}"},
        "anchor": "orquesta/utils/dictionary.py:17-34 used by conducting.py get_task_context / workflow_state",
    },
    "C16-jinja-mutation": {
        "what": "a Jinja expression can call a mutating method of a list/dict it reads from the context "
                "(SandboxedEnvironment, not ImmutableSandboxedEnvironment; ctx() copies only the top level and "
                "__vars/__state are the live objects): evaluating it modifies the context it is evaluated "
                "against, so later expressions rendered against the same context (further publishes, the input "
                "after the action, the next transition's criteria) see the modified value",
        "predicate": "kind purity, expression in MUTATING_JINJA (a Jinja call of append/pop/clear/sort/reverse/"
                     "extend/insert/update/setdefault on a context value or on __vars/__state), context changed",
        "reproducer": {"expr": "{{ ctx().v.append(9) }}", "context": {"v": [3, 1, 2]}, "stage": "expr_base.evaluate",
                       "expected": "context unchanged", "observed": {"v": [3, 1, 2, 9]}},
        "anchor": "orquesta/expressions/jinja.py:82-84, functions/common.py:53",
    },
    "C16-dunder-direct-variable": {
        "what": "the engine internals are bound as plain variables of both expression languages: YAQL "
                "$__state / $__vars / $__current_task and Jinja __state / __vars / __current_task return them "
                "(and the whole unfiltered context) without going through ctx(), so the hiding done by ctx() is "
                "bypassed",
        "predicate": "kind dunder, expression in DIRECT_INTERNALS, result contains the secret marker",
        "reproducer": {"expr": "<% $__state %>", "context": {"v": 1, "__state": {"secret": 5}},
                       "expected": "raise / hidden", "observed": {"secret": 5}},
        "anchor": "orquesta/expressions/yql.py:88-96, jinja.py:88-94",
    },
    "C16-dunder-publish-named": {
        "what": "a publish / output entry whose name starts with a double underscore is accepted and stored: "
                "the name appears in workflow_state.contexts[i] (i >= 1), in later task contexts and in the "
                "workflow output (finalize_context strips double-underscore names only from out_ctx, which the "
                "conductor discards; the stored delta new_ctx is not filtered)",
        "predicate": "kind dunder_publish, the offending key is literally named by a publish or output entry of "
                     "the definition",
        "reproducer": {"publish": [{"__mine": 5}], "output": [{"__o": 1}], "expected": "no key starting with __",
                       "observed": "contexts[1] == {'__mine': 5}; output == {'__o': 1}"},
        "anchor": "orquesta/specs/native/v1/models.py:203-230, conducting.py:1022-1035",
    },
    "C16-data-string-reevaluated": {
        "what": "OUTSIDE the property's quantifier (listed as the reproducer of the exclusion of delimiters from "
                "the zoo): a string VALUE that contains expression delimiters is evaluated again when a single "
                "expression returns it (yql.py:147-148, jinja.py:179-180) and when it is given as a runtime input",
        "predicate": "kind reeval, value is a string containing a delimiter pair, observed is the evaluation of it",
        "reproducer": {"value": "<% 1 + 1 %>", "expr": "<% ctx().v %>", "expected": "<% 1 + 1 %>", "observed": 2},
        "anchor": "orquesta/expressions/yql.py:147-148, jinja.py:179-180, specs/native/v1/models.py:660-664",
    },
}


SECRET = "S3CR3T-c16"


def _contains_secret(x):
    try:
        return SECRET in repr(x)
    except Exception:
        return True


def problem(kind, stage, what, **kw):
    p = {"property": "C16", "kind": kind, "stage": stage, "what": what}
    p.update(kw)
    return p


# ----------------------------------------------------------------------- stage: evaluate

def check_eval(value):
    """expr_base.evaluate on every reference form, on containers of forms and on the literal."""
    out = []
    n = 0
    stmts = [(f, f, value) for f in FORMS]
    stmts.append(("the literal itself", copy.deepcopy(value), value))
    stmts.append(("container of forms", {"k": FORMS[0], "l": [FORMS[5], "plain", 1]},
                  {"k": value, "l": [value, "plain", 1]}))
    stmts.append(("container of a form and the literal", [FORMS[2], {"lit": copy.deepcopy(value)}],
                  [value, {"lit": value}]))
    for label, stmt, expected in stmts:
        data = {"v": copy.deepcopy(value), "other": [1, {"a": "b"}], "__state": {"status": "running"},
                "__current_task": {"id": "t", "route": 0}}
        before = copy.deepcopy(data)
        n += 1
        try:
            got = expr_base.evaluate(copy.deepcopy(stmt), data)
        except Exception as e:
            out.append(problem("eval", "evaluate " + str(label), "evaluate raised %s: %s" % (type(e).__name__, str(e)[:300]),
                               value_wire=enc(value), form=label))
            continue
        d = strict_diff(expected, got)
        if d:
            out.append(problem("eval", "evaluate " + str(label),
                               "value not preserved by expr_base.evaluate(%s) at %s: expected %s, observed %s"
                               % (short(label, 60), d[0], d[1][:200], d[2][:200]),
                               value_wire=enc(value), expected=short(expected), observed=short(got)))
        d = strict_diff(before, data)
        if d:
            out.append(problem("eval", "context after " + str(label),
                               "evaluating %s modified the context at %s: before %s, after %s"
                               % (short(label, 60), d[0], d[1][:200], d[2][:200]), value_wire=enc(value)))
    n += 1
    try:
        got = json_util.deepcopy(copy.deepcopy(value))
        d = strict_diff(value, got)
        if d:
            out.append(problem("eval", "json_util.deepcopy", "value not preserved by json_util.deepcopy at %s: "
                               "expected %s, observed %s" % (d[0], d[1][:200], d[2][:200]), value_wire=enc(value)))
    except Exception as e:
        out.append(problem("eval", "json_util.deepcopy", "deepcopy raised %s: %s" % (type(e).__name__, e),
                           value_wire=enc(value)))
    return out, n


# ----------------------------------------------------------------------- stage: conductor

def make_def(v, old):
    c = copy.deepcopy
    return {
        "version": 1.0,
        "input": ["v", {"d": c(v)}],
        "vars": [{"lv": c(v)}, {"w": c(old)}],
        "tasks": {
            "t1": {"action": "core.echo",
                   "input": {"f0": "<% ctx().v %>", "f1": "<% ctx(v) %>", "f2": "<% ctx('v') %>",
                             "f3": "{{ ctx().v }}", "f4": "{{ ctx('v') }}", "lit": c(v), "d": "<% ctx().d %>",
                             "lv": "{{ ctx().lv }}", "nest": {"k": ["{{ ctx('v') }}", "<% ctx().v %>"]}},
                   "next": [{"publish": [{"p": "<% result() %>"}, {"pj": "{{ result() }}"}, {"pl": c(v)},
                                         {"pv": "<% ctx().v %>"}, {"w": "{{ ctx().v }}"}, {"all": "<% ctx() %>"}],
                             "do": "t2"}]},
            "t2": {"action": "core.echo",
                   "input": {"y": "<% ctx().p %>", "yj": "{{ ctx('pj') }}", "yl": "<% ctx(pl) %>",
                             "w": "<% ctx().w %>", "all": "{{ ctx() }}"},
                   "next": [{"publish": [{"r": "<% result() %>"}, {"allj": "{{ ctx() }}"}]}]}},
        "output": [{"o_p": "<% ctx().p %>"}, {"o_pj": "{{ ctx().pj }}"}, {"o_r": "<% ctx(r) %>"},
                   {"o_v": "{{ ctx('v') }}"}, {"o_lit": c(v)}, {"o_w": "<% ctx().w %>"}, {"o_all": "<% ctx() %>"}]}


def classify_republish(old, new, got):
    """known id when got is exactly the proved merge of two dicts and differs from the new value."""
    if isinstance(old, dict) and isinstance(new, dict) and strict_diff(new, got) is not None \
            and strict_diff(ref_merge(copy.deepcopy(old), copy.deepcopy(new)), got) is None:
        return "C16-dict-republish-merge"
    return None


def check_conductor(value, old, with_model):
    out = []
    stats = {"compared": 0, "calls": 0, "stages": {}}

    def chk(stage, got, expected=value, w=False):
        stats["compared"] += 1
        key = stage.split(":")[-1].split(".")[0]
        stats["stages"][key] = stats["stages"].get(key, 0) + 1
        d = strict_diff(expected, got)
        if d:
            p = problem("conductor", stage,
                        "value not preserved at stage %s (%s): expected %s, observed %s"
                        % (stage, d[0], d[1][:200], d[2][:200]),
                        value_wire=enc(value), old_wire=enc(old), expected=short(expected), observed=short(got))
            if w:
                k = classify_republish(old, value, got)
                if k:
                    p["known"] = k
            out.append(p)

    def nodunder(stage, d):
        stats["compared"] += 1
        if not isinstance(d, dict):
            out.append(problem("conductor", stage, "%s is not a dict: %s" % (stage, short(d, 120)),
                               value_wire=enc(value), old_wire=enc(old)))
            return
        bad = [k for k in d if isinstance(k, str) and k.startswith("__")]
        if bad:
            out.append(problem("conductor", stage, "double-underscore name(s) %r in %s" % (bad, stage),
                               value_wire=enc(value), old_wire=enc(old)))

    # a parent context holding another value under the input's name: the runtime input must win
    parent = {"v": "from-the-parent-context", "pq": 7} if (len(enc(value)) % 2 == 0) else None
    sess = provider.Session(make_def(value, old), {"v": copy.deepcopy(value)}, parent=parent, with_model=with_model)
    try:
        def stored(tag):
            c = sess.impl.c
            ws = c.workflow_state
            chk(tag + ":input.v", dig(c.get_workflow_input(), "v"))
            chk(tag + ":initial_context.v", dig(c.get_workflow_initial_context(), "v"))
            for k in ("v", "d", "lv"):
                chk(tag + ":ctx0." + k, dig(ws.contexts, 0, k))
            chk(tag + ":ctx0.w", dig(ws.contexts, 0, "w"), old)
            if len(ws.contexts) > 1:
                for k in ("p", "pj", "pl", "pv", "w"):
                    chk(tag + ":ctx1." + k, dig(ws.contexts, 1, k))
                chk(tag + ":ctx1.all.v", dig(ws.contexts, 1, "all", "v"))
                chk(tag + ":ctx1.all.w", dig(ws.contexts, 1, "all", "w"))
                nodunder(tag + ":ctx1.all", dig(ws.contexts, 1, "all"))
            if len(ws.contexts) > 2:
                chk(tag + ":ctx2.r", dig(ws.contexts, 2, "r"))
                chk(tag + ":ctx2.allj.p", dig(ws.contexts, 2, "allj", "p"))
                nodunder(tag + ":ctx2.allj", dig(ws.contexts, 2, "allj"))
            for i, cx in enumerate(ws.contexts):
                if i >= 1:
                    nodunder(tag + ":contexts[%d]" % i, cx)
            o = c.get_workflow_output()
            if o:
                for k in ("o_p", "o_pj", "o_r", "o_v", "o_lit"):
                    chk(tag + ":out." + k, dig(o, k))
                chk(tag + ":out.o_w", dig(o, "o_w"), w=True)
                chk(tag + ":out.o_all.r", dig(o, "o_all", "r"))
                nodunder(tag + ":output", o)
                nodunder(tag + ":out.o_all", dig(o, "o_all"))
            s = c.serialize()
            chk(tag + ":serialized.input", dig(s, "input", "v"))
            chk(tag + ":serialized.ctx0", dig(s, "state", "contexts", 0, "v"))
            if isinstance(dig(s, "state", "contexts"), list) and len(s["state"]["contexts"]) > 1:
                chk(tag + ":serialized.ctx1", dig(s, "state", "contexts", 1, "p"))
            if s.get("output"):
                chk(tag + ":serialized.output", dig(s, "output", "o_r"))

        sess.boot()
        stored("boot")
        sess.persist()
        stored("boot+persist")
        raw = sess.impl.c.get_next_tasks()
        chk("offer1:ctx.v", dig(raw, 0, "ctx", "v"))
        for k, x in _items(dig(raw, 0, "actions", 0, "input")):
            if k == "nest":
                chk("offer1:input.nest", x, {"k": [value, value]})
            else:
                chk("offer1:input." + k, x)
        sess.poll()
        sess.persist()
        stored("poll1+persist")
        sess.report(("t1", 0, None), "succeeded", copy.deepcopy(value))
        stored("report1")
        sess.persist()
        stored("report1+persist")
        raw = sess.impl.c.get_next_tasks()
        for k in ("v", "p", "pj", "pl", "pv"):
            chk("offer2:ctx." + k, dig(raw, 0, "ctx", k))
        chk("offer2:ctx.w", dig(raw, 0, "ctx", "w"), w=True)
        inp = dig(raw, 0, "actions", 0, "input")
        for k in ("y", "yj", "yl"):
            chk("offer2:input." + k, dig(inp, k))
        chk("offer2:input.w", dig(inp, "w"), w=True)
        nodunder("offer2:input.all", dig(inp, "all"))
        chk("offer2:input.all.p", dig(inp, "all", "p"))
        sess.poll()
        sess.persist()
        sess.report(("t2", 0, None), "succeeded", copy.deepcopy(value))
        stored("report2")
        sess.persist()
        stored("report2+persist")
        sess.render()
        stored("render")
        sess.persist()
        stored("render+persist")
        if sess.status() != "succeeded":
            out.append(problem("conductor", "end", "workflow ended %s: %s" % (sess.status(), short(sess.impl.c.errors)),
                               value_wire=enc(value), old_wire=enc(old)))
    except provider.Divergence as d:
        stats["divergence"] = {"value_wire": enc(value), "old_wire": enc(old), "info": json.loads(
            json.dumps(d.info, default=str))}
    finally:
        stats["calls"] = len(sess.trace)
        sess.close()
    return out, stats


def check_finalize(value, old):
    """TaskSpec.finalize_context called as conducting.py calls it: new_ctx holds exactly the published
    names with the values unchanged; out_ctx carries no double-underscore name (models.py:224-230)."""
    out = []
    n = 0
    spec = engine.native_specs.WorkflowSpec(make_def(value, old))
    cond = engine.conducting.WorkflowConductor(spec)
    tr = cond.graph.get_next_transitions("t1")[0]
    ts = spec.tasks.get_task("t1")
    in_ctx = {"v": copy.deepcopy(value), "w": copy.deepcopy(old), "keep": [1, {"a": "b"}],
              "__current_task": {"id": "t1", "route": 0, "result": copy.deepcopy(value)},
              "__state": {"status": "running", "secret": SECRET}}
    given = copy.deepcopy(in_ctx)
    try:
        out_ctx, new_ctx, errors = ts.finalize_context("t2", tr, given)
    except Exception as e:
        return [problem("finalize", "finalize_context", "finalize_context raised %s: %s" % (type(e).__name__, str(e)[:300]),
                        value_wire=enc(value), old_wire=enc(old))], 1

    def chk(stage, expected, got):
        d = strict_diff(expected, got)
        if d:
            out.append(problem("finalize", stage, "finalize_context: %s differs at %s: expected %s, observed %s"
                               % (stage, d[0], d[1][:200], d[2][:200]), value_wire=enc(value), old_wire=enc(old)))
    n += 1
    chk("errors", [], errors)
    n += 1
    chk("names of new_ctx", ["p", "pj", "pl", "pv", "w", "all"], list(new_ctx.keys()))
    for k in ("p", "pj", "pl", "pv", "w"):
        n += 2
        chk("new_ctx." + k, value, new_ctx.get(k))
        kid = classify_republish(old, value, out_ctx.get(k)) if k == "w" else None
        if kid:
            out.append(problem("finalize", "out_ctx.w", "finalize_context: out_ctx.w is the merge of the old and the "
                               "published dict", value_wire=enc(value), old_wire=enc(old), known=kid))
        else:
            chk("out_ctx." + k, value, out_ctx.get(k))
    n += 3
    chk("out_ctx.v", value, out_ctx.get("v"))
    chk("out_ctx.keep", in_ctx["keep"], out_ctx.get("keep"))
    chk("new_ctx.all", {"v": value, "w": value, "keep": in_ctx["keep"], "p": value, "pj": value, "pl": value,
                        "pv": value}, new_ctx.get("all"))
    for name, d in (("out_ctx", out_ctx), ("new_ctx", new_ctx), ("new_ctx.all", new_ctx.get("all") or {})):
        n += 1
        bad = [k for k in d if k.startswith("__")]
        if bad or _contains_secret(d):
            out.append(problem("finalize", name, "finalize_context leaves engine internals %r in %s" % (bad, name),
                               value_wire=enc(value), old_wire=enc(old)))
    return out, n



# ----------------------------------------------------------------------- stage: merge_dicts

def check_merge(l, r):
    out = []
    want = ref_merge(copy.deepcopy(l), copy.deepcopy(r))
    r_before = copy.deepcopy(r)
    try:
        got = dict_util.merge_dicts(copy.deepcopy(l), r, overwrite=True)
    except Exception as e:
        return [problem("merge", "merge_dicts", "merge_dicts raised %s: %s" % (type(e).__name__, e),
                        value_wire=enc(l), old_wire=enc(r))]
    d = strict_diff(want, got)
    if d:
        out.append(problem("merge", "merge_dicts",
                           "utils.dictionary.merge_dicts differs from the proved characterisation at %s: expected %s, "
                           "observed %s" % (d[0], d[1][:200], d[2][:200]), value_wire=enc(l), old_wire=enc(r)))
    d = strict_diff(r_before, r)
    if d:
        out.append(problem("merge", "merge_dicts right operand", "merge_dicts modified its right operand at %s" % d[0],
                           value_wire=enc(l), old_wire=enc(r)))
    return out


# ----------------------------------------------------------------------- stage: dunder



def check_dunder(value):
    """Reads of double-underscore names through ctx() raise or are filtered."""
    out = []
    n = 0
    data = {"v": copy.deepcopy(value), "plain": 1,
            "__state": {"status": "running", "secret": SECRET}, "__current_task": {"id": SECRET, "route": 0, "result": SECRET},
            "__current_item": SECRET, "__mine": SECRET}
    must_raise = []
    for name in ("__state", "__current_task", "__current_item", "__mine"):
        must_raise += ["<% ctx('" + name + "') %>", '<% ctx("' + name + '") %>', "<% ctx(" + name + ") %>",
                       "<% ctx()." + name + " %>", "{{ ctx('" + name + "') }}", '{{ ctx("' + name + '") }}',
                       "{{ ctx()." + name + " }}", "{{ ctx()['" + name + "'] }}"]
    for e in must_raise:
        n += 1
        try:
            got = expr_base.evaluate(e, copy.deepcopy(data))
        except Exception:
            continue
        out.append(problem("dunder", "read " + e, "reading a double-underscore name through ctx did not raise: "
                           "%s -> %s" % (e, short(got, 120)), value_wire=enc(value), form=e))
    hidden = ["<% ctx() %>", "{{ ctx() }}", "<% ctx().get('__state') %>", "{{ ctx().get('__state') }}",
              "<% ctx().keys() %>", "{{ ctx().keys()|list }}", "<% ctx().values() %>", "{{ ctx().items()|list }}",
              "<% ctx().get('__mine', 0) %>", "{{ ctx()|string }}", "<% str(ctx()) %>", "{{ ctx()|tojson }}"]
    for e in hidden:
        n += 1
        try:
            got = expr_base.evaluate(e, copy.deepcopy(data))
        except Exception:
            continue
        if _contains_secret(got) or (isinstance(got, dict) and any(str(k).startswith("__") for k in got)):
            out.append(problem("dunder", "filter " + e, "ctx() exposed a double-underscore name: %s -> %s"
                               % (e, short(got, 160)), value_wire=enc(value), form=e))
    for e in ("<% ctx() %>", "{{ ctx() }}"):
        n += 1
        got = expr_base.evaluate(e, copy.deepcopy(data))
        d = strict_diff({"v": value, "plain": 1}, got)
        if d:
            out.append(problem("dunder", "filter " + e, "ctx() is not the context minus the double-underscore "
                               "names at %s: expected %s, observed %s" % (d[0], d[1][:160], d[2][:160]),
                               value_wire=enc(value), form=e))
    for e in DIRECT_INTERNALS:
        n += 1
        try:
            got = expr_base.evaluate(e, copy.deepcopy(data))
        except Exception:
            continue
        if _contains_secret(got):
            out.append(problem("dunder", "direct " + e, "engine internals readable without ctx(): %s -> %s"
                               % (e, short(got, 120)), value_wire=enc(value), form=e,
                               known="C16-dunder-direct-variable"))
    return out, n


def check_dunder_publish(value, with_model):
    """A workflow that tries to read internals in publish/output, and one that names a dunder."""
    out = []
    calls = 0
    d1 = {"version": 1.0, "input": ["v"],
          "tasks": {"t1": {"action": "core.noop",
                           "next": [{"publish": [{"a": "<% ctx() %>"}, {"b": "{{ ctx() }}"}], "do": "t2"}]},
                    "t2": {"action": "core.noop",
                           "next": [{"publish": [{"leak": "<% ctx('__state') %>"}]}]}},
          "output": [{"o": "<% ctx() %>"}]}
    sess = provider.Session(d1, {"v": copy.deepcopy(value)}, with_model=with_model)
    try:
        sess.boot()
        sess.poll()
        sess.report(("t1", 0, None), "succeeded", None)
        sess.poll()
        sess.report(("t2", 0, None), "succeeded", None)
        sess.render()
        c = sess.impl.c
        if sess.status() != "failed":
            out.append(problem("dunder_publish", "publish ctx('__state')", "publishing ctx('__state') did not fail the "
                               "workflow (status %s)" % sess.status(), value_wire=enc(value)))
        for i, cx in enumerate(c.workflow_state.contexts):
            bad = [k for k in cx if k.startswith("__")] if i >= 1 else []
            for k in ("a", "b"):
                if isinstance(cx.get(k), dict):
                    bad += ["%s.%s" % (k, kk) for kk in cx[k] if kk.startswith("__")]
            if bad or "leak" in cx:
                out.append(problem("dunder_publish", "contexts[%d]" % i, "internals in a published context: %r"
                                   % (bad or ["leak"]), value_wire=enc(value)))
        o = c.get_workflow_output() or {}
        bad = [k for k in o if k.startswith("__")] + [k for k in (o.get("o") or {}) if k.startswith("__")]
        if bad:
            out.append(problem("dunder_publish", "output", "internals in the output: %r" % bad, value_wire=enc(value)))
    except provider.Divergence as d:
        out.append({"divergence": json.loads(json.dumps(d.info, default=str)), "value_wire": enc(value)})
    finally:
        calls += len(sess.trace)
        sess.close()
    # a publish / output that NAMES a double-underscore variable (known candidate)
    d2 = {"version": 1.0, "input": ["v"],
          "tasks": {"t1": {"action": "core.noop", "next": [{"publish": [{"__mine": "<% ctx().v %>"}], "do": "t2"}]},
                    "t2": {"action": "core.noop"}},
          "output": [{"__o": "<% ctx().v %>"}]}
    named = {"__mine", "__o"}
    sess = provider.Session(d2, {"v": copy.deepcopy(value)}, with_model=with_model)
    try:
        sess.boot()
        sess.poll()
        sess.report(("t1", 0, None), "succeeded", None)
        sess.poll()
        sess.report(("t2", 0, None), "succeeded", None)
        sess.render()
        c = sess.impl.c
        for i, cx in enumerate(c.workflow_state.contexts[1:], 1):
            for k in cx:
                if k.startswith("__"):
                    p = problem("dunder_publish", "contexts[%d]" % i, "published context holds the double-underscore "
                                "name %r" % k, value_wire=enc(value), key=k)
                    if k in named:
                        p["known"] = "C16-dunder-publish-named"
                    out.append(p)
        for k in (c.get_workflow_output() or {}):
            if k.startswith("__"):
                p = problem("dunder_publish", "output", "output holds the double-underscore name %r" % k,
                            value_wire=enc(value), key=k)
                if k in named:
                    p["known"] = "C16-dunder-publish-named"
                out.append(p)
    except provider.Divergence as d:
        out.append({"divergence": json.loads(json.dumps(d.info, default=str)), "value_wire": enc(value)})
    finally:
        calls += len(sess.trace)
        sess.close()
    return out, calls


# ----------------------------------------------------------------------- stage: purity / re-evaluation

def check_purity(rng):
    out = []
    n = 0
    lst = [rng.randint(0, 9) for _ in range(rng.randint(2, 5))]
    base = {"v": lst, "d": {"a": 1, "b": [1, 2]}, "__state": {"status": "running"}}
    for e in PURE_PROBES + FORMS + MUTATING_JINJA:
        n += 1
        data = copy.deepcopy(base)
        try:
            expr_base.evaluate(e, data)
        except Exception:
            pass
        d = strict_diff(base, data)
        if d:
            p = problem("purity", "evaluate " + e, "evaluating %s modified the context at %s: before %s, after %s"
                        % (e, d[0], d[1][:120], d[2][:120]), form=e, value_wire=enc(base))
            if e in MUTATING_JINJA:
                p["known"] = "C16-jinja-mutation"
            out.append(p)
    # strings with delimiters are outside the quantifier; the reproducer of that exclusion
    for form in ("<% ctx().v %>", "{{ ctx().v }}"):
        n += 1
        v = "<% 1 + 1 %>"
        try:
            got = expr_base.evaluate(form, {"v": v})
        except Exception as e:
            got = "raised %s" % type(e).__name__
        if strict_diff(v, got):
            out.append(problem("reeval", "evaluate " + form, "a string value with delimiters is evaluated again: "
                               "%r -> %r" % (v, got), form=form, value_wire=enc(v),
                               known="C16-data-string-reevaluated"))
    return out, n


# ----------------------------------------------------------------------- driver

def _work(job):
    kind, seed, with_model = job
    rng = random.Random(seed)
    res = {"kind": kind, "seed": seed, "problems": [], "n": 0, "calls": 0, "tags": [], "key": None}
    try:
        if kind == "eval":
            v = gen_value(rng, large=True)
            res["problems"], res["n"] = check_eval(v)
            res["tags"] = sorted(tags_of(v))
            res["key"] = hashlib.sha1(("eval" + enc(v)).encode("latin-1")).hexdigest()[:16]
            res["sample"] = short(v, 400)
        elif kind == "conductor":
            v = gen_value(rng)
            old = gen_dict(rng) if (isinstance(v, dict) and rng.random() < 0.8) else gen_value(rng, 2)
            res["problems"], st = check_conductor(v, old, with_model)
            pf, nf = check_finalize(v, old)
            res["problems"] += pf
            st["stages"]["finalize_context"] = nf
            res["n"], res["calls"], res["stages"] = st["compared"] + nf, st["calls"], st["stages"]
            if "divergence" in st:
                res["divergence"] = st["divergence"]
            res["tags"] = sorted(tags_of(v) | ({"republish_dict_over_dict"} if isinstance(v, dict) and isinstance(old, dict) else set()))
            res["key"] = hashlib.sha1(("cond" + enc(v) + enc(old)).encode("latin-1")).hexdigest()[:16]
            res["sample"] = {"input v": short(v, 300), "var w before re-publish": short(old, 120)}
        elif kind == "merge":
            l, r = gen_dict(rng), gen_dict(rng)
            res["problems"] = check_merge(l, r)
            res["n"] = 1
            shared = [k for k in r if k in l]
            res["tags"] = ["merge_shared_keys"] if shared else ["merge_disjoint"]
            if any(isinstance(l[k], dict) and isinstance(r[k], dict) for k in shared):
                res["tags"].append("merge_nested")
            if any(isinstance(l[k], dict) != isinstance(r[k], dict) for k in shared):
                res["tags"].append("merge_dict_vs_nondict")
            res["key"] = hashlib.sha1(("merge" + enc(l) + enc(r)).encode("latin-1")).hexdigest()[:16]
            res["nontrivial"] = bool(shared)
        elif kind == "dunder":
            v = gen_value(rng, 2)
            res["problems"], res["n"] = check_dunder(v)
            p2, calls = check_dunder_publish(v, with_model)
            for p in p2:
                if "divergence" in p:
                    res["divergence"] = p
                else:
                    res["problems"].append(p)
            res["calls"] = calls
            res["tags"] = ["dunder"]
            res["key"] = hashlib.sha1(("dunder" + enc(v)).encode("latin-1")).hexdigest()[:16]
            res["nontrivial"] = True
        elif kind == "purity":
            res["problems"], res["n"] = check_purity(rng)
            res["tags"] = ["purity"]
            res["key"] = "purity%d" % seed
            res["nontrivial"] = True
    except Exception:
        res["error"] = traceback.format_exc()[-1500:]
        # the case is regenerated from its seed on replay
    for p in res["problems"]:
        p["seed"] = seed
    return res


def plan(tier, seed):
    q = tier == "quick"
    counts = {"eval": 4000 if q else 60000, "conductor": 1280 if q else 16000, "merge": 12000 if q else 150000,
              "dunder": 160 if q else 2000, "purity": 16 if q else 100}
    base = (seed * 1000003) % (2 ** 31)
    jobs = []
    off = 0
    for kind in ("conductor", "eval", "dunder", "purity", "merge"):
        jobs += [(kind, base + off + i) for i in range(counts[kind])]
        off += 10 ** 6
    # interleave the kinds (seeded), so that a run cut short by its time budget has covered every kind
    random.Random(seed).shuffle(jobs)
    return jobs


def run(ctx):
    tier, seed = ctx["tier"], ctx["seed"]
    with_model = bool(ctx["model_ok"])
    jobs = [(k, s, with_model) for k, s in plan(tier, seed)]
    budget = 45 if tier == "quick" else 420
    deadline = time.time() + budget
    results = []
    with multiprocessing.Pool(16) as pool:
        for r in pool.imap_unordered(_work, jobs, chunksize=8):
            results.append(r)
            if time.time() > deadline:
                pool.terminate()
                break
    results.sort(key=lambda r: (r["kind"], r["seed"]))
    out = {"evaluations": len(results), "violations": [], "known_lines": [], "correspondence_broken": None}
    dist = {"cases_by_kind": {}, "value_tags": {}, "comparisons_by_kind": {}, "conductor_stage_comparisons": {},
            "planned_cases": len(jobs), "completed_cases": len(results)}
    nt = set()
    calls = 0
    samples = []
    known_seen = {}
    for r in results:
        k = r["kind"]
        dist["cases_by_kind"][k] = dist["cases_by_kind"].get(k, 0) + 1
        dist["comparisons_by_kind"][k] = dist["comparisons_by_kind"].get(k, 0) + r.get("n", 0)
        for t in r.get("tags", []):
            dist["value_tags"][t] = dist["value_tags"].get(t, 0) + 1
        for s, c in (r.get("stages") or {}).items():
            dist["conductor_stage_comparisons"][s] = dist["conductor_stage_comparisons"].get(s, 0) + c
        calls += r.get("calls", 0)
        if r.get("nontrivial", nontrivial(r.get("tags", []))) and r.get("key"):
            nt.add(r["key"])
        if k == "conductor" and len(samples) < 3 and nontrivial(r.get("tags", [])):
            samples.append({"kind": k, "seed": r["seed"], "case": r.get("sample"), "tags": r.get("tags")})
        if "error" in r:
            out["violations"].append({"property": "C16", "kind": k, "seed": r["seed"],
                                      "what": "harness error while running a case", "error": r["error"]})
        if "divergence" in r and out["correspondence_broken"] is None:
            out["correspondence_broken"] = {"first": r["divergence"], "kind": k, "seed": r["seed"]}
        for p in r["problems"]:
            kid = p.get("known")
            if kid:
                known_seen[kid] = known_seen.get(kid, 0) + 1
                if known_seen[kid] > 3:
                    continue            # keep a few witnesses of every known candidate, not thousands
            out["violations"].append(p)
    if out["correspondence_broken"]:
        n_div = sum(1 for r in results if "divergence" in r)
        out["correspondence_broken"]["cases_diverging"] = n_div
    for kid, n in sorted(known_seen.items()):
        out["known_lines"].append("%s %s (%d case(s) in this run)" % (kid, KNOWN_CANDIDATES[kid]["what"][:230], n))
    dist["known_candidates_seen"] = known_seen
    out["distinct_nontrivial"] = len(nt)
    out["traces_validated"] = calls if with_model else 0
    out["distribution"] = dist
    out["samples"] = samples or [{"note": "no conductor case completed"}]
    out["rule"] = (
        "seeded generator of JSON values (nesting <= 4; ints around and beyond 2^63/2^64/2^128; floats incl. "
        "denormals, max, -0.0, inf, nan, random bit patterns, compared by float.hex(); strings that look like "
        "numbers/booleans/null/format directives/JSON/YAML/expressions without delimiters; unicode incl. astral "
        "and lone surrogates; keys incl. '', '1', '__k', 'items') x reference forms %s and the literal, x stages "
        "(evaluate, context-after-evaluate, json_util.deepcopy, and per conductor run: input, contexts[0], "
        "offered ctx and action input by every form, result -> publish by result() in both languages, next "
        "task's input, re-publish over an existing variable, output, each again after deserialize(serialize()); "
        "engine and Coq model in lock step), plus merge_dicts vs the proved characterisation, ctx() hiding and "
        "mutation probes.  A case is non-trivial when its value has a tag outside %s (merge: the operands share "
        "a key); distinct = distinct exact encodings of (kind, values)" % (FORMS, sorted(TRIVIAL_TAGS)))
    real = [v for v in out["violations"] if not v.get("known")]
    out["search"] = {"cases": len(results), "budget_s": budget, "found": len(real),
                     "note": "the differential checks on the real code are the search; they run whether or not "
                             "the proofs / the model build"}
    return out


def replay(payload):
    """Re-run the stage of a stored problem on its stored value(s); 1 if it still fails (and is not known)."""
    kind = payload.get("kind")
    if kind in ("eval", "conductor", "merge", "dunder", "purity") and "value_wire" not in payload and "seed" in payload:
        # a case stored by its seed (harness error): regenerate it
        r = _work((kind, payload["seed"], False))
        if "error" in r:
            print("violation reproduced: harness error\n" + r["error"][-800:])
            return 1
        bad = [p for p in r["problems"] if not p.get("known")]
        for p in bad[:10]:
            print("violation reproduced:", json.dumps({k: p[k] for k in ("stage", "what")}, default=str)[:900])
        if not bad:
            print("no violation on replay")
        return 1 if bad else 0
    if kind is None or ("value_wire" not in payload and kind != "purity"):
        print("replay file names a broken obligation, not a concrete input:")
        print(json.dumps(payload, indent=1, default=str)[:3000])
        return 1
    if kind == "eval":
        ps, _ = check_eval(dec(payload["value_wire"]))
    elif kind == "conductor":
        ps, st = check_conductor(dec(payload["value_wire"]), dec(payload["old_wire"]), False)
    elif kind == "finalize":
        ps, _ = check_finalize(dec(payload["value_wire"]), dec(payload["old_wire"]))
    elif kind == "merge":
        ps = check_merge(dec(payload["value_wire"]), dec(payload["old_wire"]))
    elif kind == "dunder":
        ps, _ = check_dunder(dec(payload["value_wire"]))
    elif kind == "dunder_publish":
        ps, _ = check_dunder_publish(dec(payload["value_wire"]), False)
    else:
        ps, _ = check_purity(random.Random(payload.get("seed", 0)))
    bad = [p for p in ps if not p.get("known")]
    for p in bad[:10]:
        print("violation reproduced:", json.dumps({k: p[k] for k in ("stage", "what")}, default=str)[:900])
    for p in [p for p in ps if p.get("known")][:5]:
        print("known candidate %s: %s" % (p["known"], p["what"][:300]))
    if not bad:
        print("no violation on replay")
    return 1 if bad else 0
