"""C17 -- Rerun re-executes only what was asked and converges to the clean outcome."""
from harness import monitors, progs
from harness.props import common

THEOREMS = [
    {"name": "C17_refused_when_not_completed", "strength": "F", "text": "refused with an error, state exactly as before"},
    {"name": "C17_refused_for_unknown_execution", "strength": "F", "text": "refused with an error, state exactly as before"},
    {"name": "C17_accepted_effect", "strength": "F", "text": "accepted => status resuming and output reset"},
    {"name": "C17_appends_only", "strength": "F", "text": "a rerun only appends to the history (R18)"},
    {"name": "C17b_accepted_candidates / C17b_default_candidates / C17b_terminal_tasks / C17b_collapsed / "
             "C17b_explicit_candidates (props/C17b.v)", "strength": "F",
     "text": "WHAT is re-executed, exactly: with no request list, the last terminal abended record of each (task, route); with "
             "an explicit list, the requested pairs minus those whose downstream sequence is a proper subset of another "
             "request's (the collapse rule, after repair D31 -- Examples two_requests_collapsed, three_requests_collapsed)"},
    {"name": "C17b_rerun_plain_exact / C17b_rerun_items_exact", "strength": "F",
     "text": "the effect per candidate as an equation: a plain task gets a new record (same id, route, ctxs.in, prev; no "
             "status, next, out) and a ready staged entry, the pointer moves, the old record loses only its terminal flag; a "
             "staged with-items task gets its abended (or all) items reset and nothing appended"},
    {"name": "C17b_accepted_frame / C17b_offers_after_rerun", "strength": "F",
     "text": "NOTHING ELSE: contexts, routes, graph unchanged; the staged entries of non-candidate keys exactly as before "
             "(stale entries survive -- where finding D21 lives); reruns gets one entry; status resuming, output reset; the "
             "next poll offers only candidates' entries or entries staged before"},
    {"name": "C17b_empty_rerun_accepted", "strength": "R",
     "text": "finding D9 as an exact equation: with no candidate the call is accepted and leaves the workflow resuming with "
             "nothing staged; Example engine_command_is_a_candidate is finding D8"},
    {"name": "(tested, not proved) convergence to the clean outcome", "strength": "T",
     "text": "monitor c17: admission/effect on random histories with reruns (1-3 requests); twin simulation: fail, default "
             "rerun, re-executed actions succeed, compared with the clean run"},
]
TRUSTED_BASE = common.TRUSTED_BASE_COMMON
ASSUMPTIONS = ["convergence is a relation between two executions and is tested, not proved",
               "known findings D8 (default rerun offers the fail command) and D9 (rerun with nothing to rerun is accepted)"]
FAM = progs.family(unique_writers=True, per_task=True, twin=True, p_loop=0.0, p_late_join=0.0, p_other_abend=0.12,
                   p_retry=0.0, p_fail=0.3, p_item_fail=0.2, p_items=0.2, p_cmd=0.1, n_tasks=(2, 7),
                   w_rerun=2.5, w_rerun_any=0.5, w_ctrl=0.5, steps=(15, 70))


def features(sess):
    f = dict(getattr(sess, "rel_features", {}) or {})
    f["history_rerun_accepted"] = any(op[0] == "rerun" and o["raised"] is None for op, o in sess.trace)
    f["history_rerun_refused"] = any(op[0] == "rerun" and o["raised"] is not None for op, o in sess.trace)
    return f


def nontrivial(r):
    f = r.get("features") or {}
    return bool(f.get("rerun_accepted") or f.get("history_rerun_accepted"))


def run(ctx):
    return common.conductor_run(
        ctx, "C17", FAM, common.project_full, monitors.c17, features, nontrivial, 200, 3000,
        rule="generated definitions with a 30% task failure rate; (a) random histories with frequent rerun requests "
             "(default, named executions incl. non-existent, reset_items) compared with the Coq model after every call; "
             "(b) twin: simulate to failure, default rerun, re-executed actions succeed, compare with the clean run; "
             "non-trivial = a rerun was accepted")


def replay(payload):
    return common.replay_conductor(payload, lambda s: [])
