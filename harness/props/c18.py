"""C18 -- Execution history is append-only; finished records never change."""
from harness import monitors, progs
from harness.props import common

THEOREMS = [
    {"name": "C18_append_only", "strength": "F",
     "text": "for every evaluator, state and history of API calls (all but the persist round trip, which is C05): "
             "contexts/routes of the state before are a prefix of those after; no record is removed or moved; id, "
             "route, ctxs.in and prev of every existing record are unchanged; holds for calls that raise too"},
    {"name": "C18_append_only_step", "strength": "F", "text": "the same for a single API call"},
    {"name": "C18b_decided_record_frozen_always / C18b_decided_record_frozen_step_always (props/C18b.v)", "strength": "F",
     "text": "for every evaluator, state and history of API calls other than persist (reruns, late, duplicate and malformed "
             "events included; only an internal retry event injected from outside is excluded): a record whose status is "
             "completed keeps id, route, ctxs.in, prev, status, next (the decisions), its published context index and its retry "
             "record -- whatever its retry budget; only the terminal flag may change.  (Before repair D33 this needed 'no "
             "retries left': a late report re-evaluated the retry; the former refuting witness is now "
             "C18b_decided_record_kept_with_retries_left)"},
    {"name": "C18b_w_injected_retry_event_reopens", "strength": "R",
     "text": "the remaining exclusion is needed: the internal retry event sent from outside reopens a decided record"},
    {"name": "C18b_retry_call_decides_nothing / _retry_branch_decides_nothing / _enters_retrying_only_by_retry_event",
     "strength": "F", "text": "a retried attempt is reopened before any transition is decided: the call that retries "
                              "changes no record's next/out and appends no context snapshot, also when it raises"},
    {"name": "(tested) monitor c18 on every generated history", "strength": "T", "text": "decided records frozen under the protocol"},
]
TRUSTED_BASE = common.TRUSTED_BASE_COMMON
ASSUMPTIONS = [
    "theorems are about the Gallina model coq/model/Conductor.v; the tie to /repo is the lock-step comparison of "
    "serialize() after every API call on generated histories (sampled)",
    "Python aliasing is outside the model: that a record does not share containers with its staged entry is tied "
    "by the live-vs-model comparison (the model has value semantics) and by C05's persisted-vs-live runs",
]

FAM = progs.family(p_join_items=0.6, p_cleanup_fail=0.25, p_item_fail=0.3, p_join_retry=0.5, p_pub_dict=0.35, p_publish=0.6, n_tasks=(3, 8), p_join=0.7, p_join_count=0.5, p_items=0.4, p_loop=0.2, p_retry=0.35, p_late_join=0.5, p_fail=0.3,
                   steps=(15, 70))


def features(sess):
    last = sess.trace[-1][1]["state"]["state"]
    seq = last["sequence"]
    ids = [(r["id"], r["route"]) for r in seq]
    return {"multi_record_task": len(set(ids)) < len(ids),
            "join_staged_growth": any(len(s["ctxs"]["in"]) > 2 for _, o in sess.trace for s in o["state"]["state"]["staged"]),
            "records>=4": len(seq) >= 4, "contexts>=3": len(last["contexts"]) >= 3}


def nontrivial(r):
    f = r.get("features") or {}
    return bool(f.get("records>=4") and f.get("contexts>=3"))


def gen_with_opaque_input(rng, fam):
    """The same definitions with one more runtime input whose value is not JSON (a datetime): the engine's copies of
    contexts then go through its fallback path.  Engine-only (the JSON model cannot hold the value)."""
    import datetime
    d, inputs = progs.gen_definition(rng, fam)
    d["input"] = list(d.get("input") or []) + ["started_at"]
    inputs = dict(inputs, started_at=datetime.datetime(2020, 1, 2, 3, 4, 5))
    return d, inputs


def run(ctx):
    out = common.conductor_run(
        ctx, "C18", FAM, common.project_full, monitors.c18, features, nontrivial, 800, 8000,
        rule="generated definitions weighted to multi-referenced tasks, joins, with-items, loops and retries with random "
             "histories; non-trivial = at least 4 execution records and 3 context snapshots; distinct = distinct "
             "(definition, operation list)")
    # engine-only batch with a non-JSON runtime input (monitor c18 + the aliasing detector; no model)
    n = 150 if ctx["tier"] == "quick" else 1500
    base = (ctx["seed"] * 7919 + 13) % (2 ** 31)
    cfg = {"fam": FAM, "project": common.project_full, "monitor": monitors.c18, "features": features,
           "gen": gen_with_opaque_input, "history": progs.run_history, "known_ids": [], "alias_check": True}
    res = common.run_cases([base + i for i in range(n)], False, cfg)
    out["engine_only_cases_with_non_json_input"] = len(res)
    for r in res:
        for v in r.get("violations", []):
            v = dict(v)
            v.update({"property": "C18", "seed": r["seed"], "definition": r["definition"],
                      "inputs": {k: str(x) for k, x in (r.get("inputs") or {}).items()}, "non_json_input": True})
            if "ops" not in v:
                v["ops"] = r["ops"][: v.get("step", len(r["ops"]) - 1) + 1]
            out["violations"].append(v)
        if r.get("error"):
            out["violations"].append({"property": "C18", "what": "harness error in the non-JSON batch",
                                      "error": r["error"][-600:], "seed": r["seed"]})
            break
    return out


def replay(payload):
    if payload.get("non_json_input") and isinstance(payload.get("inputs"), dict):
        import datetime
        payload = dict(payload, inputs=dict(payload["inputs"], started_at=datetime.datetime(2020, 1, 2, 3, 4, 5)))
    return common.replay_conductor(payload, monitors.c18)
