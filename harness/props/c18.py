"""C18 -- Execution history is append-only; finished records never change."""
from harness import monitors, progs
from harness.props import common

THEOREMS = [
    {"name": "C18_append_only", "strength": "F",
     "text": "for every evaluator, state and history of API calls (all but the persist round trip, which is C05): "
             "contexts/routes of the state before are a prefix of those after; no record is removed or moved; id, "
             "route, ctxs.in and prev of every existing record are unchanged; holds for calls that raise too"},
    {"name": "C18_append_only_step", "strength": "F", "text": "the same for a single API call"},
    {"name": "(tested, not proved) once next is decided, status and next never change under the provider protocol",
     "strength": "T", "text": "monitor c18 on every generated history; needs the provider-protocol invariant "
                              "(one completion report per attempt), which is not yet formalised"},
]
TRUSTED_BASE = common.TRUSTED_BASE_COMMON
ASSUMPTIONS = [
    "theorems are about the Gallina model coq/model/Conductor.v; the tie to /repo is the lock-step comparison of "
    "serialize() after every API call on generated histories (sampled)",
    "Python aliasing is outside the model: that a record does not share containers with its staged entry is tied "
    "by the live-vs-model comparison (the model has value semantics) and by C05's persisted-vs-live runs",
]

FAM = progs.family(n_tasks=(3, 8), p_join=0.7, p_join_count=0.5, p_items=0.25, p_loop=0.2, p_retry=0.35, p_late_join=0.5, p_fail=0.3,
                   steps=(15, 70))


def features(sess):
    last = sess.trace[-1][1]["state"]["state"]
    seq = last["sequence"]
    ids = [(r["id"], r["route"]) for r in seq]
    return {"multi_record_task": len(set(ids)) < len(ids),
            "join_staged_growth": any(len(s["ctxs"]["in"]) > 2 for _, o in sess.trace for s in o["state"]["state"]["staged"]),
            "records>=4": len(seq) >= 4, "contexts>=3": len(last["contexts"]) >= 3}


def nontrivial(r):
    f = r.get("features") or {}
    return bool(f.get("records>=4") and f.get("contexts>=3"))


def run(ctx):
    return common.conductor_run(
        ctx, "C18", FAM, common.project_full, monitors.c18, features, nontrivial, 300, 6000,
        rule="generated definitions weighted to multi-referenced tasks, joins, with-items, loops and retries with random "
             "histories; non-trivial = at least 4 execution records and 3 context snapshots; distinct = distinct "
             "(definition, operation list)")


def replay(payload):
    return common.replay_conductor(payload, monitors.c18)
