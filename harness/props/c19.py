"""C19 -- Conducting is deterministic and asking for next tasks is a pure query."""
import json
import os
import random
import shutil
import subprocess
import tempfile

from harness import engine, monitors, progs
from harness.props import common

THEOREMS = [
    {"name": "determinism by construction", "strength": "F",
     "text": "api_exec / run_ops are Gallina functions of (evaluator, operations, state): the model has no iteration order, "
             "address or hash to depend on; the engine is compared with this single answer after every API call"},
    {"name": "C19_offers_sorted", "strength": "F", "text": "every answer of get_next_tasks is sorted by (task id, route)"},
    {"name": "C19_query_identity_when_held", "strength": "F",
     "text": "in pausing/paused/canceling/canceled/succeeded the query returns [] and leaves the state exactly as it was"},
    {"name": "C19b_query_idempotent / C19b_query_idempotent_from_creation / C19b_steps_idempotent (props/C19b.v)", "strength": "P",
     "text": "for every initialised state, if get_next_tasks gives (c1, r1) then asking again gives exactly c1 and an answer "
             "equal to r1 in id, route, rendered actions, delay, items_count and concurrency, with contexts equal except at "
             "the __state entry -- also when the first call created an item table, logged a rendering failure or failed the "
             "workflow. Hypotheses (each with a refuting witness): the evaluator does not read __state (state_blind), and no "
             "run_on_fail entry is staged while the workflow is not failed"},
    {"name": "C19b_query_not_idempotent_for_state_reading_expression", "strength": "R",
     "text": "an action that reads $__state.staged renders differently the second time (replayed on the engine): a "
             "consequence of known finding C16-dunder-direct-variable"},
    {"name": "(tested, not proved) identical artefacts across interpreter hash seeds", "strength": "T",
     "text": "subprocess replay of every case under 3 PYTHONHASHSEED values comparing digests of graph, inspection report, "
             "every per-step observation (key order included), errors, output; double-query monitor on the engine"},
]
TRUSTED_BASE = common.TRUSTED_BASE_COMMON
ASSUMPTIONS = ["hash-seed dependence is a property of CPython that no Gallina model exhibits; it is tied by the subprocess "
               "replay; definitions calling random()/now() are outside the property (not generated)"]
FAM = progs.family(w_query=1.5, p_items=0.3, p_join=0.6, p_bad=0.05, n_tasks=(2, 8), steps=(15, 60), w_ctrl=0.4, w_rerun=0.3)

WORKER = os.path.join(os.path.dirname(os.path.dirname(os.path.abspath(__file__))), "hashseed_worker.py")


def features(sess):
    return {"queried": any(t == "query2" for t in sess.tags),
            "queried_with_items": any(sess.tags[i] == "query2" and any("items_count" in o for o in (sess.trace[i][1]["result"] or []))
                                      for i in range(len(sess.tags)))}


def nontrivial(r):
    return bool((r.get("features") or {}).get("queried"))


def inspection_zoo(rng):
    """definitions whose inspection report has several context errors (order is what may vary)"""
    if rng.random() < 0.5:
        # diamond into a multiply-referenced non-join task: the branches publish the same variables in different
        # orders, and the target has a finding (set-vs-list bookkeeping in inspect_context decides re-inspection)
        names = rng.sample(["alpha", "beta", "gamma", "delta", "epsilon", "zeta"], rng.randint(2, 4))
        rev = list(reversed(names)) if rng.random() < 0.7 else rng.sample(names, len(names))
        tasks = {
            "t00": {"action": "core.noop", "next": [{"do": ["t01", "t02"]}]},
            "t01": {"action": "core.noop", "next": [{"publish": [{v: 1} for v in names], "do": ["t03"]}]},
            "t02": {"action": "core.noop", "next": [{"publish": [{v: 2} for v in rev], "do": ["t03"]}]},
            "t03": {"action": "core.echo", "input": {"m": "<% ctx().missing_one %>", "n": "<% ctx().VAR %>".replace("VAR", names[0])},
                    "next": [{"do": ["t04"]}]},
            "t04": {"action": "core.echo", "input": {"m": "{{ ctx().missing_two }}"}},
        }
        return {"version": 1.0, "tasks": tasks}, {}
    n = rng.randint(2, 5)
    tasks = {}
    for i in range(n):
        inp = {}
        for k in range(rng.randint(1, 4)):
            v = rng.choice(["foo", "bar", "baz"])
            form = rng.choice(["<% ctx().VAR %> NUM", "<% ctx(VAR) %> NUM", "{{ ctx().VAR }} NUM", "{{ ctx('VAR') }} NUM"])
            inp["m%d" % k] = form.replace("VAR", v).replace("NUM", str(k))
        tasks["t%02d" % i] = {"action": "core.echo", "input": inp}
        if i + 1 < n:
            tasks["t%02d" % i]["next"] = [{"do": ["t%02d" % (i + 1)], "publish": [{rng.choice(["foo", "q"]): 1}]}]
    return {"version": 1.0, "tasks": tasks}, {}


def hashseed_cases(ctx, n):
    """(definition, inputs, ops) triples: ops taken from an in-process adaptive run"""
    base = (ctx["seed"] * 7919 + 13) % (2 ** 31)
    cases = []
    for i in range(n):
        rng = random.Random(base + i)
        if i % 4 == 3:
            d, inp = inspection_zoo(rng)
            ops = [["request_status", "running"], ["get_next"]]
        else:
            d, inp = progs.gen_definition(rng, FAM)
            sess = common.PSession(d, inp, common.project_full, with_model=False)
            sess.case_seed, sess.fam, sess.probe, sess.probes = base + i, FAM, False, []
            try:
                progs.run_history(sess, rng, FAM, progs.Oracle(base + i, FAM))
                ops = [op for op, _ in sess.trace]
            finally:
                sess.close()
        cases.append({"definition": d, "inputs": inp, "ops": ops})
    return cases


def run_hashseeds(ctx, n):
    cases = hashseed_cases(ctx, n)
    tmp = tempfile.mkdtemp(prefix="c19_")
    viol = []
    try:
        path = os.path.join(tmp, "cases.json")
        json.dump(cases, open(path, "w"))
        outs = {}
        procs = {}
        seeds = ["0", "1", "4242", "999983"]
        for hs in seeds:
            env = dict(os.environ, PYTHONHASHSEED=hs)
            procs[hs] = subprocess.Popen(["/venv/bin/python", WORKER, path], stdout=subprocess.PIPE,
                                         stderr=subprocess.DEVNULL, env=env, cwd=os.path.dirname(os.path.dirname(WORKER)))
        for hs, p in procs.items():
            o, _ = p.communicate(timeout=900)
            outs[hs] = json.loads(o.decode())
        ref = outs[seeds[0]]
        for hs in seeds[1:]:
            for k, (a, b) in enumerate(zip(ref, outs[hs])):
                if a != b:
                    what = [key for key in set(a) | set(b) if a.get(key) != b.get(key)]
                    step = None
                    if "steps" in what and a.get("steps") and b.get("steps"):
                        step = next((i for i, (x, y) in enumerate(zip(a["steps"], b["steps"])) if x != y), None)
                    viol.append({"what": "artefacts %s differ between PYTHONHASHSEED=%s and %s%s"
                                         % (sorted(what), seeds[0], hs, "" if step is None else " (first at step %d)" % step),
                                 "definition": cases[k]["definition"], "inputs": cases[k]["inputs"],
                                 "ops": cases[k]["ops"], "hashseeds": [seeds[0], hs], "step": step or 0})
                    break
    finally:
        shutil.rmtree(tmp, ignore_errors=True)
    return len(cases), viol


def run(ctx):
    res = common.conductor_run(
        ctx, "C19", FAM, common.project_full, monitors.c19, features, nontrivial, 250, 4000,
        rule="(a) generated definitions under random histories in which get_next_tasks is asked twice in a row at random "
             "points, engine vs model after every call; (b) the same kind of cases (plus definitions with several context "
             "errors) replayed in fresh interpreters under PYTHONHASHSEED 0/1/4242/999983, digests of graph, inspection, "
             "every step (key order included), errors and output compared; non-trivial = the history contains a double query")
    n, viol = run_hashseeds(ctx, 120 if ctx["tier"] == "quick" else 1200)
    res["evaluations"] += n
    res.setdefault("distribution", {})["hashseed_cases"] = n
    res["violations"].extend(dict(v, property="C19") for v in viol)
    return res


def replay(payload):
    if "hashseeds" in payload:
        tmp = tempfile.mkdtemp(prefix="c19_")
        try:
            path = os.path.join(tmp, "cases.json")
            json.dump([{"definition": payload["definition"], "inputs": payload.get("inputs"), "ops": payload["ops"]}], open(path, "w"))
            outs = []
            for hs in payload["hashseeds"]:
                o = subprocess.run(["/venv/bin/python", WORKER, path], stdout=subprocess.PIPE, stderr=subprocess.DEVNULL,
                                   env=dict(os.environ, PYTHONHASHSEED=hs), cwd=os.path.dirname(os.path.dirname(WORKER))).stdout
                outs.append(json.loads(o.decode()))
            same = outs[0] == outs[1]
            print("same artefacts" if same else "artefacts differ: reproduced")
            return 0 if same else 1
        finally:
            shutil.rmtree(tmp, ignore_errors=True)
    return common.replay_conductor(payload, monitors.c19)
