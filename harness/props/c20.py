"""C20 -- Every documented shorthand means exactly its long form.

(i)  correspondence: generated strings go through the real code (orquesta.utils.parameters.
     parse_inline_params with both preserve_order values; the spec objects for `do`, `with`, action and
     publish strings) and through the Gallina model coq/model/Params.v evaluated by coqc (Eval
     vm_compute over generated cases files); results are compared on value AND Python type.
(ii) twin monitor on the real engine: a long-form definition and its shorthand twin must compose to
     the same graph, inspect alike and conduct identically under the same lock-step history.
"""
import collections.abc  # noqa: F401  (before yaql/orquesta)
import copy
import json
import math
import multiprocessing
import multiprocessing.pool
import os
import random
import re
import shutil
import subprocess
import tempfile
import time
import traceback
import unittest.mock

from harness import engine, provider
from harness.props import common

from orquesta.composers import native as native_composer  # noqa: E402
from orquesta.expressions import base as expr_base  # noqa: E402
from orquesta.specs import native as native_specs  # noqa: E402
from orquesta.utils import parameters as params_util  # noqa: E402

VERIF = os.path.dirname(os.path.dirname(os.path.dirname(os.path.abspath(__file__))))
COQ = os.path.join(VERIF, "coq")

THEOREMS = [
    {"name": "C20_inline_roundtrip_partial", "strength": "P",
     "text": "forall l : list (key, value, separator): keys non-empty \\w runs, separators over {blank , ;} (all but the "
             "last non-empty), values among VInt (optional minus + digit run without leading zero), VDec (the same + "
             "`.` + digit run), VBool (true/false in any letter case), VNull, VDq (double-quoted), VSq (single-quoted), "
             "VYaql (<% %>), VJinja ({{ }}) => parse_inline_params (render l) = [(key, denotation)] with the JSON type "
             "of the long form (JInt/JFloat numeral/JBool/JNull/JStr).  Partial because: quoted content must not have "
             "the form {...}; double-quoted content must contain no double quote and no apostrophe at either end (nor "
             "apostrophe+newline at the end); single-quoted content no apostrophe; expression bodies no newline and no "
             "closing pair inside ({{ }} bodies must not end in `}`); bracket lists and quoted JSON objects are outside "
             "the class (their agreement is only tested)"},
    {"name": "C20_inline_int_is_Z", "strength": "F",
     "text": "every z : Z is in the class: text (VZ z) = Z_to_string z, ok_val (VZ z), denote (VZ z) = JInt z"},
    {"name": "C20_inline_dq_apostrophe_refuted", "strength": "R",
     "text": "witness: x=\"'a'\" parses to the string a, not 'a' (apostrophes at the ends of a double-quoted value are "
             "stripped as well)"},
    {"name": "C20_inline_curly_string_refuted", "strength": "R",
     "text": "witness: x=\"{}\" parses to the empty object, not the string {} (documented quoted-JSON notation; the "
             "string has no inline form)"},
    {"name": "C20_inline_two_lists_refuted", "strength": "R",
     "text": "x=[1] and y=[2] parse to lists separately but `x=[1] y=[2]` parses to the single pair x -> the string "
             "`[1] y=[2]` (greedy bracket alternative)"},
    {"name": "C20_inline_leading_dot_refuted", "strength": "R",
     "text": "witness: x=.5 is matched by the float alternative and stays the string .5"},
    {"name": "C20_do / C20_do_comma_blank", "strength": "F",
     "text": "split_do (join \",\" (map pad ps)) = names for every non-empty list of names without comma and without "
             "blanks at their ends, each padded by arbitrary blanks; corollary for the `, ` separator"},
    {"name": "C20_do_forms_agree / C20_do_default", "strength": "F",
     "text": "norm_do (DoStr (join \", \" names)) = norm_do (DoList names) for non-empty names; absent, empty string "
             "and empty list do all mean [continue], as do the explicit forms"},
    {"name": "C20_with / C20_with_general / C20_with_plain / C20_with_forms_agree", "strength": "F",
     "text": "parse_items (join \", \" keys ++ \" in \" ++ E) = (strip E, Some keys) for word keys other than `in` and "
             "EVERY E; without ` in ` the whole string is the expression; items_of_with (WithStr s) = items_of_with "
             "(WithMap s null)"},
    {"name": "C20_with_key_in_refuted", "strength": "R",
     "text": "witness: `x, in in <% ctx().xs %>` (a key called in) is cut at the wrong ` in `"},
    {"name": "C20_with_expr_in_refuted", "strength": "R",
     "text": "witness: the items string `<% ctx().xs.where($ in list(1, 2)) %>` (one whole expression, no item key) "
             "is cut at the ` in ` inside the expression; on the real engine inspect() passes and the task fails with "
             "TypeError (both notations of with alike)"},
    {"name": "C20_action / C20_action_plain", "strength": "F",
     "text": "split_action_res (name ++ blank ++ render l) = ActInline name (dict of the denotations) for names without "
             "blank and without `=`, l non-empty of the class above; no inline pair => the action is left alone"},
    {"name": "(tested, not proved) twin definitions compose, inspect and conduct identically on the real engine; "
             "bracket lists and quoted JSON objects agree with json.loads", "strength": "T",
     "text": "twin monitor (compose().serialize(), inspect(), every observation of a lock-step run) and the "
             "model-vs-real comparison on generated strings"},
]
TRUSTED_BASE = [
    "Coq 8.16.1 kernel via coqc (full .vo build); vm_compute in non-vacuity examples and refutation witnesses",
    "no Axiom/Parameter/Admitted anywhere (grep by ./check on every run)",
    "translator harness/reflect.py: the ORDER of the regex alternatives is regenerated from "
    "parameters.REGEX_INLINE_PARAM_VARIATIONS into coq/gen/GenParams.v on every run (refuses unknown alternatives)",
    "modelled-not-verified: the Gallina scanner coq/model/Params.v stands for Python's re.findall / re.sub / "
    "str.strip / json.loads on ASCII input; tied to the real functions by the generated-input comparison of this "
    "check (value and Python type)",
    "correspondence harness (generators, canonical printer show_json / its Python reader, differ) trusted for "
    "detection only",
    "not modelled: PyYAML loading of the definition, jsonschema, YAQL/Jinja evaluation (the twin monitor runs "
    "them for real)",
]
ASSUMPTIONS = [
    "ASCII input only: \\w, \\d, \\s, (?i:) and str.lower are modelled on code points < 128; \\u escapes in quoted "
    "JSON are modelled for the BMP without surrogates",
    "json.loads is modelled without Python's recursion limit and int digit limit (inputs are far below both)",
    "floats: the model keeps the source numeral (JFloat text); the harness compares float(text) with the Python "
    "float bit for bit",
    "theorems are about the Gallina model; the tie to /repo is the sampled comparison plus the twin monitor",
]

# ---------------------------------------------------------------------------- show_json reader


class Show(object):
    def __init__(self, text):
        self.t, self.i = text, 0

    def until(self, ch):
        j = self.t.index(ch, self.i)
        s = self.t[self.i:j]
        self.i = j + 1
        return s

    def raw(self, n):
        out = bytearray()
        while n > 0:
            c = self.t[self.i]
            if c == "%":
                out.append(int(self.t[self.i + 1:self.i + 3], 16))
                self.i += 3
            else:
                out.append(ord(c))
                self.i += 1
            n -= 1
        return bytes(out)

    def value(self):
        c = self.t[self.i]
        self.i += 1
        if c in "ntf":
            return (c,)
        if c == "i":
            return ("i", int(self.until(";")))
        if c == "r":
            return ("r", re.sub(r"%([0-9a-f]{2})", lambda m: chr(int(m.group(1), 16)), self.until(";")))
        if c == "s":
            return ("s", self.raw(int(self.until(":"))))
        if c == "l":
            return ("l", [self.value() for _ in range(int(self.until(":")))])
        if c == "d":
            n = int(self.until(":"))
            out = []
            for _ in range(n):
                k = self.value()
                out.append((k[1], self.value()))
            return ("d", out)
        raise ValueError("bad show text at %d: %r" % (self.i - 1, self.t[:200]))


def read_show(text):
    s = Show(text)
    v = s.value()
    if s.i != len(text):
        raise ValueError("trailing show text")
    return v


def py_tree(v):
    """Python value -> the same tagged tree (types kept apart: bool / int / float / str)."""
    if v is None:
        return ("n",)
    if v is True:
        return ("t",)
    if v is False:
        return ("f",)
    if isinstance(v, int):
        return ("i", v)
    if isinstance(v, float):
        return ("r", v)
    if isinstance(v, str):
        return ("s", v.encode("utf-8", "surrogatepass"))
    if isinstance(v, (list, tuple)):
        return ("l", [py_tree(x) for x in v])
    if isinstance(v, collections.abc.Mapping):
        return ("d", [(k.encode("utf-8", "surrogatepass"), py_tree(x)) for k, x in v.items()])
    return ("?", repr(v))


def tree_eq(m, p):
    """model tree (floats as numerals) vs Python tree (floats as floats)."""
    if m[0] != p[0]:
        return False
    if m[0] == "r":
        try:
            f = float(m[1])
        except ValueError:
            return False
        if math.isnan(f) or math.isnan(p[1]):
            return math.isnan(f) and math.isnan(p[1])
        return f.hex() == p[1].hex()
    if m[0] == "l":
        return len(m[1]) == len(p[1]) and all(tree_eq(a, b) for a, b in zip(m[1], p[1]))
    if m[0] == "d":
        return len(m[1]) == len(p[1]) and all(a[0] == b[0] and tree_eq(a[1], b[1]) for a, b in zip(m[1], p[1]))
    return m == p


def tree_json(t):
    """For reports."""
    if t[0] in "ntf":
        return {"n": None, "t": True, "f": False}[t[0]]
    if t[0] == "i":
        return t[1]
    if t[0] == "r":
        return {"float": str(t[1])}
    if t[0] == "s":
        return t[1].decode("utf-8", "replace")
    if t[0] == "l":
        return [tree_json(x) for x in t[1]]
    if t[0] == "d":
        return [[k.decode("utf-8", "replace"), tree_json(v)] for k, v in t[1]]
    return repr(t)


# ------------------------------------------------------------------------------ coqc evaluation

PREAMBLE = """From Coq Require Import String Ascii List ZArith Arith.
From Orq Require Import GenParams Base State Params.
Import ListNotations.
Open Scope string_scope.
Definition hv (c : ascii) : nat := let n := nat_of_ascii c in if Nat.leb n 57 then n - 48 else n - 87.
Fixpoint hx (s : string) : string :=
  match s with String a (String b r) => String (ascii_of_nat (hv a * 16 + hv b)) (hx r) | _ => "" end.
Definition showP (s : string) : string :=
  append (show_pairs (parse_inline_params s)) (append "|" (show_pairs (parse_inline_dict s))).
Definition showD (d : do_form) : string := show_strs (norm_do d).
Definition showI (w : with_form) : string :=
  let i := items_of_with w in
  append (show_str (it_expr i)) (append "|" (append (match it_keys i with None => "n" | Some l => show_strs l end)
       (append "|" (show_json (it_concurrency i))))).
Definition showA (s : string) : string :=
  match split_action_res s with
  | ActPlain a => append "P" (show_str a)
  | ActInline a d => append "I" (append (show_str a) (append "|" (show_pairs d)))
  | ActValueError => "E"
  end.
Definition showU (p : publish_form) : string := show_pairs (norm_publish p).
"""


def coq_str(s):
    if all(32 <= ord(c) <= 126 for c in s):
        return '"%s"' % s.replace('"', '""')
    return '(hx "%s")' % s.encode("latin-1").hex()


def coq_term(kind, x):
    if kind in ("P", "A"):
        return coq_str(x)
    if kind == "D":
        if x is None:
            return "DoAbsent"
        if isinstance(x, str):
            return "(DoStr %s)" % coq_str(x)
        return "(DoList [%s])" % "; ".join(coq_str(n) for n in x)
    if kind == "I":
        if isinstance(x, str):
            return "(WithStr %s)" % coq_str(x)
        c = x.get("concurrency")
        cj = "JNull" if c is None else ("(JInt %d)" % c if isinstance(c, int) else "(JStr %s)" % coq_str(c))
        return "(WithMap %s %s)" % (coq_str(x["items"]), cj)
    if kind == "U":
        if x is None:
            return "PubAbsent"
        return "(PubStr %s)" % coq_str(x)
    raise ValueError(kind)


def _coqc(path):
    cmd = ["timeout", "300", "coqc", "-Q", os.path.join(COQ, "gen"), "Orq", "-Q", os.path.join(COQ, "model"), "Orq", path]
    p = subprocess.run(cmd, stdout=subprocess.PIPE, stderr=subprocess.STDOUT, text=True, cwd=os.path.dirname(path))
    return p.returncode, p.stdout


def model_eval(cases, tmp, chunk=400, procs=12):
    """cases: list of (kind, input).  Returns the list of show texts (None where coqc failed)."""
    by_kind = {}
    for idx, (k, x) in enumerate(cases):
        by_kind.setdefault(k, []).append((idx, x))
    files = []
    for k, lst in by_kind.items():
        for c in range(0, len(lst), chunk):
            part = lst[c:c + chunk]
            path = os.path.join(tmp, "cases_%s_%d.v" % (k, c // chunk))
            with open(path, "w") as f:
                f.write(PREAMBLE)
                ty = {"P": "string", "A": "string", "D": "do_form", "I": "with_form", "U": "publish_form"}[k]
                f.write("Definition cases : list %s := [\n%s].\n" % (ty, ";\n".join(coq_term(k, x) for _, x in part)))
                f.write("Eval vm_compute in (map show%s cases).\n" % k)
            files.append((path, [i for i, _ in part]))
    out = [None] * len(cases)
    errors = []
    with multiprocessing.pool.ThreadPool(procs) as pool:
        for (path, idxs), (rc, txt) in zip(files, pool.map(_coqc, [p for p, _ in files])):
            body = txt[txt.find("= "):] if "= " in txt else ""
            toks = re.findall(r'"([^"]*)"', body)
            if rc != 0 or len(toks) != len(idxs):
                errors.append({"file": os.path.basename(path), "rc": rc, "output": txt[-1500:]})
                continue
            for i, t in zip(idxs, toks):
                out[i] = t
    return out, errors


# ---------------------------------------------------------------------------------- generators

WORDS = ["a", "b1", "_x", "msg", "K9", "in", "true", "x_y", "cmd", "n0"]
SEPS = [" ", ",", ";", "  ", ", ", "; ", " ,", " ; ", ",,", "\t", " \n"]


def g_key(rng):
    return rng.choice(WORDS) if rng.random() < 0.8 else "".join(
        rng.choice("abcXYZ019_") for _ in range(rng.randint(1, 6)))


def g_text(rng, forbid, hostile):
    alpha = ["a", "b", "c", " ", "x y", "1", "0", "-", ".", ":", "/", "_"]
    if hostile:
        alpha += ["=", " in ", ",", ";", "[", "]", "{", "}", "<%", "%>", "{{", "}}", "'", '"', "k=1", "\\", "\n",
                  "true", "null", "%", ">", "}", "\t"]
    out = "".join(rng.choice(alpha) for _ in range(rng.randint(0, 8)))
    for ch in forbid:
        out = out.replace(ch, "")
    return out


def g_json_value(rng, depth=0):
    r = rng.random()
    if depth > 2 or r < 0.5:
        return rng.choice([0, 1, -3, 12, 1.5, -0.25, 1e3, True, False, None, "", "a", "x y", "q\"t", "it's", "\\", "\n",
                           "é", "k=1", "a, b", " in ", 10 ** 20])
    if r < 0.75:
        return [g_json_value(rng, depth + 1) for _ in range(rng.randint(0, 3))]
    return {rng.choice(["a", "b", "k 1", "", "in"]): g_json_value(rng, depth + 1) for _ in range(rng.randint(0, 3))}


def g_json_text(rng, top=None):
    v = g_json_value(rng) if top is None else top
    seps = rng.choice([(",", ":"), (", ", ": "), (" , ", " : "), (",\t", ":\n")]) if rng.random() < 0.8 else (",", ":")
    s = json.dumps(v, separators=seps, ensure_ascii=rng.random() < 0.8)
    s = "".join(c if ord(c) < 128 else "\\u%04x" % ord(c) for c in s)
    if rng.random() < 0.25 and s:      # damage it
        i = rng.randrange(len(s))
        r = rng.random()
        if r < 0.4:
            s = s[:i] + s[i + 1:]
        elif r < 0.8:
            s = s[:i] + rng.choice(list(",:]}[{\"'e.-01 ") + ["\\u00e9", "\\u4e2d", "\\x", "NaN", "Infinity", "-Infinity"]) + s[i:]
        else:
            s = s[:i] + s[i:].upper()
    return s


def g_number(rng, hostile):
    r = rng.random()
    if r < 0.4:
        return str(rng.choice([0, 1, 7, 42, -1, -17, 123456, 10 ** 19, -10 ** 25]))
    if r < 0.7:
        return rng.choice(["1.5", "-0.25", "0.0", "3.14159", "10.50", "-2.0", "100.001"])
    if not hostile:
        return str(rng.randint(-1000, 1000))
    return rng.choice(["007", "-0", ".5", "-.5", "1.", "1e5", "1.5e3", "1.5.5", "--1", "-", "+5", "0x10", "1_0", "00.5",
                       "1E-2", "12abc", "-0.0", "0.10", "9" * 30])


def g_value(rng, hostile=False):
    """(text, class)"""
    r = rng.random()
    if r < 0.16:
        return g_number(rng, hostile), "number"
    if r < 0.26:
        return rng.choice(["true", "false", "True", "FALSE", "tRuE", "null"] + (["Null", "NULL", "trueish", "nullx", "none"] if hostile else [])), "literal"
    if r < 0.44:
        body = g_text(rng, '"', hostile or rng.random() < 0.5)
        if hostile and rng.random() < 0.3:      # the ends are where the quote stripping bites
            body = rng.choice(["", "'", " ", "{"]) + body + rng.choice(["'", "'\n", "\n", " ", "}", "'\n\n", "' "])
        return '"%s"' % body, "dq"
    if r < 0.58:
        body = g_text(rng, "'", hostile or rng.random() < 0.5)
        if hostile and rng.random() < 0.3:
            body = rng.choice(["", '"', " ", "{"]) + body + rng.choice(['"', '"\n', "\n", " ", "}"])
        return "'%s'" % body, "sq"
    if r < 0.68:
        q = rng.choice("'\"")
        t = g_json_text(rng, top={rng.choice(["a", "k"]): g_json_value(rng, 1)} if rng.random() < 0.7 else None)
        if q in t and not hostile:
            q = "'" if q == '"' else '"'
        return q + (t if hostile else t.replace(q, "")) + q, "quoted-json"
    if r < 0.78:
        t = g_json_text(rng, top=[g_json_value(rng, 1) for _ in range(rng.randint(0, 3))])
        return t if t.startswith("[") else "[" + t + "]", "brackets"
    if r < 0.9:
        body = g_text(rng, ["\n"] if not hostile else [], hostile)
        return "<%% ctx().%s %s%%>" % (rng.choice(WORDS), body), "yaql"
    body = g_text(rng, ["\n"] if not hostile else [], hostile)
    return "{{ ctx().%s %s}}" % (rng.choice(WORDS), body), "jinja"


def g_params_structured(rng, hostile=False):
    n = rng.randint(1, 5)
    parts, classes = [], []
    for i in range(n):
        v, c = g_value(rng, hostile)
        classes.append(c)
        parts.append(g_key(rng) + "=" + v)
        if i < n - 1 or rng.random() < 0.2:
            parts.append(rng.choice(SEPS) if not hostile or rng.random() < 0.8 else rng.choice(["", "=", ".", "-", "\n"]))
    return "".join(parts), classes


HOSTILE_TOKENS = ["a", "b1", "_x", "=", "=", "=", '"', '"', "'", "'", " ", " ", ",", ";", "[", "]", "{", "}", "<%", "%>",
                  "{{", "}}", "-", ".", "0", "1", "42", "true", "False", "null", " in ", "\n", "\t", ":", "\\", "\\u0041",
                  "e", "E", "+", "Infinity", "NaN", "%", ">", "<", "x=1", 'k="v"', "\r", "\x0b", "\x1f", "k=", "=[", "='"]


def g_params_hostile(rng):
    return "".join(rng.choice(HOSTILE_TOKENS) for _ in range(rng.randint(1, 22)))


def g_params(rng):
    r = rng.random()
    if r < 0.45:
        s, cl = g_params_structured(rng)
        return s, "structured", cl
    if r < 0.75:
        s, cl = g_params_structured(rng, hostile=True)
        return s, "structured-hostile", cl
    return g_params_hostile(rng), "hostile", []


def g_do(rng):
    r = rng.random()
    if r < 0.12:
        return None
    names = [rng.choice(["t1", "t2", "task_3", "continue", "noop", "fail", "a b", "x", ""]) if rng.random() < 0.9
             else g_text(rng, ",", True) for _ in range(rng.randint(1, 4))]
    if r < 0.4:
        names = [n.strip() for n in names]
        return names if rng.random() < 0.9 else []
    sep = rng.choice([",", ", ", " ,", " , ", ",  ", "\t,\n"])
    s = sep.join(names)
    if rng.random() < 0.2:
        s = rng.choice([" ", "", ","]) + s + rng.choice([" ", "", ","])
    return s


def g_items(rng):
    r = rng.random()
    expr = rng.choice(["<% ctx().xs %>", "{{ ctx().xs }}", "<% ctx().xs.where($ in ctx().ys) %>", "<% range(3) %>",
                       "<% ctx(xs) %>  ", " <% ctx().a in ctx().b %>"])
    if r < 0.25:
        s = expr
    else:
        keys = [rng.choice(["x", "y", "i", "k1", "in", "_a"]) for _ in range(rng.randint(1, 4))]
        sep = rng.choice([", ", ",", ",  ", " , "]) if rng.random() < 0.9 else rng.choice([" ", ";", ",,"])
        s = sep.join(keys) + rng.choice([" in ", " in ", " in  ", "  in ", " in", "in "]) + expr
        if rng.random() < 0.15:
            s = " " + s
    if rng.random() < 0.5:
        return s
    conc = rng.choice([None, None, 2, "<% ctx().n %>"])
    w = {"items": s}
    if conc is not None:
        w["concurrency"] = conc
    return w


def g_action(rng):
    r = rng.random()
    name = rng.choice(["core.echo", "core.local", "mock.run", "a", "core.http_get", "<% ctx().act %>", "x.y-z"])
    if r < 0.15:
        return name
    if r < 0.9:
        p, _ = g_params_structured(rng, hostile=rng.random() < 0.3)
        return name + rng.choice([" ", " ", "  ", "", ",", "\t"]) + p
    return g_params_hostile(rng)


# ----------------------------------------------------------------------- the real code, observed


def real_params(s):
    try:
        a = params_util.parse_inline_params(s)
        b = params_util.parse_inline_params(s, preserve_order=False)
    except Exception as e:
        return ("raised", type(e).__name__, str(e))
    pairs = []
    for d in a:
        (k, v), = d.items()
        pairs.append((k, v))
    return ("ok", ("d", [(k.encode(), py_tree(v)) for k, v in pairs]), py_tree(b))


def wf(tasks):
    return {"version": 1.0, "tasks": tasks}


def real_do(d):
    tr = {"when": "<% succeeded() %>"}
    if d is not None:
        tr["do"] = d
    spec = native_specs.WorkflowSpec(wf({"t1": {"action": "core.noop", "next": [tr]}}))
    names = [x[0] for x in spec.tasks.get_next_tasks("t1")]
    return names


class Recorder(object):
    def __init__(self):
        self.calls = []

    def __call__(self, stmt, ctx=None):
        self.calls.append((stmt, copy.deepcopy(ctx)))
        if len(self.calls) == 1:
            return [list(range(40))]
        return "v"


def real_items(w):
    spec = native_specs.WorkflowSpec(wf({"t1": {"action": "core.noop", "with": copy.deepcopy(w)}}))
    ts = spec.tasks.get_task("t1")
    its = ts.get_items_spec()
    rec = Recorder()
    with unittest.mock.patch.object(expr_base, "evaluate", rec):
        ts.render({})
    expr = rec.calls[0][0]
    item = rec.calls[1][1].get("__current_item")
    return expr, item, getattr(its, "concurrency", None)


def expected_item(keys):
    """What TaskSpec.render puts into the item context for item = [0..39] given the item keys."""
    item = list(range(40))
    if keys:
        return dict(zip(keys, item))
    return item


def real_action(s):
    try:
        spec = native_specs.WorkflowSpec(wf({"t1": {"action": s}}))
    except ValueError as e:
        return ("E", str(e))
    ts = spec.tasks.get_task("t1")
    inp = getattr(ts, "input", None)
    if inp is None:
        return ("P", ts.action)
    return ("I", ts.action, inp)


def real_publish(p):
    tr = {"do": "t1"}
    if p is not None:
        tr["publish"] = p
    spec = native_specs.WorkflowSpec(wf({"t1": {"action": "core.noop", "next": [tr]}}))
    pub = getattr(spec.tasks.get_task("t1").next[0], "publish", None) or []
    out = []
    for d in pub:
        (k, v), = d.items()
        out.append((k, v))
    return out


# -------------------------------------------------------------------- correspondence, one case


def compare_case(kind, x, shown):
    """None when model and real code agree, else a description."""
    try:
        if kind == "P":
            r = real_params(x)
            if r[0] != "ok":
                return {"real": list(r), "model": shown}
            a, b = shown.split("|")
            ma, mb = read_show(a), read_show(b)
            if not tree_eq(ma, r[1]) or not tree_eq(mb, r[2]):
                return {"real": [tree_json(r[1]), tree_json(r[2])], "model": [tree_json(ma), tree_json(mb)]}
            return None
        if kind == "D":
            r = real_do(x)
            m = [s.decode("latin-1") for _, s in read_show(shown)[1]]
            if sorted(m) != r:
                return {"real": r, "model_sorted": sorted(m)}
            return None
        if kind == "I":
            e, ks, c = shown.split("|")
            me = read_show(e)[1].decode("latin-1")
            mk = None if ks == "n" else [s.decode("latin-1") for _, s in read_show(ks)[1]]
            mc = read_show(c)
            expr, item, conc = real_items(x)
            if expr != me or item != expected_item(mk) or not tree_eq(mc, py_tree(conc)):
                return {"real": {"expr": expr, "item_ctx": item, "concurrency": conc},
                        "model": {"expr": me, "keys": mk, "concurrency": tree_json(mc)}}
            return None
        if kind == "A":
            r = real_action(x)
            if shown == "E":
                return None if r[0] == "E" else {"real": list(r), "model": "ValueError"}
            if shown[0] == "P":
                m = read_show(shown[1:])[1].decode("latin-1")
                return None if r == ("P", m) else {"real": list(r), "model": ["P", m]}
            a, d = shown[1:].split("|")
            m = read_show(a)[1].decode("latin-1")
            md = read_show(d)
            if r[0] != "I" or r[1] != m or not tree_eq(md, py_tree(r[2])):
                return {"real": [r[0], r[1], tree_json(py_tree(r[2])) if r[0] == "I" else None],
                        "model": ["I", m, tree_json(md)]}
            return None
        if kind == "U":
            r = real_publish(x)
            m = read_show(shown)
            if not tree_eq(m, ("d", [(k.encode(), py_tree(v)) for k, v in r])):
                return {"real": [[k, tree_json(py_tree(v))] for k, v in r], "model": tree_json(m)}
            return None
    except Exception:
        return {"harness_error": traceback.format_exc()[-1500:], "model": shown}
    raise ValueError(kind)


def gen_corr_cases(seed, n):
    """n cases, mixed kinds; every case carries its stream name."""
    rng = random.Random(seed)
    cases, meta = [], []
    for i in range(n):
        r = rng.random()
        if r < 0.6:
            s, stream, classes = g_params(rng)
            cases.append(("P", s))
            meta.append({"stream": stream, "classes": classes})
        elif r < 0.7:
            cases.append(("D", g_do(rng)))
            meta.append({"stream": "do"})
        elif r < 0.8:
            cases.append(("I", g_items(rng)))
            meta.append({"stream": "with"})
        elif r < 0.93:
            cases.append(("A", g_action(rng)))
            meta.append({"stream": "action"})
        else:
            s, _ = g_params_structured(rng, hostile=rng.random() < 0.3)
            cases.append(("U", s if rng.random() < 0.95 else None))
            meta.append({"stream": "publish"})
    return cases, meta


def corr_nontrivial(kind, x, shown):
    """The case exercised the mechanism: at least one pair parsed / several names / keys present."""
    if shown is None:
        return False
    if kind in ("P", "U"):
        return not shown.startswith("d0:")
    if kind == "D":
        return x is None or (isinstance(x, str) and "," in x)
    if kind == "I":
        return "|n|" not in shown or isinstance(x, str)
    if kind == "A":
        return shown[0] in "IE"
    return False


def run_corr(seed, n, tmp):
    cases, meta = gen_corr_cases(seed, n)
    shown, errors = model_eval(cases, tmp)
    res = {"n": len(cases), "compared": 0, "disagreements": [], "coq_errors": errors, "streams": {}, "classes": {},
           "nontrivial": set(), "samples": []}
    for (kind, x), m, sh in zip(cases, meta, shown):
        res["streams"][m["stream"]] = res["streams"].get(m["stream"], 0) + 1
        for c in m.get("classes", []):
            res["classes"][c] = res["classes"].get(c, 0) + 1
        if sh is None:
            continue
        res["compared"] += 1
        d = compare_case(kind, x, sh)
        if d is not None:
            res["disagreements"].append({"kind": kind, "input": x, "stream": m["stream"], "diff": d})
        if corr_nontrivial(kind, x, sh):
            res["nontrivial"].add(json.dumps([kind, x], sort_keys=True))
        if len(res["samples"]) < 2 and kind == "P" and corr_nontrivial(kind, x, sh) and m["stream"] != "structured":
            res["samples"].append({"kind": "correspondence", "input": x, "model_and_real_agree_on": sh[:300]})
    return res


# ------------------------------------------------------------------------------ twin monitor

SAFE_STR = ["hello", "a b", "x, y", "k=v", "p=1 q=2", "it's ok", "say \"hi\"", " in ", "semi;colon", "[not a list",
            "100%", "a\tb", "tab\there", "", "007", "true", "null", "1.5", "  padded  ", "<tag>", "{half", "half}",
            "-", "=", "a = b", "x in y"]


def g_twin_value(rng, L):
    """(python value, inline text).  Only values the documentation gives both notations for."""
    r = rng.random()
    if r < 0.18:
        z = rng.choice([0, 1, -1, 7, 42, -305, 123456789, 10 ** 18])
        return z, str(z)
    if r < 0.28:
        f = rng.choice([1.5, -0.25, 3.0, 10.75, 0.5, -2.125])
        return f, repr(f)
    if r < 0.38:
        b = rng.random() < 0.5
        return b, rng.choice(["true", "True", "TRUE"] if b else ["false", "False", "FALSE"])
    if r < 0.44:
        return None, "null"
    if r < 0.7:
        s = rng.choice(SAFE_STR)
        if '"' in s:
            return s, "'%s'" % s
        if "'" in s and not (s.startswith("'") or s.endswith("'")):
            return s, '"%s"' % s
        if "'" in s:
            return None, "null"
        return s, (('"%s"' if rng.random() < 0.5 else "'%s'") % s)
    if r < 0.8:
        d = rng.choice([{"a": 1}, {"k": "v", "n": [1, 2, {"z": None}]}, {}, {"s": "x y", "b": True, "f": 1.5},
                        {"e": "<% ctx().x %>"}, {"nested": {"deep": [True, None, -3]}}, {"c": "p=1, q=2"}])
        t = json.dumps(d, separators=rng.choice([(",", ":"), (", ", ": ")]))
        return d, "'%s'" % t
    if r < 0.92:
        e = rng.choice([L.ctx("x"), L.ctx("y"), L.e("ctx().x + 1"), L.e("ctx().y + 'z'", "ctx().y ~ 'z'"),
                        L.e("ctx().lst"), L.e("str(ctx().x) + \"q\"", "ctx().x ~ \"q\"")])
        return e, e
    s = "pre " + L.ctx("y")
    return s, '"%s"' % s


def inline(kvs, rng):
    out = []
    for i, (k, _, t) in enumerate(kvs):
        out.append("%s=%s" % (k, t))
        if i < len(kvs) - 1:
            out.append(rng.choice([" ", ", ", "; ", "  ", ",", " ; "]))
    return "".join(out)


def gen_twin(rng):
    """(long form, shorthand twin, inputs, features)."""
    L = __import__("harness.progs", fromlist=["Lang"]).Lang(rng.random() < 0.3)
    n = rng.randint(2, 6)
    names = ["t%d" % i for i in range(n)]
    long_t, short_t = {}, {}
    feats = {"inline_action": 0, "string_publish": 0, "comma_do": 0, "string_with": 0, "omitted_do": 0,
             "value_classes": set()}
    base = {"version": 1.0, "vars": [{"x": 1}, {"y": "yy"}, {"lst": [[1, "a"], [2, "b"], [3, "c"]]}, {"flat": [4, 5]}],
            "output": [{"ox": L.ctx("x")}, {"oy": L.ctx("y")}, {"oz": L.e("ctx().get('z')", "ctx().get('z')")},
                       {"ow": L.e("ctx().get('w')", "ctx().get('w')")}, {"ov": L.e("ctx().get('v')", "ctx().get('v')")},
                       {"ou": L.e("ctx().get('u')", "ctx().get('u')")}]}

    def kvlist(keys):
        kvs = []
        for k in keys:
            v, t = g_twin_value(rng, L)
            kvs.append((k, v, t))
            feats["value_classes"].add(type(v).__name__ if not (isinstance(v, str) and ("<%" in v or "{{" in v)) else "expr")
        return kvs

    for i, t in enumerate(names):
        lt, st = {}, {}
        act = rng.choice(["core.echo", "core.local", "mock.do", "core.noop"])
        r = rng.random()
        if r < 0.7:
            kvs = kvlist(rng.sample(["msg", "cmd", "n", "flag", "opt", "data"], rng.randint(1, 4)))
            lt["action"] = act
            lt["input"] = {k: v for k, v, _ in kvs}
            st["action"] = act + rng.choice([" ", "  "]) + inline(kvs, rng)
            feats["inline_action"] += 1
        else:
            lt["action"] = st["action"] = act
        if rng.random() < 0.3:
            form = rng.random()
            if form < 0.4:
                items = "i in " + L.ctx("flat")
                inp = {"m": L.e("item(i)", "item('i')")}
            elif form < 0.8:
                items = rng.choice(["a, b in ", "a,b in "]) + L.ctx("lst")
                inp = {"m": L.e("item(a)", "item('a')"), "s": L.e("item(b)", "item('b')")}
            else:
                items = L.ctx("flat")
                inp = {"m": L.e("item()")}
            lt["action"] = st["action"] = "core.echo"
            lt["input"] = copy.deepcopy(inp)
            st["input"] = copy.deepcopy(inp)
            lt["with"] = {"items": items}
            st["with"] = items
            feats["string_with"] += 1
        later = names[i + 1:]
        ln, sn = [], []
        for _ in range(rng.randint(0, 2) if later else rng.randint(0, 1)):
            ltr, str_ = {}, {}
            if rng.random() < 0.6:
                w = rng.choice([L.e("succeeded()"), L.e("failed()"), L.e("succeeded() and ctx().x > 0",
                                                                       "succeeded() and ctx().x > 0")])
                ltr["when"] = str_["when"] = w
            if rng.random() < 0.7:
                kvs = kvlist(rng.sample(["z", "w", "v", "u"], rng.randint(1, 3)))
                ltr["publish"] = [{k: v} for k, v, _ in kvs]
                str_["publish"] = inline(kvs, rng)
                feats["string_publish"] += 1
            if later and rng.random() < 0.75:
                do = rng.sample(later, min(len(later), rng.randint(1, 3)))
                if rng.random() < 0.2:
                    do.append(rng.choice(["noop", "fail"]))
                ltr["do"] = list(do)
                if len(do) > 1 or rng.random() < 0.5:
                    str_["do"] = rng.choice([", ", ",", " , "]).join(do)
                    feats["comma_do"] += 1
                else:
                    str_["do"] = list(do)
            else:
                if not ltr:
                    ltr["when"] = str_["when"] = L.e("succeeded()")
                ltr["do"] = rng.choice(["continue", ["continue"]])
                feats["omitted_do"] += 1
            ln.append(ltr)
            sn.append(str_)
        if ln:
            lt["next"], st["next"] = ln, sn
        long_t[t], short_t[t] = lt, st
    # context inspection must see the same thing through both notations: outputs that read variables
    # published further down (reached through comma-separated do) and a genuinely unassigned reference
    # in a downstream task
    published = sorted(set(list(p)[0] for lt in long_t.values() for tr in lt.get("next", [])
                           for p in (tr.get("publish") or []) if isinstance(p, dict)))
    for v in published[:2]:
        if rng.random() < 0.6:
            base["output"].append({"o_" + v: L.ctx(v)})
    if n >= 2 and rng.random() < 0.3:
        t = names[rng.randint(1, n - 1)]
        if "with" not in long_t[t] and isinstance(long_t[t].get("input"), dict) and isinstance(short_t[t].get("input"), dict):
            for d in (long_t[t], short_t[t]):
                d["input"] = dict(d["input"], probe=L.ctx("never_assigned"))
        elif "with" not in long_t[t] and "input" not in long_t[t] and "input" not in short_t[t]:
            for d in (long_t[t], short_t[t]):
                d["input"] = {"probe": L.ctx("never_assigned")}
    long_d, short_d = copy.deepcopy(base), copy.deepcopy(base)
    long_d["tasks"], short_d["tasks"] = long_t, short_t
    feats["value_classes"] = sorted(feats["value_classes"])
    return long_d, short_d, {}, feats


def observe(definition, inputs, seed):
    """Everything the property speaks about, for one definition."""
    out = {}
    spec = native_specs.WorkflowSpec(copy.deepcopy(definition))
    try:
        out["graph"] = engine.to_json(native_composer.WorkflowComposer.compose(spec).serialize())
    except Exception as e:
        out["graph"] = ["raised", type(e).__name__, str(e)]
    try:
        errs = spec.inspect()
        out["inspect"] = sorted(
            ([cat, e.get("type"), e.get("message"), re.sub(r"\.publish(\[\d+\]\.\w+|\[\d+\])?$", ".publish", e.get("spec_path") or "")]
             for cat, lst in errs.items() for e in lst), key=json.dumps)
        out["inspect_raw"] = engine.to_json(errs)
    except Exception as e:
        out["inspect"] = ["raised", type(e).__name__, str(e)]
    sess = provider.Session(definition, inputs, with_model=False)

    def outcome(key, attempt):
        h = provider.crc(seed, key, attempt) % 25
        if h < 1:
            return "failed", "boom"
        return "succeeded", ["a", 1, {"k": "v"}, None][provider.crc(seed, key, attempt, "r") % 4]

    try:
        provider.lockstep(sess, outcome, max_rounds=60)
        out["run_error"] = None
    except Exception as e:
        out["run_error"] = [type(e).__name__, str(e)]
    out["ops"] = [op for op, _ in sess.trace]
    out["trace"] = [obs for _, obs in sess.trace]
    out["offers"] = sess.offers_log
    return out


def twin_diff(a, b):
    for key in ("graph", "inspect", "run_error", "ops", "offers", "trace"):
        if engine.dumps_sorted(a[key]) != engine.dumps_sorted(b[key]):
            return {"aspect": key, "first_difference": engine.first_difference(a[key], b[key])}
    return None


def twin_case(seed):
    rng = random.Random(seed)
    out = {"seed": seed}
    try:
        long_d, short_d, inputs, feats = gen_twin(rng)
        out.update({"long": long_d, "short": short_d, "inputs": inputs, "features": feats})
        a = observe(long_d, inputs, seed)
        b = observe(short_d, inputs, seed)
        out["diff"] = twin_diff(a, b)
        out["calls"] = len(a["trace"]) + len(b["trace"])
        out["final"] = a["trace"][-1]["state"]["state"]["status"] if a["trace"] else None
        out["inspect_ok"] = not a["inspect"]
        out["offers"] = sum(len(o) for o in a["offers"])
        out["published"] = any(len(c) > 0 for c in (a["trace"][-1]["state"]["state"]["contexts"][1:] if a["trace"] else []))
        out["sample"] = {"long": long_d, "short": short_d, "ops": a["ops"][:30], "final": out["final"],
                         "output": a["trace"][-1]["state"].get("output") if a["trace"] else None}
    except Exception:
        out["error"] = traceback.format_exc()[-2500:]
    return out


def run_twins(seeds, deadline=None, procs=16):
    res = []
    with multiprocessing.Pool(procs) as pool:
        for r in pool.imap_unordered(twin_case, seeds, chunksize=4):
            res.append(r)
            if deadline and time.time() > deadline:
                pool.terminate()
                break
    res.sort(key=lambda r: r["seed"])
    return res


def twin_nontrivial(r):
    f = r.get("features") or {}
    used = sum(1 for k in ("inline_action", "string_publish", "comma_do", "string_with", "omitted_do") if f.get(k))
    return used >= 2 and r.get("offers", 0) >= 2 and "error" not in r


# ------------------------------------------------------------------------------------- run

def params_built():
    vo = os.path.join(COQ, "model", "Params.vo")
    src = os.path.join(COQ, "model", "Params.v")
    gen = os.path.join(COQ, "gen", "GenParams.vo")
    return (os.path.exists(vo) and os.path.exists(gen) and os.path.getmtime(vo) >= os.path.getmtime(src)
            and os.path.getmtime(vo) >= os.path.getmtime(gen) - 1e-6)


def run(ctx):
    tier, seed = ctx["tier"], ctx["seed"]
    quick = tier == "quick"
    n_corr = 6000 if quick else 60000
    n_twin = 400 if quick else 6000
    base = (seed * 1000003 + 20) % (2 ** 31)
    out = {"violations": [], "known_lines": [], "correspondence_broken": None}
    tmp = tempfile.mkdtemp(prefix="c20_")
    try:
        # (i) correspondence
        corr = None
        if params_built():
            corr = run_corr(base, n_corr, tmp)
        # (ii) twins
        twins = run_twins([base + 7 + i for i in range(n_twin)])
    finally:
        shutil.rmtree(tmp, ignore_errors=True)
    dist = {"twin_features": {}, "twin_final_status": {}, "twin_value_classes": {}}
    nt = set()
    for r in twins:
        if "error" in r:
            continue
        for k, v in r["features"].items():
            if k == "value_classes":
                for c in v:
                    dist["twin_value_classes"][c] = dist["twin_value_classes"].get(c, 0) + 1
            elif v:
                dist["twin_features"][k] = dist["twin_features"].get(k, 0) + 1
        dist["twin_final_status"][str(r["final"])] = dist["twin_final_status"].get(str(r["final"]), 0) + 1
        if twin_nontrivial(r):
            nt.add(engine.dumps_sorted([r["long"], r["short"]]))
    dist["twin_inspect_clean"] = sum(1 for r in twins if r.get("inspect_ok"))
    dist["twin_published_something"] = sum(1 for r in twins if r.get("published"))
    out["evaluations"] = len(twins) + (corr["n"] if corr else 0)
    out["traces_validated"] = (corr["compared"] if corr else 0)
    out["distinct_nontrivial"] = len(nt) + (len(corr["nontrivial"]) if corr else 0)
    if corr:
        dist["correspondence_streams"] = corr["streams"]
        dist["correspondence_value_classes"] = corr["classes"]
        dist["correspondence_compared"] = corr["compared"]
        dist["correspondence_nontrivial"] = len(corr["nontrivial"])
    dist["twin_cases"] = len(twins)
    dist["twin_nontrivial"] = len(nt)
    dist["twin_api_calls"] = sum(r.get("calls", 0) for r in twins)
    out["distribution"] = dist
    out["rule"] = (
        "correspondence: strings from three streams (structured k=v lists over numbers, literals, quoted strings, "
        "quoted JSON, bracket lists, <% %> and {{ }} expressions with separators from {space , ;}+; the same with "
        "hostile text inside values and between pairs; a token soup of = quotes brackets delimiters ` in ` control "
        "blanks) plus do / with / action / publish forms built into real WorkflowSpec objects; each case is "
        "evaluated by the real code and by coqc on the Gallina model and compared on value and Python type; "
        "non-trivial = at least one pair was parsed (params, publish, action), a comma list or absent do, item keys "
        "or string with.  twins: generated long-form definition and its shorthand twin (inline action input, string "
        "publish, comma-separated do, string with, omitted do) compared on compose().serialize(), inspect() and "
        "every observation of a lock-step run with seeded outcomes; non-trivial = at least two kinds of shorthand "
        "present and at least two actions offered; distinct = distinct input (correspondence) or distinct pair of "
        "definitions (twins)")
    samples = []
    for r in twins:
        if twin_nontrivial(r) and len(samples) < 1:
            samples.append(dict(r["sample"], kind="twin", seed=r["seed"]))
    if corr:
        samples += corr["samples"]
    out["samples"] = samples[:3]
    # verdicts
    for r in twins:
        if "error" in r:
            out["violations"].append({"property": "C20", "what": "harness error in a twin case", "kind": "twin-error",
                                      "seed": r["seed"], "error": r["error"], "long": r.get("long"), "short": r.get("short")})
            break
    for r in twins:
        if r.get("diff"):
            out["violations"].append({"property": "C20", "kind": "twin",
                                      "what": "shorthand twin and long form differ in " + r["diff"]["aspect"],
                                      "seed": r["seed"], "long": r["long"], "short": r["short"], "inputs": r["inputs"],
                                      "diff": r["diff"]})
    if corr is None:
        out["correspondence_broken"] = {"reason": "coq/model/Params.vo is not built against the current coq/gen"}
    elif corr["coq_errors"]:
        out["correspondence_broken"] = {"reason": "coqc failed on generated cases", "first": corr["coq_errors"][0]}
    elif corr["disagreements"]:
        d = corr["disagreements"]
        out["correspondence_broken"] = {"cases_disagreeing": len(d), "first": min(d, key=lambda x: len(str(x["input"])))}
    broken = out["correspondence_broken"] or not ctx.get("proof_ok", True) or not ctx.get("model_ok", True)
    if broken and not out["violations"]:
        budget = 45 if quick else 400
        t_end = time.time() + budget
        extra = run_twins([base + 10 ** 6 + i for i in range(3000 if quick else 30000)], deadline=t_end)
        found = 0
        for r in extra:
            if r.get("diff"):
                found += 1
                if found <= 3:
                    out["violations"].append({"property": "C20", "kind": "twin", "found_by": "search",
                                              "what": "shorthand twin and long form differ in " + r["diff"]["aspect"],
                                              "seed": r["seed"], "long": r["long"], "short": r["short"],
                                              "inputs": r["inputs"], "diff": r["diff"]})
        out["search"] = {"twin_cases": len(extra), "budget_s": budget, "found": found}
    return out


def replay(payload):
    kind = payload.get("kind")
    if kind == "twin":
        a = observe(payload["long"], payload.get("inputs") or {}, payload.get("seed", 0))
        b = observe(payload["short"], payload.get("inputs") or {}, payload.get("seed", 0))
        d = twin_diff(a, b)
        if d:
            print("violation reproduced: twins differ in %s: %s" % (d["aspect"], json.dumps(d["first_difference"], default=str)[:800]))
            return 1
        print("no violation on replay")
        return 0
    corr = payload.get("correspondence") or {}
    first = corr.get("first") if isinstance(corr, dict) else None
    if first and "input" in first:
        tmp = tempfile.mkdtemp(prefix="c20_")
        try:
            shown, errors = model_eval([(first["kind"], first["input"])], tmp)
        finally:
            shutil.rmtree(tmp, ignore_errors=True)
        if errors or shown[0] is None:
            print("model could not be evaluated:", errors)
            return 1
        d = compare_case(first["kind"], first["input"], shown[0])
        if d:
            print("model and real code still disagree on %r: %s" % (first["input"], json.dumps(d, default=str)[:800]))
            return 1
        print("model and real code agree on replay")
        return 0
    print("replay file names a broken obligation, not a concrete input:")
    print(json.dumps(payload, indent=1, default=str)[:3000])
    return 1
