"""Shared machinery of the conductor properties: run generated (definition, history) cases on the
engine and the extracted model in lock step, compare the property's projection after every API
call, apply the property's monitor to the engine trace, and search with the monitor alone when a
proof obligation or the correspondence is broken."""
import json
import multiprocessing
import random
import time
import traceback

from harness import engine, findings, progs, provider

TRUSTED_BASE_COMMON = [
    "Coq 8.16.1 kernel via coqc (full .vo build, no -vos/-vok); vm_compute is used in table facts and "
    "non-vacuity examples; no native_compute",
    "no Axiom/Parameter/Admitted anywhere (grep by ./check on every run); expression evaluation is a "
    "Section variable `ev` (theorems hold for every ev), never an axiom",
    "translator harness/reflect.py (import-reflection of statuses/events/machines/constants into coq/gen)",
    "extraction: ExtrOcamlBasic + ExtrOcamlNativeString (Extract Inductive bool/option/unit/prod/list/"
    "sumbool/sumor/string/ascii); nat and Z stay extracted inductives; OCaml 4.13.1; ocaml/driver.ml glue "
    "(framing, wire syntax, eval call-back)",
    "correspondence harness (generators, canonicaliser, differ) trusted for detection only",
    "modelled-not-verified: orquesta/conducting.py, machines.py logic, graphing.py queries; tied by the "
    "lock-step comparison of serialize() after every API call",
    "oracles (not modelled): YAQL/Jinja evaluation (called for real by the model driver), jsonschema, "
    "PyYAML, ujson, networkx internals",
]


def project_full(obs):
    return obs


class PSession(provider.Session):
    """Session comparing only a projection of the observations."""

    def __init__(self, definition, inputs, project, with_model=True):
        provider.Session.__init__(self, definition, inputs, with_model=with_model)
        self.project = project

    def after_op(self):
        """Called by the history generator after every provider operation: when nothing is in flight, poll a
        restored copy of the engine (side-effect free) and record whether it offers anything."""
        if not getattr(self, "probe", False) or self.inflight or not self.trace:
            return
        from orquesta import conducting
        try:
            c2 = conducting.WorkflowConductor.deserialize(self.impl.c.serialize())
            offers = c2.get_next_tasks()
            self.probes.append((len(self.trace) - 1, self.status(), bool(offers), c2.get_workflow_status()))
        except Exception as e:
            self.probes.append((len(self.trace) - 1, self.status(), None, type(e).__name__))

    def compare(self, a, b):
        pa, pb = self.project(a), self.project(b)
        if engine.dumps_sorted(pa) != engine.dumps_sorted(pb):
            return engine.first_difference(pa, pb)
        return None


_CFG = {}


def _case(args):
    seed, with_model = args
    fam, project, monitor, features = _CFG["fam"], _CFG["project"], _CFG["monitor"], _CFG["features"]
    rng = random.Random(seed)
    out = {"seed": seed}
    sess = None
    try:
        definition, inputs = _CFG["gen"](rng, fam)
        out["definition"], out["inputs"] = definition, inputs
        sess = PSession(definition, inputs, project, with_model=with_model)
        sess.case_seed, sess.fam = seed, fam
        sess.cancel_dormant = bool(fam.get("lifecycle"))
        sess.probe, sess.probes = bool(fam.get("probe")), []
        oracle = progs.Oracle(seed, fam, per_task=bool(fam.get("per_task")))
        try:
            _CFG["history"](sess, rng, fam, oracle)
        except provider.Divergence as d:
            out["divergence"] = d.info
        out["ops"] = [op for op, _ in sess.trace]
        out["calls"] = len(sess.trace)
        out["final"] = sess.status()
        if monitor and "divergence" not in out:
            vs = monitor(sess) or []
            # attribute a violation to a known finding only if that finding lists this property and
            # its trigger predicate fires at or before the failing step
            for v in vs:
                for fid in _CFG.get("known_ids", []):
                    trig = findings.TRIGGERS.get(fid)
                    if trig and trig(sess, v.get("step")):
                        v["known"] = fid
                        break
            out["violations"] = vs
        else:
            out["violations"] = []
        if _CFG.get("alias_check") and "divergence" not in out:
            for i, (op, obs) in enumerate(sess.trace):
                if obs.get("aliased"):
                    out["violations"].append({"what": "two places of the live conductor state are one Python object: %s and %s "
                                                      "(an in-place update of one changes the other; a restored conductor "
                                                      "does not share them)" % tuple(obs["aliased"][0]), "step": i})
                    break
        out["features"] = features(sess) if features else {}
    except Exception:
        out["error"] = traceback.format_exc()[-2000:]
    finally:
        if sess:
            sess.close()
    return out


def run_cases(seeds, with_model, cfg, procs=16, deadline=None):
    _CFG.clear()
    _CFG.update(cfg)
    res = []
    with multiprocessing.Pool(procs) as pool:
        it = pool.imap_unordered(_case, [(s, with_model) for s in seeds], chunksize=2)
        for r in it:
            res.append(r)
            if deadline and time.time() > deadline:
                pool.terminate()
                break
    res.sort(key=lambda r: r["seed"])
    return res


def conductor_run(ctx, prop, fam, project, monitor, features, nontrivial, n_quick, n_thorough,
                  classify_known=None, gen=None, history=None, rule=""):
    """Generic body of run(ctx) for a conductor property."""
    tier, seed = ctx["tier"], ctx["seed"]
    n = n_quick if tier == "quick" else n_thorough
    known = [k for k in ctx["known"].get("findings", []) if prop in k.get("properties", [])]
    cfg = {"fam": fam, "project": project, "monitor": monitor, "features": features,
           "gen": gen or progs.gen_definition, "history": history or progs.run_history,
           "known_ids": [k["id"] for k in known], "alias_check": prop in ("C05", "C18")}
    base = (seed * 1000003) % (2 ** 31)
    seeds = [base + i for i in range(n)]
    results = run_cases(seeds, ctx["model_ok"], cfg)
    out = {"evaluations": len(results), "violations": [], "known_lines": findings.reconfirm(ctx["known"], prop)}
    divs = [r for r in results if "divergence" in r]
    errs = [r for r in results if "error" in r]
    calls = sum(r.get("calls", 0) for r in results)
    out["traces_validated"] = calls if ctx["model_ok"] else 0
    # distribution of what was exercised
    dist = {"final_status": {}, "op_kinds": {}, "features": {}}
    nt = set()
    for r in results:
        dist["final_status"][str(r.get("final"))] = dist["final_status"].get(str(r.get("final")), 0) + 1
        for op in r.get("ops", []):
            dist["op_kinds"][op[0]] = dist["op_kinds"].get(op[0], 0) + 1
        f = r.get("features") or {}
        for k, v in f.items():
            if v:
                dist["features"][k] = dist["features"].get(k, 0) + 1
        if nontrivial(r):
            nt.add(engine.dumps_sorted([r.get("definition"), r.get("ops")]))
    out["distinct_nontrivial"] = len(nt)
    out["distribution"] = dist
    out["rule"] = rule
    out["samples"] = [{"seed": r["seed"], "definition": r.get("definition"), "inputs": r.get("inputs"),
                       "ops": r.get("ops", [])[:40], "final": r.get("final")}
                      for r in results[:3]]
    for r in results:
        for v in r.get("violations", []):
            v = dict(v)
            v.update({"property": prop, "seed": r["seed"], "definition": r["definition"], "inputs": r["inputs"]})
            if "ops" not in v:
                v["ops"] = r["ops"][: v.get("step", len(r["ops"]) - 1) + 1]
            out["violations"].append(v)
    if errs:
        out["violations"].append({"property": prop, "what": "harness error while running a case",
                                  "error": errs[0]["error"], "seed": errs[0]["seed"],
                                  "definition": errs[0].get("definition")})
    if divs:
        d = divs[0]
        out["correspondence_broken"] = {
            "cases_diverging": len(divs), "first": {"seed": d["seed"], "definition": d["definition"],
                                                    "inputs": d["inputs"], "ops": d["ops"],
                                                    "divergence": d["divergence"]}}
    # cross-check of the extraction pipeline: the same model evaluated inside Coq (vm_compute) and by the driver
    if ctx["model_ok"]:
        try:
            from harness import crosscheck
            xn, xfails = crosscheck.run(seed, n=3 if tier == "quick" else 12)
            out["model_vm_compute_crosschecked"] = xn
            for f in xfails:
                out["violations"].append(dict(f, property=prop))
        except Exception:
            out["model_vm_compute_crosschecked"] = 0
    # search for a concrete failing input when something is broken and the monitor was quiet
    real = [v for v in out["violations"] if not v.get("known")]
    if (divs or not ctx["proof_ok"] or not ctx["model_ok"]) and not real and monitor:
        budget = 60 if tier == "quick" else 600
        t_end = time.time() + budget
        sseeds = [base + 10 ** 6 + i for i in range(4000 if tier == "quick" else 40000)]
        sres = run_cases(sseeds, False, cfg, deadline=t_end)
        found = 0
        for r in sres:
            for v in r.get("violations", []):
                v = dict(v)
                v.update({"property": prop, "seed": r["seed"], "definition": r["definition"],
                          "inputs": r["inputs"], "found_by": "search"})
                if "ops" not in v:
                    v["ops"] = r["ops"][: v.get("step", len(r["ops"]) - 1) + 1]
                if not v.get("known"):
                    found += 1
                out["violations"].append(v)
        out["search"] = {"cases": len(sres), "budget_s": budget, "found": found}
    return out


def replay_conductor(payload, monitor, project=project_full):
    """Re-run a stored case on the engine (and the model) and re-apply the monitor."""
    if "definition" not in payload or "ops" not in payload:
        print("replay file names a broken obligation, not a concrete input:")
        print(json.dumps(payload, indent=1)[:3000])
        return 1
    sess = PSession(payload["definition"], payload.get("inputs") or {}, project, with_model=False)
    try:
        for op in payload["ops"]:
            sess.call(op)
        vs = monitor(sess) or []
    finally:
        sess.close()
    for v in vs:
        print("violation reproduced:", json.dumps(v, default=str)[:800])
    if not vs:
        print("no violation on replay")
    return 1 if vs else 0
