"""Reference provider (DESIGN.md 3.3): turns provider operations (Boot, Poll, Report, Request,
Render, Rerun, Persist) into conductor API calls, keeps the in-flight set, and drives the real
engine and (optionally) the extracted model in lock step, comparing after every API call."""
import zlib

from harness import engine


class Divergence(Exception):
    def __init__(self, info):
        Exception.__init__(self, "model and engine diverge")
        self.info = info


def crc(*parts):
    return zlib.crc32(repr(parts).encode())


class Session(object):
    """Drives Impl (and Model when with_model) through API calls; records the trace."""

    def __init__(self, definition, inputs=None, parent=None, with_model=True):
        self.definition = definition
        self.inputs = inputs or {}
        self.parent = parent or {}
        self.impl = engine.Impl(definition, inputs, parent)
        self.model = engine.Model(definition, inputs, parent) if with_model else None
        self.trace = []          # list of (op, observation)
        self.inflight = {}       # (task, route, item or None) -> attempt number
        self.attempts = {}
        self.items_acc = {}      # (task, route) -> accumulated item results (provider side)
        self.offers_log = []
        self.last_reported = {}  # in-flight key -> last non-final status reported
        self.tags = []           # parallel to trace: what provider operation each call belongs to
        self.inflight_log = []   # parallel to trace: in-flight set right after the call
        self.active_log = []     # ... of those, the ones whose last report is not paused / pending (dormant)

    def close(self):
        if self.model:
            self.model.close()

    # -- one conductor API call
    def compare(self, a, b):
        if engine.dumps_sorted(a) != engine.dumps_sorted(b):
            return engine.first_difference(a, b)
        return None

    def call(self, op, tag="raw"):
        a = self.impl.apply(op)
        aliased = a.pop("aliased", [])      # engine-only observation (Python object identity); not compared
        self.tags.append(tag)
        self.inflight_log.append(sorted(self.inflight, key=repr))
        self.active_log.append(sorted((k for k in self.inflight if self.last_reported.get(k) not in ("paused", "pending")),
                                      key=repr))
        if self.model is not None:
            b = self.model.apply(op)
            d = self.compare(a, b)
            if d is not None:
                self.trace.append((op, a))
                raise Divergence({"step": len(self.trace) - 1, "op": op, "diff": d})
        a["aliased"] = aliased
        self.trace.append((op, a))
        return a

    def status(self):
        return self.trace[-1][1]["state"]["state"]["status"] if self.trace else None

    # -- provider operations
    def boot(self):
        return self.call(["request_status", "running"], "boot")

    def poll(self):
        """get_next_tasks and acknowledge every offered action as running."""
        obs = self.call(["get_next"], "poll")
        offers = obs["result"] or []
        self.offers_log.append(offers)
        for o in offers:
            t, r = o["id"], o["route"]
            if o.get("items_count") == 0:
                self.call(["event", t, r, ["action", "running", None]], "ack")
                self.call(["event", t, r, ["action", "succeeded", []]], "ack-empty")
                continue
            for a in o["actions"]:
                item = a.get("item_id")
                key = (t, r, item)
                n = self.attempts.get(key, 0)
                self.attempts[key] = n + 1
                self.inflight[key] = n
                if item is None:
                    self.call(["event", t, r, ["action", "running", None]], "ack")
                else:
                    self.items_acc.setdefault((t, r), {})
                    self.call(["event", t, r, ["item", item, "running", None, None]], "ack")
        return offers

    def report(self, key, status, result=None):
        """Report a status for an in-flight action; completed statuses leave the set."""
        t, r, item = key
        # an action that reported paused or resuming runs again before it can complete (provider protocol)
        if getattr(self, "cancel_dormant", False) and self.last_reported.get(key) == "paused" \
                and status in ("succeeded", "failed", "timeout", "abandoned") \
                and self.status() in ("canceling", "canceled", "failed", "succeeded"):
            status, result = "canceled", None      # a paused action of a workflow that is over is canceled, not resumed
        if self.last_reported.get(key) in ("paused", "resuming") and status in ("succeeded", "failed", "timeout", "abandoned"):
            self.last_reported[key] = "running"
            if item is None:
                self.call(["event", t, r, ["action", "running", None]], "report")
            else:
                self.call(["event", t, r, ["item", item, "running", None, None]], "report")
        self.last_reported[key] = status
        if status in ("succeeded", "failed", "timeout", "abandoned", "canceled"):
            self.inflight.pop(key, None)
            self.last_reported.pop(key, None)
        if item is None:
            return self.call(["event", t, r, ["action", status, result]], "report")
        acc = self.items_acc.setdefault((t, r), {})
        acc[item] = result
        n = max(acc) + 1
        accumulated = [acc.get(i) for i in range(n)]
        return self.call(["event", t, r, ["item", item, status, result, accumulated]], "report")

    def request(self, status):
        return self.call(["request_status", status], "request")

    def render(self):
        return self.call(["render"], "render")

    def rerun(self, reqs):
        return self.call(["rerun", reqs], "rerun")

    def persist(self):
        return self.call(["persist"], "persist")


def lockstep(sess, outcome=lambda key, attempt: ("succeeded", None), max_rounds=200):
    """The rehearsal schedule: every in-flight action completes before the next poll."""
    sess.boot()
    for _ in range(max_rounds):
        sess.poll()
        if not sess.inflight:
            break
        for key in sorted(sess.inflight, key=lambda k: (k[0], k[1], -1 if k[2] is None else k[2])):
            st, res = outcome(key, sess.inflight[key])
            sess.report(key, st, res)
    sess.render()
    return sess
