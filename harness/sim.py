"""Discrete-event simulation of a provider on the real engine: every offered action gets a duration
(a pure function of its key, attempt and a schedule seed); completions are reported in order of
finish time; the workflow is polled after every event.  Used by the relational monitors (C08 order
independence, C09 pause transparency, C10 cancellation, C17 rerun convergence), where two or more
runs of the same scenario are compared."""
from harness import provider

COMPLETED = ("succeeded", "failed", "timeout", "abandoned", "canceled")


def duration(sched_seed, key, attempt):
    return 1 + provider.crc("dur", sched_seed, key, attempt) % 97


class Sim(object):
    def __init__(self, sess, oracle, sched_seed, controls=None, auto_resume=True, max_events=400,
                 outcome_override=None):
        self.s = sess
        self.oracle = oracle
        self.sched = sched_seed
        self.controls = dict(controls or {})     # event index -> status to request before that event
        self.auto_resume = auto_resume
        self.max_events = max_events
        self.finish = {}
        self.time = 0
        self.events = 0
        self.pause_requested = False
        self.cancel_requested = False
        self.resumed = 0
        self.completed_by_request = False
        self.status_after_request = []
        self.executed = []                      # (task, route, item, attempt, status)
        self.outcome_override = outcome_override or {}

    def _poll(self):
        before = set(self.s.inflight)
        offers = self.s.poll()
        for k in self.s.inflight:
            if k not in before:
                self.finish[k] = self.time + duration(self.sched, k, self.s.inflight[k])
        return offers

    def _request(self, st):
        before = self.s.status()
        obs = self.s.request(st)
        after = self.s.status()
        self.status_after_request.append((st, before, after, obs["raised"]))
        if obs["raised"] is None:
            if st in ("pausing", "paused"):
                self.pause_requested = True
            if st in ("canceling", "canceled"):
                self.cancel_requested = True
            if before not in COMPLETED and after in COMPLETED and self.s.trace[-1][1]["state"]["state"]["sequence"]:
                self.completed_by_request = True
        return obs

    def run(self):
        s = self.s
        s.boot()
        idle = 0
        while self.events < self.max_events:
            if self.events in self.controls:
                self._request(self.controls.pop(self.events))
            offers = self._poll()
            st = s.status()
            if st == "paused" and self.auto_resume and self.pause_requested and not self.cancel_requested:
                # the workflow has come to rest: resume (paused/pending tasks keep it paused otherwise)
                seq = s.trace[-1][1]["state"]["state"]["sequence"]
                if not any(r.get("status") in ("paused", "pending") for r in seq):
                    self._request("resuming")
                    self.resumed += 1
                    self.pause_requested = False
                    offers = self._poll() or offers
            if not s.inflight:
                # a poll whose offers completed on the spot (with-items over an empty list) is progress, not idleness
                idle = 0 if offers else idle + 1
                if idle >= 2 or s.status() in COMPLETED:
                    break
                continue
            idle = 0
            key = min(s.inflight, key=lambda k: (self.finish.get(k, 0), repr(k)))
            self.time = max(self.time, self.finish.get(key, 0))
            attempt = s.inflight[key]
            if (key, attempt) in self.outcome_override:
                stt, res = self.outcome_override[(key, attempt)]
            else:
                stt, res = self.oracle.outcome(key, attempt)
            s.report(key, stt, res)
            self.executed.append((key[0], key[1], key[2], attempt, stt))
            self.events += 1
        s.render()
        return self

    # -- observations used by the relational monitors
    def final(self):
        last = self.s.trace[-1][1]
        st = last["state"]["state"]
        return {
            "status": st["status"],
            "output": last["state"]["output"],
            "errors": sorted(repr(sorted(e.items())) for e in last["state"]["errors"]),
            "records": sorted((r["id"], str(r.get("status"))) for r in st["sequence"]),
            "executed": sorted((k[0], k[2], k[4]) for k in self.executed),
            "published": sorted(repr(sorted(c.items())) for c in st["contexts"][1:]),
        }


class ChoiceSim(Sim):
    """Simulation in which the next action to report is chosen by a script (list of indices into the sorted
    in-flight set); beyond the script the first one is taken.  Records the branching factor at each step so
    that all completion orders of a scenario can be enumerated by replay-based depth-first search."""

    def __init__(self, sess, oracle, script, max_events=60):
        Sim.__init__(self, sess, oracle, 0, max_events=max_events)
        self.script = list(script)
        self.branching = []

    def run(self):
        s = self.s
        s.boot()
        idle = 0
        while self.events < self.max_events:
            offers = self._poll()
            if not s.inflight:
                idle = 0 if offers else idle + 1
                if idle >= 2 or s.status() in COMPLETED:
                    break
                continue
            idle = 0
            keys = sorted(s.inflight, key=repr)
            self.branching.append(len(keys))
            k = self.script[self.events] if self.events < len(self.script) else 0
            key = keys[min(k, len(keys) - 1)]
            stt, res = self.oracle.outcome(key, s.inflight[key])
            s.report(key, stt, res)
            self.executed.append((key[0], key[1], key[2], 0, stt))
            self.events += 1
        s.render()
        return self


def all_orders(make_session, oracle, cap=200, max_events=40):
    """Finals of every completion order of a scenario (up to cap orders); returns (finals, exhaustive?)."""
    finals = []
    stack = [[]]
    exhaustive = True
    while stack:
        if len(finals) >= cap:
            exhaustive = False
            break
        script = stack.pop()
        sm = ChoiceSim(make_session(), oracle, script, max_events=max_events)
        try:
            sm.run()
            finals.append((list(script), sm.final(), [op for op, _ in sm.s.trace]))
            # siblings: at every step at or beyond the scripted prefix, the alternatives not taken
            for pos in range(len(script), len(sm.branching)):
                for alt in range(1, sm.branching[pos]):
                    stack.append(script + [0] * (pos - len(script)) + [alt])
        finally:
            sm.s.close()
    return finals, exhaustive
