"""Smoke: all fixture workflows under the lock-step schedule, engine vs model."""
import glob, os, sys, yaml, json
sys.path.insert(0, os.path.dirname(os.path.dirname(os.path.abspath(__file__))))
from harness import engine, provider

def main():
    files = sorted(glob.glob("/repo/orquesta/tests/fixtures/workflows/native/*.yaml"))
    bad = 0
    for f in files:
        d = yaml.safe_load(open(f))
        s = None
        try:
            s = provider.Session(d, {})
            provider.lockstep(s)
            print("ok  %-40s calls=%d evals=%d status=%s" % (os.path.basename(f), len(s.trace), s.model.evals, s.status()))
        except provider.Divergence as e:
            bad += 1
            print("DIV %-40s %s" % (os.path.basename(f), json.dumps(e.info, default=str)[:600]))
        except Exception as e:
            bad += 1
            print("ERR %-40s %s: %s" % (os.path.basename(f), type(e).__name__, str(e)[:300]))
        finally:
            if s: s.close()
    print("bad", bad)

main()
