"""Tie of the formal provider protocol (coq/model/ProviderSys.v, the object C02b / C03b quantify over) to the engine
and to the harness's reference provider (harness/provider.py).

A protocol history (Boot, Poll, Report, Request, Render, Persist) is run on the real engine through
provider.Session.  The same list of protocol steps is then evaluated inside Coq by `sys_run` (vm_compute; the
evaluator is the finite table of answers recorded while the model replayed the API calls) and must give
  * the engine's final conductor state (serialize(), errors, output),
  * the provider's final in-flight set,
  * as many conductor API calls as the session made (sys_api_ops),
  * no fault,
and the case must satisfy the hypotheses of the theorems (no_items, sys_graph_ok), so that the theorems speak
about exactly the runs the engine was driven through.  A difference is reported as a violation of the check."""
import os
import random
import shutil
import subprocess
import tempfile

from harness import engine, progs, provider
from harness.crosscheck import COQ, RecordingModel, coq_json, coq_str

FAM = progs.family(n_tasks=(2, 6), p_items=0.0, p_retry=0.2, p_cmd=0.2, p_join=0.5, p_fail=0.2, p_other_abend=0.05,
                   p_jinja=0.2, p_cleanup_fail=0.1, p_loop=0.15)
REQUESTS = ["pausing", "paused", "resuming", "running", "canceling", "canceled", "failed"]


def protocol_history(sess, rng, oracle, steps):
    """Drive the session with protocol steps only; returns the list of steps taken."""
    ops = [("Boot",)]
    sess.boot()
    for _ in range(steps):
        r = rng.random()
        if r < 0.4:
            sess.poll()
            ops.append(("Poll",))
        elif r < 0.75 and sess.inflight:
            keys = sorted(sess.inflight, key=repr)
            key = keys[rng.randrange(len(keys))]
            st, res = oracle.outcome(key, sess.inflight[key])
            sess.report(key, st, res)
            ops.append(("Report", key[0], key[1], st, res))
        elif r < 0.88:
            st = rng.choice(REQUESTS)
            sess.request(st)
            ops.append(("Request", st))
        elif r < 0.94:
            sess.render()
            ops.append(("Render",))
        else:
            sess.persist()
            ops.append(("Persist",))
    return ops


def one_case(seed):
    rng = random.Random(seed)
    definition, inputs = progs.gen_definition(rng, FAM)
    sess = provider.Session(definition, inputs, with_model=False)
    try:
        ops = protocol_history(sess, rng, progs.Oracle(seed, FAM), rng.randint(6, 16))
        api_ops = [op for op, _ in sess.trace]
        final = sess.trace[-1][1]["state"]
        raised = [o["raised"] for _, o in sess.trace if o["raised"] is not None
                  and o["raised"][0] != "InvalidWorkflowStatusTransition"]
        inflight = sorted((k[0], k[1]) for k in sess.inflight)
    finally:
        sess.close()
    m = RecordingModel(definition, inputs)
    try:
        for op in api_ops:
            m._call(["op", op])
    finally:
        m.close()
    return m.nspec, m.ngraph, inputs, ops, len(api_ops), m.table, final, inflight, bool(raised)


def coq_op(op):
    if op[0] in ("Boot", "Poll", "Render", "Persist"):
        return op[0]
    if op[0] == "Request":
        return "Request (st %s)" % coq_str(op[1])
    return "Report %s %d (st %s) %s" % (coq_str(op[1]), op[2], coq_str(op[3]), coq_json(op[4]))


def coq_case(idx, nspec, ngraph, inputs, ops, n_api, table, final, inflight, raised):
    rows = []
    for stmt, ctx, ans in table:
        if ans[0] == "ok":
            r = "EvOk %s" % coq_json(ans[1])
        else:
            r = "EvErr {| x_cls := %s; x_msg := %s; x_expr := %s |}" % (coq_str(ans[1]), coq_str(ans[2]),
                                                                      "true" if ans[3] else "false")
        rows.append("(%s, %s, %s)" % (coq_str(stmt), coq_json(ctx), r))
    return """
Definition table%(i)d : list (string * json * evalres) := [%(rows)s].
Definition ev%(i)d (s : string) (ctx : dict) : evalres :=
  match find (fun '(s', c', _) => String.eqb s s' && json_eqb (JDict ctx) c') table%(i)d with
  | Some (_, _, r) => r
  | None => EvErr {| x_cls := "TableMiss"; x_msg := s; x_expr := false |}
  end.
Definition result%(i)d : list bool :=
  match dec_spec %(spec)s, dec_graph %(graph)s with
  | Some sp, Some g =>
      let s0 := sys_init sp g %(inputs)s [] in
      let ops := [%(ops)s] in
      let s := sys_run ev%(i)d ops s0 in
      [ py_eqb (enc_cstate (s_c s)) %(final)s;
        same_keys (s_inflight s) [%(infl)s];
        Nat.eqb (length (sys_api_ops ev%(i)d ops s0)) %(napi)d;
        Bool.eqb (s_fault s) %(fault)s;
        no_items sp; sys_graph_ok g ]
  | _, _ => []
  end.
Eval vm_compute in ("SYSCHECK", %(i)d, result%(i)d).
""" % {"i": idx, "rows": ";\n  ".join(rows), "spec": coq_json(nspec), "graph": coq_json(ngraph),
       "inputs": "[%s]" % "; ".join("(%s, %s)" % (coq_str(k), coq_json(v)) for k, v in inputs.items()),
       "ops": "; ".join(coq_op(o) for o in ops), "final": coq_json(final), "napi": n_api,
       "infl": "; ".join("(%s, %d)" % (coq_str(t), r) for t, r in inflight),
       "fault": "true" if raised else "false"}


HEADER = """From Coq Require Import String List Bool ZArith Arith.
From Orq Require Import GenStatuses Base State Machines Codec Conductor Decode Api Driver ProviderSys.
Import ListNotations.
Open Scope string_scope.
Definition st (s : string) : status := match as_status (JStr s) with Some x => x | None => S_RUNNING end.
Definition same_keys (a b : list akey) : bool :=
  forallb (fun k => akey_in k b) a && forallb (fun k => akey_in k a) b.
"""


def run(seed, n=6):
    """Returns (cases checked, cases within the theorems' hypotheses, list of failures)."""
    parts, cases = [], []
    for i in range(n * 3):
        if len(cases) >= n:
            break
        try:
            c = one_case(seed * 1000 + 500 + i)
            parts.append(coq_case(len(cases), *c))
            cases.append(c)
        except ValueError:          # non-ascii text cannot be written as a Coq string literal here
            continue
    tmp = tempfile.mkdtemp(prefix="syschk_")
    try:
        path = os.path.join(tmp, "syscheck.v")
        with open(path, "w") as f:
            f.write(HEADER + "\n".join(parts))
        p = subprocess.run(["flock", "-s", os.path.join(COQ, ".lock"), "timeout", "600", "coqc", "-Q", os.path.join(COQ, "gen"), "Orq", "-Q",
                            os.path.join(COQ, "model"), "Orq", path], stdout=subprocess.PIPE, stderr=subprocess.STDOUT,
                           text=True, cwd=tmp)
        out = " ".join(p.stdout.split())
        fails, in_scope = [], 0
        if p.returncode != 0:
            fails.append({"what": "the provider-protocol case file does not compile", "output": p.stdout[-1500:]})
            return len(cases), 0, fails
        import re
        for mm in re.finditer(r'\("SYSCHECK", (\d+), \[([^\]]*)\]\)', out):
            idx = int(mm.group(1))
            flags = [x.strip() == "true" for x in mm.group(2).split(";")] if mm.group(2).strip() else []
            names = ["final conductor state", "in-flight set", "number of API calls", "fault flag",
                     "hypothesis no_items", "hypothesis sys_graph_ok"]
            if len(flags) != 6:
                fails.append({"what": "provider-protocol case %d could not be decoded by the model" % idx})
                continue
            bad = [names[k] for k in range(4) if not flags[k]]
            if bad:
                c = cases[idx]
                fails.append({"what": "the formal provider protocol (ProviderSys.sys_run) and the engine driven by the "
                                      "reference provider disagree on: %s" % ", ".join(bad),
                              "protocol_steps": [list(o) for o in c[3]], "definition_spec": c[0]})
            if flags[4] and flags[5] and not cases[idx][8]:
                in_scope += 1
        if out.count('"SYSCHECK"') != len(cases):
            fails.append({"what": "provider-protocol check: %d of %d cases evaluated" % (out.count('"SYSCHECK"'), len(cases)),
                          "output": p.stdout[-800:]})
        return len(cases), in_scope, fails
    finally:
        shutil.rmtree(tmp, ignore_errors=True)


if __name__ == "__main__":
    import sys
    print(run(int(sys.argv[1]) if len(sys.argv) > 1 else 1))


# ------------------------------------------------------------------ scope of the no-internal-error theorem (C15b)

SCOPE_FAM = progs.family(p_bad=0.0, w_malformed=0.0, p_items=0.25, p_retry=0.25, p_delay=0.15, p_input=0.4,
                         p_loop=0.15, n_tasks=(2, 6), steps=(8, 30), w_ctrl=0.6, w_rerun=0.0, p_late_join=0.15,
                         p_intermediate=0.05)
INTERNAL = ("KeyError", "IndexError", "TypeError", "ValueError", "AttributeError")

SCOPE_HEADER = """From Coq Require Import String List Bool ZArith Arith.
From Orq Require Import GenStatuses Base State Machines Codec Conductor Decode Api Driver NoInternalProofs.
Import ListNotations.
Open Scope string_scope.
Fixpoint all_some {A} (l : list (option A)) : option (list A) :=
  match l with
  | [] => Some []
  | Some a :: l' => match all_some l' with Some r => Some (a :: r) | None => None end
  | None :: _ => None
  end.
"""


def scope_case(seed):
    rng = random.Random(seed)
    definition, inputs = progs.gen_definition(rng, SCOPE_FAM)
    sess = provider.Session(definition, inputs, with_model=False)
    try:
        progs.run_history(sess, rng, SCOPE_FAM, progs.Oracle(seed, SCOPE_FAM))
        api_ops = [op for op, _ in sess.trace]
        internal = [o["raised"][0] for _, o in sess.trace if o["raised"] is not None and o["raised"][0] in INTERNAL]
    finally:
        sess.close()
    m = RecordingModel(definition, inputs)
    try:
        for op in api_ops:
            m._call(["op", op])
    finally:
        m.close()
    return m.nspec, m.ngraph, inputs, api_ops, m.table, internal


def scope_coq(idx, nspec, ngraph, inputs, api_ops, table, internal):
    rows = []
    for stmt, ctx, ans in table:
        if ans[0] == "ok":
            r = "EvOk %s" % coq_json(ans[1])
        else:
            r = "EvErr {| x_cls := %s; x_msg := %s; x_expr := %s |}" % (coq_str(ans[1]), coq_str(ans[2]),
                                                                      "true" if ans[3] else "false")
        rows.append("(%s, %s, %s)" % (coq_str(stmt), coq_json(ctx), r))
    return """
Definition table%(i)d : list (string * json * evalres) := [%(rows)s].
Definition ev%(i)d (s : string) (ctx : dict) : evalres :=
  match find (fun '(s', c', _) => String.eqb s s' && json_eqb (JDict ctx) c') table%(i)d with
  | Some (_, _, r) => r
  | None => EvErr {| x_cls := "TableMiss"; x_msg := s; x_expr := false |}
  end.
Definition result%(i)d : list bool :=
  match start %(spec)s %(graph)s %(inputs)s (JDict []), all_some (map dec_op [%(ops)s]) with
  | Some c0, Some (op1 :: ops) =>
      let c1 := fst (api_exec ev%(i)d op1 c0) in
      [ static_ok_b (c_spec c1) (c_graph c1); WF_b c1; hist_in_scope_b ev%(i)d ops c1 ]
  | _, _ => []
  end.
Eval vm_compute in ("SCOPECHECK", %(i)d, result%(i)d).
""" % {"i": idx, "rows": ";\n  ".join(rows), "spec": coq_json(nspec), "graph": coq_json(ngraph),
       "inputs": coq_json(inputs), "ops": "; ".join(coq_json(op) for op in api_ops)}


def run_scope(seed, n=6):
    """How many generated conformant, rerun-free histories fall within the hypotheses of C15_no_internal_error_history
    (static_ok, WF after boot, every call in scope and not malformed).  Returns (cases, in scope, failures): a run that
    is in scope although the engine raised an internal error on it contradicts the theorem (or the model)."""
    import re
    parts, cases = [], []
    for i in range(n * 3):
        if len(cases) >= n:
            break
        try:
            c = scope_case(seed * 1000 + 700 + i)
            parts.append(scope_coq(len(cases), *c))
            cases.append(c)
        except ValueError:
            continue
    tmp = tempfile.mkdtemp(prefix="scopechk_")
    try:
        path = os.path.join(tmp, "scopecheck.v")
        with open(path, "w") as f:
            f.write(SCOPE_HEADER + "\n".join(parts))
        p = subprocess.run(["flock", "-s", os.path.join(COQ, ".lock"), "timeout", "900", "coqc", "-Q",
                            os.path.join(COQ, "gen"), "Orq", "-Q", os.path.join(COQ, "model"), "Orq", "-Q",
                            os.path.join(COQ, "facts"), "Orq", "-Q", os.path.join(COQ, "proofs"), "Orq", path],
                           stdout=subprocess.PIPE, stderr=subprocess.STDOUT, text=True, cwd=tmp)
        out = " ".join(p.stdout.split())
        if p.returncode != 0:
            return len(cases), 0, [{"what": "the scope case file does not compile", "output": p.stdout[-1500:]}], {}
        in_scope, fails, why = 0, [], {"static_ok": 0, "WF_after_boot": 0, "every_call_in_scope": 0}
        for mm in re.finditer(r'\("SCOPECHECK", (\d+), \[([^\]]*)\]\)', out):
            idx = int(mm.group(1))
            flags = [x.strip() == "true" for x in mm.group(2).split(";")] if mm.group(2).strip() else []
            if len(flags) != 3:
                continue
            for k, nm in enumerate(("static_ok", "WF_after_boot", "every_call_in_scope")):
                why[nm] += 1 if flags[k] else 0
            if all(flags):
                in_scope += 1
                if cases[idx][5]:
                    fails.append({"what": "a history within the hypotheses of C15_no_internal_error_history on which the "
                                          "engine raised %s" % cases[idx][5][:2], "ops": cases[idx][3],
                                  "definition_spec": cases[idx][0]})
        return len(cases), in_scope, fails, why
    finally:
        shutil.rmtree(tmp, ignore_errors=True)


# ------------------------------------------------------------------ the with-items protocol (ProviderSysItems.v)

ITEMS_FAM = progs.family(n_tasks=(2, 5), p_items=0.6, p_retry=0.15, p_cmd=0.15, p_join=0.4, p_fail=0.15, p_item_fail=0.15,
                         p_other_abend=0.03, p_jinja=0.2, p_loop=0.0)

ITEMS_HEADER = """From Coq Require Import String List Bool ZArith Arith.
From Orq Require Import GenStatuses Base State Machines Codec Conductor Decode Api Driver ProviderSysItems.
Import ListNotations.
Open Scope string_scope.
Definition st (s : string) : status := match as_status (JStr s) with Some x => x | None => S_RUNNING end.
Definition same_ikeys (a b : list ikey) : bool :=
  forallb (fun k => ikey_in k b) a && forallb (fun k => ikey_in k a) b.
"""


def items_history(sess, rng, oracle, steps):
    ops = [("IBoot",)]
    sess.boot()
    for _ in range(steps):
        r = rng.random()
        if r < 0.4:
            sess.poll()
            ops.append(("IPoll",))
        elif r < 0.8 and sess.inflight:
            keys = sorted(sess.inflight, key=repr)
            key = keys[rng.randrange(len(keys))]
            stt, res = oracle.outcome(key, sess.inflight[key])
            sess.report(key, stt, res)
            ops.append(("IReport", key[0], key[1], key[2], stt, res))
        elif r < 0.9:
            stt = rng.choice(REQUESTS)
            sess.request(stt)
            ops.append(("IRequest", stt))
        elif r < 0.95:
            sess.render()
            ops.append(("IRender",))
        else:
            sess.persist()
            ops.append(("IPersist",))
    return ops


def items_case(seed):
    rng = random.Random(seed)
    definition, inputs = progs.gen_definition(rng, ITEMS_FAM)
    sess = provider.Session(definition, inputs, with_model=False)
    try:
        ops = items_history(sess, rng, progs.Oracle(seed, ITEMS_FAM), rng.randint(6, 18))
        api_ops = [op for op, _ in sess.trace]
        final = sess.trace[-1][1]["state"]
        raised = [o["raised"] for _, o in sess.trace if o["raised"] is not None
                  and o["raised"][0] != "InvalidWorkflowStatusTransition"]
        inflight = sorted(sess.inflight, key=repr)
    finally:
        sess.close()
    m = RecordingModel(definition, inputs)
    try:
        for op in api_ops:
            m._call(["op", op])
    finally:
        m.close()
    return m.nspec, m.ngraph, inputs, ops, m.table, final, inflight, bool(raised)


def coq_iop(op):
    if op[0] in ("IBoot", "IPoll", "IRender", "IPersist"):
        return op[0]
    if op[0] == "IRequest":
        return "IRequest (st %s)" % coq_str(op[1])
    item = "None" if op[3] is None else "(Some %d)" % op[3]
    return "IReport %s %d %s (st %s) %s" % (coq_str(op[1]), op[2], item, coq_str(op[4]), coq_json(op[5]))


def items_coq(idx, nspec, ngraph, inputs, ops, table, final, inflight, raised):
    rows = []
    for stmt, ctx, ans in table:
        if ans[0] == "ok":
            r = "EvOk %s" % coq_json(ans[1])
        else:
            r = "EvErr {| x_cls := %s; x_msg := %s; x_expr := %s |}" % (coq_str(ans[1]), coq_str(ans[2]),
                                                                      "true" if ans[3] else "false")
        rows.append("(%s, %s, %s)" % (coq_str(stmt), coq_json(ctx), r))
    keys = "; ".join("(%s, %d, %s)" % (coq_str(t), r, "None" if i is None else "Some %d" % i) for t, r, i in inflight)
    return """
Definition table%(i)d : list (string * json * evalres) := [%(rows)s].
Definition ev%(i)d (s : string) (ctx : dict) : evalres :=
  match find (fun '(s', c', _) => String.eqb s s' && json_eqb (JDict ctx) c') table%(i)d with
  | Some (_, _, r) => r
  | None => EvErr {| x_cls := "TableMiss"; x_msg := s; x_expr := false |}
  end.
Definition result%(i)d : list bool :=
  match dec_spec %(spec)s, dec_graph %(graph)s with
  | Some sp, Some g =>
      let s := isys_run ev%(i)d [%(ops)s] (isys_init sp g %(inputs)s []) in
      [ py_eqb (enc_cstate (si_c s)) %(final)s;
        same_ikeys (si_inflight s) [%(keys)s];
        Bool.eqb (si_fault s) %(fault)s;
        negb (si_wiped s) ]
  | _, _ => []
  end.
Eval vm_compute in ("ISYSCHECK", %(i)d, result%(i)d).
""" % {"i": idx, "rows": ";\n  ".join(rows), "spec": coq_json(nspec), "graph": coq_json(ngraph),
       "inputs": "[%s]" % "; ".join("(%s, %s)" % (coq_str(k), coq_json(v)) for k, v in inputs.items()),
       "ops": "; ".join(coq_iop(o) for o in ops), "final": coq_json(final), "keys": keys,
       "fault": "true" if raised else "false"}


def run_items(seed, n=6):
    """The with-items protocol: engine through the reference provider vs isys_run inside Coq.
    Returns (cases, cases with both flags false, failures)."""
    import re
    parts, cases = [], []
    for i in range(n * 3):
        if len(cases) >= n:
            break
        try:
            c = items_case(seed * 1000 + 900 + i)
            parts.append(items_coq(len(cases), *c))
            cases.append(c)
        except ValueError:
            continue
    tmp = tempfile.mkdtemp(prefix="isyschk_")
    try:
        path = os.path.join(tmp, "isyscheck.v")
        with open(path, "w") as f:
            f.write(ITEMS_HEADER + "\n".join(parts))
        p = subprocess.run(["flock", "-s", os.path.join(COQ, ".lock"), "timeout", "900", "coqc", "-Q",
                            os.path.join(COQ, "gen"), "Orq", "-Q", os.path.join(COQ, "model"), "Orq", path],
                           stdout=subprocess.PIPE, stderr=subprocess.STDOUT, text=True, cwd=tmp)
        out = " ".join(p.stdout.split())
        if p.returncode != 0:
            return len(cases), 0, [{"what": "the with-items protocol case file does not compile", "output": p.stdout[-1500:]}]
        fails, clean = [], 0
        for mm in re.finditer(r'\("ISYSCHECK", (\d+), \[([^\]]*)\]\)', out):
            idx = int(mm.group(1))
            flags = [x.strip() == "true" for x in mm.group(2).split(";")] if mm.group(2).strip() else []
            names = ["final conductor state", "in-flight set", "fault flag"]
            if len(flags) != 4:
                fails.append({"what": "with-items protocol case %d could not be decoded by the model" % idx})
                continue
            bad = [names[k] for k in range(3) if not flags[k]]
            if bad:
                c = cases[idx]
                fails.append({"what": "the formal with-items provider protocol (ProviderSysItems.isys_run) and the engine "
                                      "driven by the reference provider disagree on: %s" % ", ".join(bad),
                              "protocol_steps": [list(o) for o in c[3]], "definition_spec": c[0]})
            if flags[3] and not cases[idx][7]:
                clean += 1
        return len(cases), clean, fails
    finally:
        shutil.rmtree(tmp, ignore_errors=True)
