"""Wire syntax shared with ocaml/driver.ml (see there) and message framing."""


class WireError(Exception):
    pass


def dumps(v):
    out = []
    _dump(v, out)
    return b"".join(out)


def _dump(v, out):
    if v is None:
        out.append(b"n")
    elif v is True:
        out.append(b"t")
    elif v is False:
        out.append(b"f")
    elif isinstance(v, int):
        out.append(b"i%d;" % v)
    elif isinstance(v, float):
        out.append(b"r" + v.hex().encode() + b";")
    elif isinstance(v, str):
        b = v.encode("utf-8", "surrogatepass")
        out.append(b"s%d:" % len(b))
        out.append(b)
    elif isinstance(v, (list, tuple)):
        out.append(b"l%d:" % len(v))
        for x in v:
            _dump(x, out)
    elif isinstance(v, dict) or hasattr(v, "items"):
        items = list(v.items())
        out.append(b"d%d:" % len(items))
        for k, x in items:
            if not isinstance(k, str):
                raise WireError("non-string key %r" % (k,))
            b = k.encode("utf-8", "surrogatepass")
            out.append(b"s%d:" % len(b))
            out.append(b)
            _dump(x, out)
    else:
        raise WireError("value of type %s is not JSON" % type(v).__name__)


def loads(b):
    v, pos = _load(b, 0)
    if pos != len(b):
        raise WireError("trailing bytes")
    return v


def _until(b, pos, ch):
    end = b.index(ch, pos)
    return b[pos:end], end + 1


def _load(b, pos):
    c = b[pos:pos + 1]
    pos += 1
    if c == b"n":
        return None, pos
    if c == b"t":
        return True, pos
    if c == b"f":
        return False, pos
    if c == b"i":
        s, pos = _until(b, pos, b";")
        return int(s), pos
    if c == b"r":
        s, pos = _until(b, pos, b";")
        return float.fromhex(s.decode()), pos
    if c == b"s":
        s, pos = _until(b, pos, b":")
        n = int(s)
        return b[pos:pos + n].decode("utf-8", "surrogatepass"), pos + n
    if c == b"l":
        s, pos = _until(b, pos, b":")
        r = []
        for _ in range(int(s)):
            v, pos = _load(b, pos)
            r.append(v)
        return r, pos
    if c == b"d":
        s, pos = _until(b, pos, b":")
        r = {}
        for _ in range(int(s)):
            if b[pos:pos + 1] != b"s":
                raise WireError("key")
            k, pos = _load(b, pos)
            v, pos = _load(b, pos)
            r[k] = v
        return r, pos
    raise WireError("tag %r at %d" % (c, pos - 1))


def write_msg(f, payload):
    f.write(b"%d\n" % len(payload))
    f.write(payload)
    f.flush()


def read_msg(f):
    line = f.readline()
    if not line:
        raise EOFError("driver closed the pipe")
    n = int(line.strip())
    data = f.read(n)
    if len(data) != n:
        raise EOFError("short read")
    return data
