(* driver.ml -- glue around the extracted model (gen/model.ml).  Nothing but I/O lives here:
   framing, the wire syntax of JSON values, and the call-back that hands expression
   evaluation to the harness (which calls the real orquesta evaluators).

   Frame:   <decimal byte length>\n<payload>
   Value:   n | t | f | i<decimal>; | r<float hex>; | s<bytes>:<raw bytes> | l<count>:<values> |
            d<count>:(<s-value><value>)*                                                         *)
open Model
let raise = Stdlib.raise

let read_msg ic =
  let line = input_line ic in
  let n = int_of_string (String.trim line) in
  really_input_string ic n

let write_msg oc s =
  output_string oc (string_of_int (String.length s));
  output_char oc '\n';
  output_string oc s;
  flush oc

exception Wire of string

let parse (s : string) : json =
  let pos = ref 0 in
  let len = String.length s in
  let peek () = if !pos < len then s.[!pos] else raise (Wire "eof") in
  let until ch =
    let start = !pos in
    while peek () <> ch do incr pos done;
    let r = String.sub s start (!pos - start) in
    incr pos; r in
  let rec value () =
    let c = peek () in
    incr pos;
    match c with
    | 'n' -> JNull
    | 't' -> JBool true
    | 'f' -> JBool false
    | 'i' -> (match z_of_string (until ';') with Some z -> JInt z | None -> raise (Wire "int"))
    | 'r' -> JFloat (until ';')
    | 's' -> JStr (str_body ())
    | 'l' ->
        let n = int_of_string (until ':') in
        let rec go k acc = if k = 0 then List.rev acc else let v = value () in go (k - 1) (v :: acc) in
        JList (go n [])
    | 'd' ->
        let n = int_of_string (until ':') in
        let rec go k acc =
          if k = 0 then List.rev acc
          else begin
            (match peek () with 's' -> incr pos | _ -> raise (Wire "key"));
            let key = str_body () in
            let v = value () in
            go (k - 1) ((key, v) :: acc)
          end in
        JDict (go n [])
    | _ -> raise (Wire "tag")
  and str_body () =
    let n = int_of_string (until ':') in
    let r = String.sub s !pos n in
    pos := !pos + n; r in
  let v = value () in
  if !pos <> len then raise (Wire "trailing");
  v

let unparse (j : json) : string =
  let b = Buffer.create 4096 in
  let str s = Buffer.add_string b (string_of_int (String.length s)); Buffer.add_char b ':'; Buffer.add_string b s in
  let rec go = function
    | JNull -> Buffer.add_char b 'n'
    | JBool true -> Buffer.add_char b 't'
    | JBool false -> Buffer.add_char b 'f'
    | JInt z -> Buffer.add_char b 'i'; Buffer.add_string b (z_to_string z); Buffer.add_char b ';'
    | JFloat h -> Buffer.add_char b 'r'; Buffer.add_string b h; Buffer.add_char b ';'
    | JStr s -> Buffer.add_char b 's'; str s
    | JList l -> Buffer.add_char b 'l'; Buffer.add_string b (string_of_int (List.length l));
        Buffer.add_char b ':'; List.iter go l
    | JDict d -> Buffer.add_char b 'd'; Buffer.add_string b (string_of_int (List.length d));
        Buffer.add_char b ':'; List.iter (fun (k, v) -> Buffer.add_char b 's'; str k; go v) d in
  go j;
  Buffer.contents b

let send j = write_msg stdout (unparse j)
let recv () = parse (read_msg stdin)

(* expression evaluation is delegated to the harness *)
let ev (stmt : string) (ctx : dict) : evalres =
  send (JList [JStr "eval"; JStr stmt; JDict ctx]);
  match recv () with
  | JList [JStr "ok"; v] -> EvOk v
  | JList [JStr "err"; JStr cls; JStr msg; JBool b] -> EvErr { x_cls = cls; x_msg = msg; x_expr = b }
  | _ -> raise (Wire "eval reply")

let () =
  set_binary_mode_in stdin true;
  set_binary_mode_out stdout true;
  let state = ref None in
  let rec loop () =
    (match recv () with
     | JList [JStr "init"; spec; graph; inputs; parent] ->
         state := start spec graph inputs parent;
         send (JList [JStr (match !state with Some _ -> "ok" | None -> "fail")])
     | JList [JStr "restore"; spec; graph; dyn] ->
         state := restore spec graph dyn;
         send (JList [JStr (match !state with Some _ -> "ok" | None -> "fail")])
     | JList [JStr "op"; op] ->
         (match !state with
          | None -> send (JList [JStr "fail"])
          | Some c ->
              let (c', out) = run_op ev c op in
              state := Some c';
              send (JList [JStr "ret"; out]))
     | JList [JStr "quit"] -> exit 0
     | _ -> send (JList [JStr "fail"]));
    loop () in
  try loop () with End_of_file -> ()
