"""C05 finding (unchanged tree a627a1e): conducting.py update_task_state, RETRYING branch, stages the task
again with retry=task_state_entry["retry"] -- the staged entry and the record share one dict.  When a second
retry happens while the first re-staged entry is still there (with-items task with items in flight: the staged
entry is not removed), the live conductor shows tally=2 in the old staged entry, a restored one tally=1.
Run: PYTHONPATH=/repo /venv/bin/python probes/c05_retry_alias.py      (prints DIFFERENT; EQUAL after the fix
retry=json_util.deepcopy(task_state_entry["retry"]))"""
import collections.abc, json, copy
from orquesta import conducting, events, statuses
from orquesta.specs import native as native_specs

DEF = {"version": 1.0, "tasks": {
    "t": {"action": "core.echo", "input": {"m": "<% item() %>"}, "with": "<% list(1, 2, 3) %>",
          "retry": {"count": 3, "when": "<% failed() %>"}}}}

def run(persist_at, ops):
    c = conducting.WorkflowConductor(native_specs.WorkflowSpec(copy.deepcopy(DEF)))
    c.request_workflow_status(statuses.RUNNING)
    for i, op in enumerate(ops):
        if op == "next":
            c.get_next_tasks()
        else:
            item, st = op
            ev = (events.TaskItemActionExecutionEvent(item, st, result=None, accumulated_result=[None]*3)
                  if item is not None else events.ActionExecutionEvent(st))
            try:
                c.update_task_state("t", 0, ev)
            except Exception as e:
                print("   raised", type(e).__name__, e)
        if i in persist_at:
            c = conducting.WorkflowConductor.deserialize(c.serialize())
    return c.serialize()["state"]

import sys
ops = json.loads(sys.argv[1]) if len(sys.argv) > 1 else ["next", [0, "running"], [1, "running"], [None, "failed"], [None, "failed"]]
a = run(set(), ops)
b = run(set(range(len(ops))), ops)
print("never   staged:", json.dumps(a["staged"])); print("         seq   :", json.dumps(a["sequence"]))
print("always  staged:", json.dumps(b["staged"])); print("         seq   :", json.dumps(b["sequence"]))
print("EQUAL" if json.dumps(a, sort_keys=True) == json.dumps(b, sort_keys=True) else "DIFFERENT")
