"""Minimal reproducers of the C16 candidates (harness/props/c16.py KNOWN_CANDIDATES) on the unchanged tree.
Run: cd /verif && flock -s /tmp/orq_repo.lock env PYTHONPATH=/repo:/verif PYTHONHASHSEED=0 /venv/bin/python probes/c16_candidates.py
"""
import collections.abc  # noqa: F401
import copy

from harness import provider
from orquesta.expressions import base as expr_base


def run(definition, inputs=None):
    s = provider.Session(definition, inputs or {}, with_model=False)
    s.boot()
    for _ in range(6):
        s.poll()
        if not s.inflight:
            break
        for key in sorted(s.inflight, key=repr):
            s.report(key, "succeeded", None)
    s.render()
    return s


print("== C16-dict-republish-merge")
d = {"version": 1.0, "vars": [{"w": {"a": 1, "n": {"x": 1}}}, {"e": {"k": 1}}],
     "tasks": {"t1": {"action": "core.noop",
                      "next": [{"publish": [{"w": {"b": 2, "n": {"y": 2}}}, {"e": {}}, {"seen_here": "<% ctx().w %>"}],
                                "do": "t2"}]},
               "t2": {"action": "core.echo", "input": {"w": "<% ctx().w %>", "e": "<% ctx().e %>"}}},
     "output": [{"w": "<% ctx().w %>"}, {"e": "<% ctx().e %>"}]}
s = run(d)
print(" published delta contexts[1]      :", s.impl.c.workflow_state.contexts[1])
print(" expected  next task / output  w  : {'b': 2, 'n': {'y': 2}}   e: {}")
print(" observed  output                 :", s.impl.c.get_workflow_output())

print("== C16-jinja-mutation")
ctx = {"v": [3, 1, 2], "d": {"a": 1}}
before = copy.deepcopy(ctx)
expr_base.evaluate("{{ ctx().v.append(9) }}", ctx)
expr_base.evaluate("{{ ctx().d.update({'z': 1}) }}", ctx)
print(" context before:", before, " after:", ctx)
d = {"version": 1.0, "vars": [{"v": [1]}],
     "tasks": {"t1": {"action": "{{ ctx().v.append(2) or 'core.echo' }}", "input": {"seen": "<% ctx().v %>"}}}}
s = provider.Session(d, {}, with_model=False)
s.boot()
print(" action input rendered after the action expression mutated v (expected [1]):",
      s.impl.c.get_next_tasks()[0]["actions"][0]["input"])

print("== C16-dunder-direct-variable")
data = {"v": 1, "__state": {"secret": 5}, "__current_task": {"id": "t", "route": 0}}
for e in ("<% ctx('__state') %>", "<% $__state %>", "<% $__vars %>", "{{ __state }}", "{{ __vars }}"):
    try:
        print("  %-22s -> %r" % (e, expr_base.evaluate(e, data)))
    except Exception as x:
        print("  %-22s raises %s" % (e, str(x)[:90]))

print("== C16-dunder-publish-named")
d = {"version": 1.0, "tasks": {"t1": {"action": "core.noop", "next": [{"publish": [{"__mine": 5}], "do": "t2"}]},
                               "t2": {"action": "core.noop"}}, "output": [{"__o": 1}]}
s = run(d)
print(" contexts:", s.impl.c.workflow_state.contexts, " output:", s.impl.c.get_workflow_output())

print("== C16-data-string-reevaluated (outside the property's quantifier)")
print("  <% ctx().v %> with v = '<% 1 + 1 %>'  ->", repr(expr_base.evaluate("<% ctx().v %>", {"v": "<% 1 + 1 %>"})))
d = {"version": 1.0, "input": ["v"], "vars": [{"secret": "s3"}], "tasks": {"t1": {"action": "core.noop"}},
     "output": [{"v": "<% ctx().v %>"}]}
s = run(d, {"v": "<% 1 + 1 %>"})
print("  runtime input '<% 1 + 1 %>' stored in contexts[0] as:", repr(s.impl.c.workflow_state.contexts[0]["v"]))
