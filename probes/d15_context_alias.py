import collections.abc, logging
logging.disable(50)
from orquesta import conducting, events, statuses as S
from orquesta.specs import native as specs
wf = """
version: 1.0
vars: [{a: {x: 1}}]
tasks:
  t1: {action: core.noop, next: [{publish: [{a: {y: 2}}], do: [t2]}]}
  t2: {action: core.noop}
  t3: {action: core.noop, next: [{do: [t4]}]}
  t4: {action: core.noop}
"""
c = conducting.WorkflowConductor(specs.WorkflowSpec(wf))
c.request_workflow_status(S.RUNNING)
for t in c.get_next_tasks():
    c.update_task_state(t["id"], t["route"], events.ActionExecutionEvent(S.RUNNING))
print("contexts before:", c.workflow_state.contexts)
c.update_task_state("t1", 0, events.ActionExecutionEvent(S.SUCCEEDED))
print("contexts after t1:", c.workflow_state.contexts)
nt = c.get_next_tasks()
print("t2 ctx a:", [(t["id"], t["ctx"]["a"]) for t in nt])
print("contexts after get_next_tasks:", c.workflow_state.contexts)
c.update_task_state("t3", 0, events.ActionExecutionEvent(S.SUCCEEDED))
nt = c.get_next_tasks()
print("offers:", [(t["id"], t["ctx"]["a"]) for t in nt])
