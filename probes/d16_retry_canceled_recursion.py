"""D16: a task with retry {when: completed()} that reports canceled recurses without bound."""
import collections.abc, logging
logging.disable(50)
from orquesta import conducting, events, statuses as S
from orquesta.specs import native as specs
wf = """
version: 1.0
tasks:
  a: {action: core.noop, retry: {count: 1, when: <% completed() %>}}
"""
c = conducting.WorkflowConductor(specs.WorkflowSpec(wf))
c.request_workflow_status(S.RUNNING)
for t in c.get_next_tasks():
    c.update_task_state(t["id"], t["route"], events.ActionExecutionEvent(S.RUNNING))
try:
    c.update_task_state("a", 0, events.ActionExecutionEvent(S.CANCELED))
    print("no exception; status", c.get_workflow_status(), [e["message"][:60] for e in c.errors])
except BaseException as e:
    print("escaped:", type(e).__name__, str(e)[:80])
