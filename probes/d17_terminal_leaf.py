"""D17: a branch whose last task has transitions none of which fires is flagged terminal only if it
happens to finish last, so the workflow output depends on the order of completion reports."""
import collections.abc, logging
logging.disable(50)
from orquesta import conducting, events, statuses as S
from orquesta.specs import native as specs
wf = """
version: 1.0
output: [{v: <% ctx().get('v') %>}]
tasks:
  a: {action: core.noop, next: [{publish: [{v: 1}], do: [b]}, {do: [c]}]}
  b: {action: core.noop, next: [{when: <% failed() %>, do: [noop]}]}
  c: {action: core.noop, next: [{when: <% failed() %>, do: [noop]}]}
"""
def run(order):
    c = conducting.WorkflowConductor(specs.WorkflowSpec(wf))
    c.request_workflow_status(S.RUNNING)
    def poll():
        for t in c.get_next_tasks():
            c.update_task_state(t["id"], t["route"], events.ActionExecutionEvent(S.RUNNING))
    poll(); c.update_task_state("a", 0, events.ActionExecutionEvent(S.SUCCEEDED)); poll()
    for t in order:
        c.update_task_state(t, 0, events.ActionExecutionEvent(S.SUCCEEDED)); poll()
    c.render_workflow_output()
    return c.get_workflow_status(), c.get_workflow_output()
r1, r2 = run(["b", "c"]), run(["c", "b"])
print(r1, r2)
print("PASS" if r1 == r2 else "FAIL: output depends on completion order")
