import collections.abc, logging
logging.disable(50)
from orquesta import conducting, events, statuses as S
from orquesta.specs import native as specs
def mk(wf):
    c = conducting.WorkflowConductor(specs.WorkflowSpec(wf)); c.request_workflow_status(S.RUNNING); return c
def poll(c):
    for t in c.get_next_tasks():
        c.update_task_state(t["id"], t["route"], events.ActionExecutionEvent(S.RUNNING))
c = mk("""
version: 1.0
vars: [{x: 0}]
output: [{x: <% ctx().x %>}]
tasks:
  a: {action: core.noop, next: [{when: <% failed() %>, do: [noop]}]}
""")
poll(c); c.request_workflow_status(S.PAUSING); c.update_task_state("a",0,events.ActionExecutionEvent(S.SUCCEEDED)); print(c.get_workflow_status()); c.request_workflow_status(S.RESUMING)
c.render_workflow_output()
print("D5a resume-completed:", c.get_workflow_status(), c.get_workflow_output(), [e["message"][:50] for e in c.errors])
# cancel while dormant with a satisfied transition pending (staged, not started)
c = mk("""
version: 1.0
vars: [{x: 0}]
output: [{x: <% ctx().x %>}]
tasks:
  a: {action: core.noop, next: [{publish: [{x: 1}], do: [b]}]}
  b: {action: core.noop}
""")
poll(c); c.update_task_state("a",0,events.ActionExecutionEvent(S.SUCCEEDED)); c.request_workflow_status(S.CANCELING)
c.render_workflow_output()
print("cancel while dormant with b staged:", c.get_workflow_status(), c.get_workflow_output(), [e["message"][:50] for e in c.errors])
# pause, a completes with satisfied transition to b (staged), resume -> continues normally
