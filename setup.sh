#!/bin/bash
# MANIFEST.setup_cmd: build the framework from files on disk only (offline).
cd "$(dirname "$0")"
./build.sh
rc=$?
if [ ! -x ocaml/driver ]; then echo "setup: driver missing"; exit 1; fi
exit 0
