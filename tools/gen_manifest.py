#!/venv/bin/python
"""Regenerates /verif/MANIFEST.json from the table below (kept here so the manifest stays valid and in step
with what is actually registered)."""
import json
import os

VERIF = os.path.dirname(os.path.dirname(os.path.abspath(__file__)))

TECH = ("machine-checked proof in Coq 8.16 (theorems over an executable Gallina model regenerated/tied to /repo on "
        "every run) + lock-step correspondence of the extracted model with the engine + engine-side monitors")

# property -> (level text, level note)
CLAIMED = {
    "C04": ("Proved for every evaluator, state and rerun-free history of API calls: failed and canceled are final, "
            "succeeded can only become failed, nothing is offered in succeeded/canceled and only run_on_fail entries in "
            "failed; a status request that is rejected leaves the entire conductor state unchanged (for every state whose "
            "workflow status is one of the table's rows, which is proved invariant over every history; witness that the "
            "proviso is needed). Tested by monitor, not proved: late reports are absorbed without error.",
            "Theorems are about coq/model (Conductor.v etc.); workflow/task tables, status sets and event vocabularies are "
            "regenerated from /repo by harness/reflect.py on every run; the model is tied to conducting.py/machines.py by "
            "comparing serialize() of engine and extracted model after every API call on generated histories (sampled)."),
    "C08": ("PARTIAL. Proved: whatever the order of reports the status only moves along the generated table (wf_reach) "
            "and no report rewrites earlier history (R18). Confluence itself (same final status / record multiset / "
            "published values / output for every linearisation) is NOT proved; it is tested by simulating each scenario "
            "under several completion orders on the engine.",
            "Scenario class of the test: acyclic, per-task outcomes, single-writer publishes, no join below inbound count "
            "(known findings D1, D11 excluded and re-confirmed by witnesses on every run)."),
    "C09": ("PARTIAL. Proved: nothing is offered while pausing/paused; a status request changes only statuses (frame); "
            "while pausing no task event takes the workflow back to an offering status; pause/resume rows of the table. "
            "A pause request changes nothing but statuses (whole-state equality after forgetting statuses); a report "
            "completes its task identically whether running or pushed to pausing; a task event fails/cancels the pausing "
            "workflow exactly when it would the running one; resume finds the staged entries untouched; C02b gives 'paused "
            "exactly when nothing is in flight' for the formal protocol. For plain tasks (no item tables, no engine-command targets) and evaluators that do not read "
            "__state the whole call commutes with the pause: any report processed while pausing gives the same result and a "
            "state equal up to workflow status / terminal flags / error log, and a pause inserted before a block of reports "
            "with a resume at rest yields the unpaused state (status resuming) and the same next offers. Refuted where the "
            "unpaused run completes on that report (output rendered without the last task's context -- D5a). Tested, not "
            "proved: the same with with-items tasks and engine commands. Witness: a condition reading $__state.status sees "
            "the pause.",
            "Reference provider protocol (atomic poll) assumed by the twin-run monitor; known finding D5a."),
    "C10": ("Proved for every evaluator and rerun-free history: after canceling/canceled the status stays in "
            "{canceling, canceled, failed}, never succeeded; nothing is offered unless failed; canceled is final (so "
            "rendering keeps it). No task report on a canceling/canceled workflow makes it failed or triggers the unreachable-join "
            "check; it becomes failed only by an explicit request or a recorded evaluation failure; the output is rendered "
            "against the fold over terminal records, which is empty after a cancel request with tasks still staged (finding "
            "D5a, exact). Tested, not proved: canceling while in flight / canceled at the last report with with-items tasks "
            "(proved for the formal protocol without them, C02b).",
            "Same tie as C04; fact F_wf_cancel_closed sweeps the cancel rows of the generated table."),
    "C11": ("Proved for every evaluator whose failures are expression-evaluation exceptions, every API operation, state and "
            "history: no evaluation failure escapes a conductor API call (structural over the whole model; every evaluator "
            "call sits under a handler); at every handler site the failure is recorded as an error entry naming the task, route "
            "and transition concerned and is never lost; after any call that recorded one the workflow is failed (or stays "
            "canceled); the poll that recorded a rendering failure offers nothing and a settled workflow offers only "
            "clean-up entries (rerun excluded: it filters the log and reopens the workflow).",
            "The hypothesis about the real evaluators (they wrap every failure) is checked on every run: each evaluator "
            "call made by the model reports whether the exception was an ExpressionEvaluationException."),
    "C18": ("Proved for every evaluator, state and history of API calls (all but the persist round trip = C05), also for "
            "calls that raise: contexts/routes only grow at the end, no record is removed or moved, id/route/ctxs.in/prev of "
            "an existing record never change. A completed record is frozen (status, decisions, published context, retry record) through every "
            "history including reruns, late, duplicate and malformed events, whatever its retry budget (after repair D33; only "
            "an injected internal retry event is excluded, with a witness). A retried "
            "attempt decides no transition and publishes nothing.",
            "Python aliasing is outside a Gallina model; it is tied by the live-vs-model comparison and by C05."),
}

CLAIMED.update({
    "C01": ("PARTIAL. Proved: every offer of get_next_tasks is a ready, not-completed staged entry; as an invariant of every "
            "history of API calls from a fresh conductor (reruns and raising calls included) every staged entry and every "
            "record is justified -- a start task of the graph, or each predecessor is a completed record whose transition "
            "into it is an edge of the graph recorded satisfied -- with no protocol hypothesis (late and duplicate reports included); 'recorded "
            "satisfied' is exactly 'the criteria evaluated truthy in the context made from the reported status and result'; "
            "the justification of a started record is permanent. Tested, not proved: exactly-once and the multiset equality "
            "with what the definition prescribes.",
            "Monitor c01 reads transitions and start tasks straight from the definition; known findings D1, D8."),
    "C05": ("Proved: the codec round trip dec_cstate (enc_cstate c) = Some c for every initialised state (no other "
            "well-formedness needed; transition/pointer ids round-trip for every task name), persisting a restored conductor "
            "reproduces the form, persist is the identity on initialised states, and therefore for every evaluator, history "
            "and every subset of persist points the final state and every observation are unchanged. The substance on the "
            "real engine is Python aliasing, which is tied by running every case never-persisted / persisted-after-every-call / "
            "persisted-at-random-points on the engine and against the model.",
            "The model has value semantics by construction; aliasing defects are found by the three-way engine runs (D3, D20 "
            "were found this way and repaired)."),
    "C12": ("Proved about choose_items (the model of _evaluate_task_actions): offered + active <= concurrency; the offer is "
            "a prefix in item order of the items that have not run; edge cases; an item event with another item active never "
            "completes the task (table sweep); nothing offered while held. For the formal provider protocol with items (per-item acknowledgement and reports), every evaluator "
            "and every fault-free history that wipes no item table: an item is in flight iff its slot is running; after every "
            "API call of a poll at most max(k,1) items are active and no other step increases that; items are offered once "
            "per table in consecutive index order; nothing is offered once pause or cancel was requested. Witnesses: an items "
            "expression whose length changes between polls breaks drain-before-complete; D1; D24. Tested, not proved: drain "
            "before complete / succeeds iff all succeed under stable item counts, result order, all n offered.",
            "Window counts active items (pending/paused items are not active, as in the engine)."),
    "C13": ("Proved for every evaluator: the retry decision is yes only while tally < count and only if the condition holds for "
            "the latest execution; retrying is entered only by the internal retry event from a completed status; a re-offered "
            "retry carries the retry delay; over every history of API calls from the empty history one record enters retrying "
            "at most max(count,0) times (at most count+1 executions per visit), with no protocol hypothesis; the re-entrant "
            "update_task_state call terminates (the model's recursion bound is never reached over composed graphs); no "
            "transition, publish or failure handling fires for an attempt that is retried (the call decides nothing).",
            "The engine's own tally can run ahead of the retries (an ignored event on a retrying record is counted; shown by "
            "Examples) -- this costs retries and never adds an execution, so it is not a violation of the bound."),
})

CLAIMED.update({
    "C14": ("Proved about compose (the model of WorkflowComposer._compose_wf_graph), unconditionally for every composable "
            "definition (termination with a computable fuel bound is proved; an empty semantic inspection report makes a "
            "definition composable): edges sound and complete w.r.t. (task, transition, target) triples, nodes exactly the reachable "
            "tasks, no duplicate edges, parallel-edge keys dense, roots exactly the start tasks, barrier/retry attributes exactly "
            "where declared, independence of declaration order, typed serialize/deserialize round trip incl. keys "
            "(15 theorems + 14 total restatements).",
            "Model tied to composers/native.py by comparing the Coq compose (vm_compute) with the real composer on generated "
            "definitions, plus an independent reference construction from the definition."),
    "C17": ("PARTIAL. Proved: a rerun is refused (state unchanged) unless the workflow is completed and every request names an "
            "existing execution; an accepted rerun leaves status resuming, output reset, and only appends to the history. "
            "The effect of an accepted rerun is characterised exactly: the candidate set (default: last terminal abended "
            "records; explicit: requests minus those collapsed into an upstream request), the equation for one candidate "
            "(new record + ready staged entry, or item reset), and the frame (everything else, in particular every other "
            "staged entry, unchanged); D9 and D8 appear as exact statements. Tested, not proved: convergence to the clean "
            "outcome (known findings D8, D9, D21).",
            "Twin simulation: fail, default rerun, re-executed actions succeed, compared with the clean run."),
    "C20": ("PARTIAL. Proved about the Gallina model of parse_inline_params and the shorthand normalisations: round trip "
            "parse(render kvs) = kvs for integers, decimals, booleans, null, quoted strings and expressions (restricted class, "
            "refuting witnesses for the excluded shapes), do / with / action shorthands equal their long forms. The scanner "
            "follows the ORDER of regex alternatives regenerated from /repo. Tested: model vs real parser on generated and hostile "
            "strings; twin definitions (short vs long) compose, inspect and conduct identically.",
            "Bracket lists and quoted JSON objects are outside the proved class and only tested."),
})

CLAIMED.update({
    "C02": ("PARTIAL. Proved about the workflow-machine step of a task event (wf_task_event_M), for every state: succeeded is "
            "reported only when nothing is active/paused/canceled/staged/next and the reporting task succeeded or was "
            "remediated; an unremediated failure fails the workflow from running/pausing/paused/resuming and stays cancel-class "
            "while canceling; pausing/canceling are left as soon as a settled task event is processed with nothing active "
            "(facts sweep all 16 statuses x 32 flag combinations of the contextualised name against the generated table). "
            "For the formal provider protocol (ProviderSys.v: boot, atomic poll+acknowledge, report, requests, render, "
            "persist), every evaluator, workflows without with-items over a well-formed composed graph and every fault-free "
            "history: an action is in flight iff its record is active; paused/canceled => nothing in flight; "
            "pausing/canceling => something in flight; succeeded => nothing in flight, staged or active and every record "
            "completed or retrying (partial: retrying not excluded). Tested, not proved: the same with with-items tasks and "
            "intermediate action statuses; a fail command / runtime error ends failed (C11b proves the latter).",
            "Reference provider protocol; known findings D1, D8, D9, D21, D24."),
    "C03": ("PARTIAL. Proved: a settled task event processed with nothing active takes a pausing/canceling workflow to rest "
            "(table sweeps: dormant events are always accepted there and always lead to a resting status); resume of a finished "
            "paused workflow completes it; what is on offer is exactly the ready staged entries. For the formal provider protocol, every evaluator, workflows without with-items over a "
            "well-formed composed graph with a start task and every fault-free history: quiescence (nothing in flight, empty "
            "poll) implies succeeded/failed/canceled/paused, and paused only after a pause request; witnesses show the two "
            "hypotheses are needed. Tested, not proved: the same with with-items, retry-in-loops, reruns and intermediate "
            "action statuses (side-effect-free poll of a restored copy at every quiescent point).",
            "Known findings D1, D8, D9, D21, D24, D25."),
    "C16": ("PARTIAL. Proved: exact characterisation of merge_dicts (lookup, replace for non-dicts, key order, uniqueness), "
            "literal values pass through evaluate unchanged in type and value, evaluate is state-pure, the data path links "
            "input -> contexts[0] -> task context -> offer and publish -> delta for literals, and published deltas contain exactly "
            "the published names (27 theorems). The part that lives in YAQL/Jinja/ujson is tied by a value-zoo differential on "
            "the real evaluators and a full conductor data path (also against the model).",
            "Known candidates recorded in known_findings.json (C16-*): dict-over-dict publish merges, Jinja can mutate the "
            "context, $__state/{{ __state }} bypass ctx(), dunder names can be published by name."),
})

CLAIMED.update({
    "C06": ("Proved: the offered context is the in-order merge of the snapshots the staged entry points to; a publish "
            "reaches only its target; a published snapshot is never modified later; a delta contains exactly the published "
            "names; and, as an invariant of every history from a fresh conductor with no hypothesis, every snapshot in a "
            "task's list is the initial one, or was created by an edge into that task, or is inherited along edges -- so a "
            "snapshot published on a transition occurs only in tasks reachable from that transition's target (a variable "
            "published only on a transition that does not lead to the task is never visible to it); the exact recurrence of "
            "the lists and of the output fold. Supersession order at joins is refuted by known finding D11, which is a "
            "consequence of that recurrence (Example).",
            "Known finding D11; C16 characterises the merge itself. Taint monitor as an independent test."),
    "C07": ("PARTIAL. Proved: barrier satisfied iff the number of distinct inbound tasks with a satisfied transition into the "
            "join on the route reaches the requirement (all / count); each inbound task counts once through its own record; "
            "only ready entries are offered; completing (not by cancel) with an unready unsatisfiable join fails the workflow "
            "and hands the joins over to be logged. The ready flag of a staged entry equals the barrier status computed at each "
            "arrival and nothing else rewrites it. Tested, not proved: once per satisfaction (refuted for join: n below "
            "inbound count by known finding D1).",
            "Known findings D1, D21."),
    "C19": ("PARTIAL. Determinism holds by construction for the model (Gallina functions) and the engine is compared with "
            "that single answer after every API call; proved: offers are sorted by (id, route); the query is the identity in "
            "every status in which nothing may be offered. Asking again returns the same state and the same answer (up to the __state entry of the "
            "contexts) for every evaluator that does not read __state and every state without a clean-up entry staged "
            "before failure (witnesses for both provisos). Tested, not proved: identical artefacts across interpreter hash "
            "seeds (subprocess replay, key order included).",
            "Hash-seed dependence is a CPython behaviour no Gallina model exhibits."),
})

CLAIMED.update({
    "C15": ("PARTIAL. Proved about the model of the inspection detectors (coq/model/Inspect.v): every reachable transition "
            "to an undefined task is reported and nothing else is (sound, complete, total for unique task names); every task "
            "named like an engine command is reported; the absence of a start task is reported exactly when there is none; "
            "a definition whose semantic report is empty has a start task, no reserved names, only defined or command "
            "targets behind reachable tasks, and composes (compose fails only by fuel); the inspected positions and their "
            "order are exactly the expected ones (regenerated from /repo on every run); per spec object an unassigned "
            "variable is reported iff referenced before any assignment; evaluation failures never escape an API call (C11). "
            "No internal error: from a well-formed state over a statically well-formed graph every status request, poll, "
            "rendering, persist and every provider event that is not a malformed call (five decidable clauses, each with an "
            "example of the engine's internal error) keeps well-formedness and raises only documented refusals, for every "
            "evaluator that raises no internal class itself; lifted to histories; reruns are not covered. "
            "Tested, not proved: grammar validation and the regex extraction of references (oracles, fault injection at every "
            "inspected position), the context worklist over the task graph, and no internal error on histories with reruns "
            "(generated accepted definitions under random histories in lock step with the conductor model).",
            "Known findings listing C15: D1, D8, D21, D24, D25 and C15-rerun-of-inflight-task. Single-fault mutants of "
            "every generated base are judged both ways against the real inspect() and an independent reference reading."),
})

NOT_YET = {}


def main():
    props = [json.loads(l) for l in open(os.path.join(VERIF, "properties.jsonl"))]
    checks = []
    for p in props:
        pid = p["id"]
        if pid in CLAIMED and os.path.exists(os.path.join(VERIF, "harness", "props", pid.lower() + ".py")) \
                and os.path.exists(os.path.join(VERIF, "coq", "props", pid + ".v")):
            text, note = CLAIMED[pid]
            checks.append({
                "property_id": pid,
                "quick_cmd": "./check %s quick" % pid,
                "thorough_cmd": "./check %s thorough" % pid,
                "evidence_file": "evidence/%s.json" % pid,
                "replay_cmd_template": "./check %s --replay {path}" % pid,
                "engine": "coq-model",
                "level_claimed": {"category": "proof", "text": text, "design_ref": "DESIGN.md section 5 (%s)" % pid},
                "level_note": note,
                "technique": TECH,
            })
    claimed = set(c["property_id"] for c in checks)
    na = [{"property_id": p["id"],
           "reason": NOT_YET.get(p["id"], "check not registered yet in this round: its theorem file / module is still "
                                          "being built (the model and the correspondence harness already cover it)")}
          for p in props if p["id"] not in claimed]
    m = {
        "version": 1,
        "setup_cmd": "./setup.sh",
        "hooks": {
            "guard": "ORQUESTA_VERIF",
            "enable": "no hooks or instrumentation are needed: every observable is public API; checks run /repo as it is",
            "baseline_off_cmd": "cd /repo && /venv/bin/python -m pytest -ra -q -p no:cacheprovider --timeout=900 "
                                "--continue-on-collection-errors",
            "source_commits": [],
            "add_only": True,
        },
        "engines": [{
            "name": "coq-model", "path": "coq/", "serves_properties": sorted(claimed),
            "kind_free_text": "Coq 8.16 development: data generated from /repo (coq/gen), executable model (coq/model), "
                              "table facts, proofs, property theorems (coq/props); extracted to OCaml (ocaml/driver) and "
                              "compared with the engine by harness/",
        }],
        "checks": checks,
        "not_applicable": na,
        "notes": "See DESIGN.md. Genuine defects repaired by 'fix:' commits in /repo and defects recorded as known findings "
                 "are listed in known_findings.json.",
    }
    with open(os.path.join(VERIF, "MANIFEST.json"), "w") as f:
        json.dump(m, f, indent=1)
    print("claimed:", sorted(claimed))


if __name__ == "__main__":
    main()
