#!/bin/bash
# tools/seeded_all.sh [tier] [dir...]  -- run every stored seeded change against the check of its property and record
# the outcome in seeded/<id>/detection.json (exit code, VIOLATION lines, /repo HEAD, /verif HEAD).
tier=${1:-quick}; shift
cd "$(dirname "$0")/.."
dirs="$@"; [ -z "$dirs" ] && dirs=$(ls -d seeded/*/)
for d in $dirs; do
  d=${d%/}
  p=$(/venv/bin/python -c "import json,sys; print(json.load(open('$d/meta.json'))['property'])")
  out=$(tools/with_repo_patch.sh $d/patch.diff timeout 2400 ./check $p $tier 2>&1); rc=$?
  n=$(echo "$out" | grep -c "^VIOLATION")
  first=$(echo "$out" | grep "^VIOLATION" | head -1)
  last=$(echo "$out" | tail -1)
  /venv/bin/python - "$d" "$p" "$tier" "$rc" "$n" "$first" "$last" <<'PY'
import json, sys, subprocess
d, p, tier, rc, n, first, last = sys.argv[1:8]
rec = {"check": "./check %s %s (tools/with_repo_patch.sh %s/patch.diff ...)" % (p, tier, d), "exit": int(rc),
       "violation_lines": int(n), "first_violation_line": first, "summary_line": last,
       "concrete_input_found": bool(first) and "no-failing-input-found" not in first,
       "repo_head": subprocess.run("git -C /repo rev-parse --short HEAD", shell=True, capture_output=True, text=True).stdout.strip(),
       "verif_head": subprocess.run("git -C /verif rev-parse --short HEAD", shell=True, capture_output=True, text=True).stdout.strip()}
import os
seed = os.environ.get("VERIF_SEED")
rec["seed"] = seed or "default"
json.dump(rec, open(d + ("/detection.json" if not seed else "/detection_seed%s.json" % seed), "w"), indent=1)
PY
  echo "$d $p exit=$rc lines=$n $first"
done
