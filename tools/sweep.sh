#!/bin/bash
# tools/sweep.sh <tier> <seed>...   -- run every registered check under each seed; print the non-quiet ones
tier=$1; shift
cd "$(dirname "$0")/.."
./setup.sh > /dev/null 2>&1
for seed in "$@"; do
  for p in $(/venv/bin/python -c "import json; print(' '.join(c['property_id'] for c in json.load(open('MANIFEST.json'))['checks']))"); do
    out=$(VERIF_SEED=$seed ./check $p $tier 2>&1)
    rc=$?
    echo "seed=$seed $p rc=$rc $(echo "$out" | tail -1)"
    if [ $rc -ne 0 ]; then echo "$out" | grep -v KNOWN-FINDING | head -5; fi
  done
done
