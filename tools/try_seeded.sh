#!/bin/bash
# tools/try_seeded.sh <seeded-dir> <Cnn> [tier]  -- apply a seeded change to /repo, run the check, restore /repo.
d=$1; p=$2; tier=${3:-quick}
cd /verif
tools/with_repo_patch.sh "$d/patch.diff" timeout 1800 ./check $p $tier > /tmp/try_$p.out 2>&1
rc=$?
grep -c "^VIOLATION" /tmp/try_$p.out | sed "s/^/violation lines: /"
grep "^VIOLATION" /tmp/try_$p.out | head -2
tail -1 /tmp/try_$p.out
echo "exit=$rc"
