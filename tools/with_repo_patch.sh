#!/bin/bash
# tools/with_repo_patch.sh <patch.diff> <command...>
# Apply a patch to /repo, run the command (with REPO_LOCK_HELD=1), and restore /repo -- all under the exclusive
# repo lock, so that no other check sees the patched tree and this one does not see anybody else's patch.
patch=$(readlink -f "$1"); shift
exec flock -x /tmp/orq_repo.lock bash -c '
  cd /repo || exit 2
  if ! git diff --quiet; then echo "/repo is dirty (someone edited it without the lock?)"; exit 2; fi
  git apply "$0" || { echo "patch does not apply"; exit 2; }
  cd /verif
  REPO_LOCK_HELD=1 "$@"
  rc=$?
  git -C /repo checkout -- .
  exit $rc
' "$patch" "$@"
